"""Reference model of Connector, written from docs/environments/connector.md, the class docstring of
`Connector`, the `DenseRewardFn` docstring and DESIGN.md Appendix C.

Rules
  * Square grid; agent i owns three codes: path 1+3i, head ("position") 2+3i, target 3+3i; 0 = empty.
  * Action per agent: 0 no-op, 1 up (row-1), 2 right (col+1), 3 down (row+1), 4 left (col-1).
  * A move of agent i is legal <=> the destination is inside the grid AND it is empty or holds i's own
    target AND i is not yet connected (head on its target).  No-op is always legal.  Joint effects (two
    agents choosing the same cell) are not part of per-agent legality.
  * All agents move simultaneously from the OLD grid: a legally moving head leaves a path cell behind and
    the head code is written on the destination (a reached target is overwritten by the head: a connected
    agent shows a head and no target on the grid).  An illegal move is ignored (the agent stays, nothing
    is written).  When several agents legally enter the same (necessarily empty) cell the agent with the
    HIGHEST id keeps it and every lower id is put back on its previous cell ("If a collision occurs we
    place the agent with the lower agent_id in its previous position", `_step_agents`).
  * Reward per agent (DenseRewardFn): +connected_reward (1.0) on the step on which it connects, plus
    timestep_reward (-0.03) for every step it BEGINS unconnected (so 0.97 on the connecting step, 0 once
    connected).
  * Agent done <=> connected or no legal move (on the new grid).  LAST <=> all agents done or
    step_count >= time_limit; both are "episode termination" in the class docstring (discount 0);
    MID discount = 1 - done per agent.

State fields compared (all of them): grid, step_count, agents.{id,start,target,position}, key (unchanged).

Modelling decisions
  * Observation: docs/environments/connector.md, the class docstring and the observation spec all say the
    observed grid is the (grid_size, grid_size) state grid; the `Observation` NamedTuple docstring in
    types.py still describes an older per-agent (num_agents, G, G) view.  Two documents plus the spec
    agree with each other, so C12 requires obs.grid == state.grid (the stale NamedTuple docstring is an
    observation for the lead, not a violation).
  * C06 (routes never share a cell) is recomputed from the raw arrays as: every agent's head is where
    `agents.position` says and still carries that agent's head code (nobody wrote over it), heads are
    pairwise distinct, the start and target cells of an agent carry only that agent's codes, and each
    agent's cells (paths + head) form one 4-connected set that contains its start and whose size never
    exceeds step_count + 1 (the shipped generators emit reset grids without path cells).  On completion (all agents connected) every head sits on its target and its route therefore
    links start to target.
  * Only DenseRewardFn is shipped; for another reward class the reward is not compared.
"""
from __future__ import annotations

from typing import Any, List, Optional, Tuple

import numpy as np

MOVES = {0: (0, 0), 1: (-1, 0), 2: (0, 1), 3: (1, 0), 4: (0, -1)}


# ------------------------------------------------------------------------------------------ helpers
def _n(env: Any) -> int:
    return int(env.num_agents)


def _g(env: Any) -> int:
    return int(env.grid_size)


def _path(i: int) -> int:
    return 1 + 3 * i


def _head(i: int) -> int:
    return 2 + 3 * i


def _target(i: int) -> int:
    return 3 + 3 * i


def _pos(s: Any) -> np.ndarray:
    return np.asarray(s.agents.position).astype(int)


def _tgt(s: Any) -> np.ndarray:
    return np.asarray(s.agents.target).astype(int)


def _connected(s: Any) -> np.ndarray:
    return (_pos(s) == _tgt(s)).all(axis=1)


def _inside(g: int, r: int, c: int) -> bool:
    return 0 <= r < g and 0 <= c < g


def _move_ok(grid: np.ndarray, i: int, pos: np.ndarray, connected: bool, a: int) -> bool:
    """Per-agent legality of action a (0..4) for agent i standing at pos on grid."""
    if a == 0:
        return True
    if connected:
        return False
    g = grid.shape[0]
    r, c = int(pos[0]) + MOVES[a][0], int(pos[1]) + MOVES[a][1]
    if not _inside(g, r, c):
        return False
    v = int(grid[r, c])
    return v == 0 or v == _target(i)


def _legal(env: Any, s: Any) -> np.ndarray:
    n = _n(env)
    grid = np.asarray(s.grid)
    pos, con = _pos(s), _connected(s)
    out = np.zeros((n, 5), bool)
    for i in range(n):
        for a in range(5):
            out[i, a] = _move_ok(grid, i, pos[i], bool(con[i]), a)
    return out


def _predict(env: Any, s: Any, a: np.ndarray) -> Tuple[np.ndarray, np.ndarray, np.ndarray]:
    """(new grid, new positions, moved flags) by the rules."""
    n = _n(env)
    grid = np.asarray(s.grid).astype(int)
    pos, con = _pos(s), _connected(s)
    a = np.asarray(a).astype(int)
    want = {}
    for i in range(n):
        ai = int(a[i])
        if ai != 0 and _move_ok(grid, i, pos[i], bool(con[i]), ai):
            dest = (int(pos[i][0]) + MOVES[ai][0], int(pos[i][1]) + MOVES[ai][1])
            want.setdefault(dest, []).append(i)
    new_grid = grid.copy()
    new_pos = pos.copy()
    moved = np.zeros(n, bool)
    for dest, ids in want.items():
        w = max(ids)  # the highest id keeps the cell, lower ids go back
        new_grid[tuple(pos[w])] = _path(w)
        new_grid[dest] = _head(w)
        new_pos[w] = dest
        moved[w] = True
    return new_grid, new_pos, moved


def _reward(env: Any, con0: np.ndarray, con1: np.ndarray) -> Optional[np.ndarray]:
    rf = getattr(env, "_reward_fn", None)
    if type(rf).__name__ != "DenseRewardFn":
        return None
    cr = float(getattr(rf, "connected_reward", 1.0))
    tr = float(getattr(rf, "timestep_reward", -0.03))
    return cr * (~con0 & con1).astype(np.float64) + tr * (~con0).astype(np.float64)


# ------------------------------------------------------------------------------------------ C04
def legal(env: Any, s: Any) -> np.ndarray:
    return _legal(env, s)


def mask_allows(env: Any, mask: np.ndarray, a: Any) -> bool:
    a = np.asarray(a).astype(int)
    return bool(all(mask[i, a[i]] for i in range(a.shape[0])))


def action_legal(env: Any, s: Any, a: Any) -> bool:
    lg = _legal(env, s)
    a = np.asarray(a).astype(int)
    return bool(all(lg[i, a[i]] for i in range(a.shape[0])))


def _beaten(s: Any, a: np.ndarray, pos1: np.ndarray, i: int) -> bool:
    """Agent i made a move that is legal on its own (collisions only happen among those) and an agent with a
    higher id took the cell."""
    g0, pos0 = np.asarray(s.grid).astype(int), _pos(s)
    if not _move_ok(g0, i, pos0[i], bool(_connected(s)[i]), int(a[i])):
        return False
    dest = (int(pos0[i][0]) + MOVES[int(a[i])][0], int(pos0[i][1]) + MOVES[int(a[i])][1])
    return any(j > i and tuple(pos1[j]) == dest and tuple(pos0[j]) != dest for j in range(len(a)))


def check_reaction(env: Any, s: Any, a: Any, s2: Any, ts: Any, masked_in: bool) -> List[str]:
    """Ignore-invalid environment: the invalid-action path of agent i is "asked to move, did not move and
    did not lose a collision".  A masked-in joint action must not trigger it for any agent; a masked-out
    joint action must trigger it for at least one."""
    a = np.asarray(a).astype(int)
    p0, p1 = _pos(s), _pos(s2)
    ignored = [i for i in range(len(a)) if a[i] != 0 and (p0[i] == p1[i]).all() and not _beaten(s, a, p1, i)]
    if masked_in and ignored:
        return [f"masked-in-move-ignored: joint action {a.tolist()} is masked-in but agents {ignored} did not move "
                "and no higher-id agent took their cell"]
    if not masked_in and not ignored:
        return [f"masked-out-move-executed: joint action {a.tolist()} contains a masked-out entry but every "
                "moving agent moved (or lost a collision)"]
    return []


# ------------------------------------------------------------------------------------------ C05
def check_illegal(env: Any, s: Any, a: Any, s2: Any, ts: Any) -> List[str]:
    out: List[str] = []
    n = _n(env)
    a = np.asarray(a).astype(int)
    lg = _legal(env, s)
    g0, g1 = np.asarray(s.grid).astype(int), np.asarray(s2.grid).astype(int)
    p0, p1 = _pos(s), _pos(s2)
    for i in range(n):
        if lg[i, a[i]]:
            continue
        if not (p0[i] == p1[i]).all():
            out.append(f"illegal-move-moves-agent: agent {i} action {int(a[i])} is illegal at {p0[i].tolist()} "
                       f"but its position became {p1[i].tolist()}")
        own = (_path(i), _head(i), _target(i))
        before = np.isin(g0, own) * g0
        after = np.isin(g1, own) * g1
        if not np.array_equal(before, after):
            out.append(f"illegal-move-writes-grid: the cells carrying agent {i}'s codes changed although its action "
                       f"{int(a[i])} is illegal")
    # the episode continues unless a documented cause fires
    lg2 = _legal(env, s2)
    done2 = _connected(s2) | ~lg2[:, 1:].any(axis=1)
    cause = bool(done2.all()) or int(s2.step_count) >= int(env.time_limit)
    if int(ts.step_type) == 2 and not cause:
        out.append("illegal-move-ends-episode: LAST although not all agents are connected/blocked and the time "
                   "limit is not reached")
    return out


# ------------------------------------------------------------------------------------------ C06
def _cells_of(grid: np.ndarray, i: int) -> List[Tuple[int, int]]:
    rr, cc = np.nonzero((grid == _path(i)) | (grid == _head(i)))
    return list(zip(rr.tolist(), cc.tolist()))


def _connected_set(cells: List[Tuple[int, int]], root: Tuple[int, int]) -> bool:
    S = set(cells)
    if root not in S:
        return False
    seen = {root}
    stack = [root]
    while stack:
        r, c = stack.pop()
        for dr, dc in ((1, 0), (-1, 0), (0, 1), (0, -1)):
            q = (r + dr, c + dc)
            if q in S and q not in seen:
                seen.add(q)
                stack.append(q)
    return len(seen) == len(S)


def check_constraints(env: Any, s: Any) -> List[str]:
    out: List[str] = []
    n, g = _n(env), _g(env)
    grid = np.asarray(s.grid).astype(int)
    pos, tgt = _pos(s), _tgt(s)
    start = np.asarray(s.agents.start).astype(int)
    heads = [tuple(p) for p in pos.tolist()]
    if len(set(heads)) != n:
        out.append(f"routes-share-a-cell: two heads on one cell, positions {pos.tolist()}")
    for i in range(n):
        r, c = heads[i]
        if not _inside(g, r, c):
            out.append(f"head-outside-grid: agent {i} at {pos[i].tolist()}")
            continue
        if grid[r, c] != _head(i):
            out.append(f"head-cell-overwritten: agent {i} stands at {pos[i].tolist()} but the grid holds "
                       f"{int(grid[r, c])} there (expected {_head(i)})")
        sr, sc = int(start[i][0]), int(start[i][1])
        if _inside(g, sr, sc) and grid[sr, sc] not in (_path(i), _head(i)):
            out.append(f"start-cell-overwritten: agent {i}'s start {start[i].tolist()} holds {int(grid[sr, sc])}")
        tr, tc = int(tgt[i][0]), int(tgt[i][1])
        if _inside(g, tr, tc) and grid[tr, tc] not in (_target(i), _head(i)):
            out.append(f"target-cell-overwritten: agent {i}'s target {tgt[i].tolist()} holds {int(grid[tr, tc])}")
        cells = _cells_of(grid, i)
        if not _connected_set(cells, (sr, sc)):
            out.append(f"route-not-a-chain: agent {i}'s path+head cells {cells} are not one 4-connected set "
                       f"containing its start {start[i].tolist()}")
        if len(cells) > int(s.step_count) + 1:
            out.append(f"route-longer-than-steps: agent {i} owns {len(cells)} cells after {int(s.step_count)} steps")
    return out


def check_complete(env: Any, s: Any, ts: Any) -> List[str]:
    """Completion = every agent connected.  (LAST by blocking or by the time limit is not a completion.)"""
    out: List[str] = []
    con = _connected(s)
    if not con.all():
        return out
    n, g = _n(env), _g(env)
    grid = np.asarray(s.grid).astype(int)
    tgt = _tgt(s)
    start = np.asarray(s.agents.start).astype(int)
    for i in range(n):
        tr, tc = int(tgt[i][0]), int(tgt[i][1])
        if not _inside(g, tr, tc) or grid[tr, tc] != _head(i):
            out.append(f"completed-without-head-on-target: agent {i} target {tgt[i].tolist()}")
            continue
        cells = _cells_of(grid, i)
        if not (_connected_set(cells, (int(start[i][0]), int(start[i][1]))) and (tr, tc) in set(cells)):
            out.append(f"completed-route-does-not-link-start-and-target: agent {i} cells {cells}")
        if (grid == _target(i)).any():
            out.append(f"completed-but-target-still-on-grid: agent {i}")
    if int(ts.step_type) != 2:
        out.append("all-connected-but-not-last: every agent is connected and the step is not LAST")
    return out


# ------------------------------------------------------------------------------------------ C07
def check_invariants(env: Any, s: Any) -> List[str]:
    out: List[str] = []
    n, g = _n(env), _g(env)
    grid = np.asarray(s.grid).astype(int)
    pos, tgt = _pos(s), _tgt(s)
    start = np.asarray(s.agents.start).astype(int)
    ids = np.asarray(s.agents.id).astype(int)
    if grid.shape != (g, g):
        return [f"grid-shape: {grid.shape}"]
    if not np.array_equal(ids, np.arange(n)):
        out.append(f"agent-ids: {ids.tolist()}")
    if grid.min() < 0 or grid.max() > 3 * n:
        out.append(f"grid-code-out-of-range: min {int(grid.min())} max {int(grid.max())} with {n} agents")
    for name, arr in (("position", pos), ("target", tgt), ("start", start)):
        bad = [i for i in range(n) if not _inside(g, int(arr[i][0]), int(arr[i][1]))]
        if bad:
            out.append(f"{name}-outside-grid: agents {bad} at {arr[bad].tolist()}")
    if len({tuple(p) for p in pos.tolist()}) != n:
        out.append(f"two-heads-on-one-cell: positions {pos.tolist()}")
    for i in range(n):
        hr, hc = np.nonzero(grid == _head(i))
        if len(hr) != 1:
            out.append(f"head-count: agent {i} has {len(hr)} head cells on the grid")
        elif _inside(g, *pos[i]) and (int(hr[0]), int(hc[0])) != tuple(pos[i].tolist()):
            out.append(f"head-disagrees-with-position: agent {i} grid head at {(int(hr[0]), int(hc[0]))}, "
                       f"agents.position {pos[i].tolist()}")
        tr, tc = np.nonzero(grid == _target(i))
        connected = bool((pos[i] == tgt[i]).all())
        if connected:
            if len(tr) != 0:
                out.append(f"connected-agent-still-has-target-cell: agent {i}")
        else:
            if len(tr) != 1:
                out.append(f"target-count: unconnected agent {i} has {len(tr)} target cells on the grid")
            elif _inside(g, *tgt[i]) and (int(tr[0]), int(tc[0])) != tuple(tgt[i].tolist()):
                out.append(f"target-disagrees-with-agents: agent {i} grid target at {(int(tr[0]), int(tc[0]))}, "
                           f"agents.target {tgt[i].tolist()}")
        if _inside(g, *start[i]):
            cells = _cells_of(grid, i)
            if not _connected_set(cells, (int(start[i][0]), int(start[i][1]))):
                out.append(f"trail-broken: agent {i}'s path+head cells {cells} are not a 4-connected set containing "
                           f"its start {start[i].tolist()}")
    return out


def check_conservation(env: Any, s: Any, a: Any, s2: Any, ts: Any) -> List[str]:
    """Occupancy across an edge: nothing is ever erased, trails only grow by the cell a head leaves."""
    out: List[str] = []
    n = _n(env)
    g0, g1 = np.asarray(s.grid).astype(int), np.asarray(s2.grid).astype(int)
    p0, p1 = _pos(s), _pos(s2)
    for f in ("start", "target", "id"):
        if not np.array_equal(np.asarray(getattr(s.agents, f)), np.asarray(getattr(s2.agents, f))):
            out.append(f"agent-{f}-changed: {np.asarray(getattr(s.agents, f)).tolist()} -> "
                       f"{np.asarray(getattr(s2.agents, f)).tolist()}")
    if ((g0 != 0) & (g1 == 0)).any():
        out.append(f"occupied-cell-emptied: cells {np.argwhere((g0 != 0) & (g1 == 0)).tolist()}")
    for i in range(n):
        was_path = g0 == _path(i)
        if (was_path & (g1 != _path(i))).any():
            out.append(f"path-cell-lost: agent {i}")
        d = np.abs(p1[i] - p0[i]).sum()
        if d > 1:
            out.append(f"head-jumped: agent {i} {p0[i].tolist()} -> {p1[i].tolist()}")
        n0 = int(((g0 == _path(i)) | (g0 == _head(i))).sum())
        n1 = int(((g1 == _path(i)) | (g1 == _head(i))).sum())
        if n1 - n0 != int(d == 1):
            out.append(f"trail-growth: agent {i} moved {int(d)} cell(s) but owns {n0} -> {n1} path/head cells")
        # a foreign cell is never taken over: cells of other agents keep their code
        other0 = (g0 != 0) & ~np.isin(g0, (_path(i), _head(i), _target(i)))
        if (other0 & np.isin(g1, (_path(i), _head(i), _target(i)))).any():
            out.append(f"foreign-cell-taken: agent {i} now owns a cell that belonged to another agent")
    if int(s2.step_count) != int(s.step_count) + 1:
        out.append(f"step-count: {int(s.step_count)} -> {int(s2.step_count)}")
    return out


# ------------------------------------------------------------------------------------------ C09
def check_step(env: Any, s: Any, a: Any, s2: Any, ts: Any) -> List[str]:
    out: List[str] = []
    n = _n(env)
    a = np.asarray(a).astype(int)
    exp_grid, exp_pos, _ = _predict(env, s, a)
    if not np.array_equal(np.asarray(s2.grid), exp_grid):
        out.append(f"step-grid: action {a.tolist()} expected {exp_grid.tolist()} got {np.asarray(s2.grid).tolist()}")
    if not np.array_equal(_pos(s2), exp_pos):
        out.append(f"step-positions: action {a.tolist()} expected {exp_pos.tolist()} got {_pos(s2).tolist()}")
    for f in ("id", "start", "target"):
        if not np.array_equal(np.asarray(getattr(s.agents, f)), np.asarray(getattr(s2.agents, f))):
            out.append(f"step-agent-{f}: changed")
    if int(s2.step_count) != int(s.step_count) + 1:
        out.append(f"step-count: expected {int(s.step_count) + 1} got {int(s2.step_count)}")
    if not np.array_equal(np.asarray(s.key), np.asarray(s2.key)):
        out.append("step-key: the key changed (the environment is deterministic)")
    # reward
    con0 = _connected(s)
    con1 = (exp_pos == _tgt(s)).all(axis=1)
    r = _reward(env, con0, con1)
    if r is not None and not np.allclose(np.asarray(ts.reward, np.float64), r, rtol=1e-5, atol=1e-6):
        out.append(f"step-reward: expected {r.tolist()} got {np.asarray(ts.reward).tolist()}")
    # termination / discount, from the predicted successor
    done = np.zeros(n, bool)
    for i in range(n):
        can = any(_move_ok(exp_grid, i, exp_pos[i], bool(con1[i]), m) for m in (1, 2, 3, 4))
        done[i] = bool(con1[i]) or not can
    last = bool(done.all()) or int(s.step_count) + 1 >= int(env.time_limit)
    if (int(ts.step_type) == 2) != last:
        out.append(f"step-termination: expected last={last} (done={done.tolist()}, step {int(s.step_count) + 1}/"
                   f"{int(env.time_limit)}) got step_type={int(ts.step_type)}")
    exp_disc = np.zeros(n) if last else 1.0 - done.astype(np.float64)
    if not np.allclose(np.asarray(ts.discount, np.float64), exp_disc, atol=1e-6):
        out.append(f"step-discount: expected {exp_disc.tolist()} got {np.asarray(ts.discount).tolist()}")
    return out


# ------------------------------------------------------------------------------------------ C12
def check_obs(env: Any, s: Any, obs: Any) -> List[str]:
    out: List[str] = []
    if not np.array_equal(np.asarray(obs.grid), np.asarray(s.grid)):
        out.append("obs-grid: the observed grid differs from the state grid")
    if int(obs.step_count) != int(s.step_count):
        out.append(f"obs-step_count: {int(obs.step_count)} vs state {int(s.step_count)}")
    lg = _legal(env, s)
    m = np.asarray(obs.action_mask, bool)
    if m.shape != lg.shape or not np.array_equal(m, lg):
        out.append(f"obs-action_mask: shown {m.astype(int).tolist()} legal set {lg.astype(int).tolist()}")
    return out
