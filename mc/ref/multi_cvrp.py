"""Reference model of MultiCVRP (multi-vehicle routing with soft time windows), written from
docs/environments/multi_cvrp.md, the class docstring, the docstrings of types.py (to which the class
docstring defers for observation and state) and DESIGN.md Appendix C.

Rules: node 0 is the depot, nodes 1..num_customers the customers.  Every vehicle starts at the depot
with capacity max_capacity and local time 0.  Action = one node per vehicle.  For a vehicle the depot
is always legal; a customer is legal <=> its (remaining) demand is > 0 and <= the vehicle's capacity.
Illegal choices, and all but one of several vehicles choosing the same customer, are redirected to the
depot.  Serving a customer sets its demand to 0 and lowers the capacity by the demand; a depot visit
restores max_capacity.  Vehicles travel at unit speed: a vehicle's local time is the distance it has
travelled.  Arriving at customer c at local time t costs early[c]*(start[c]-t) if t < start[c] and
late[c]*(t-end[c]) if t > end[c] (types.PenalityCoeff).  The episode ends when all demand is served and
all vehicles are at the depot, or when step_count (which starts at 1) exceeds 2*num_customers.
Dense reward: minus the distances moved by all vehicles in the step minus the time penalties incurred
in the step.  Sparse reward: 0 until the last step, then minus the total path length of all vehicles
minus all time penalties.  On the step-limit both give "a large negative reward" instead.

Field conventions (layout only): `order[v, j]` is the node vehicle v stood on after j moves
(column 0 = the start at the depot, written at index step_count, 2*num_customers columns; the move
that exhausts the step limit does not fit and is not recorded).  `nodes.demands` holds the *remaining*
demands (0 once served).

Modelling decisions
* Action alphabet: the action spec admits num_customers+1, one past the last node and outside the
  mask's index domain (DESIGN section 4 C04 / section 5: not a violation of the listed properties).
  `legal` describes the mask's domain [num_vehicles, num_customers+1]; `mask_allows` is False for any
  joint action with an out-of-domain component, so mask-respecting play (C06, C08) never uses it;
  `check_reaction` says nothing about edges with an out-of-domain component and `check_obs` skips the
  coordinates of a vehicle whose stored position is out of range (only reachable through such an
  action).
* C04: legality is the documented rule applied to the state's current remaining demands and
  capacities, per vehicle; joint effects (two vehicles choosing the same customer) are not part of
  per-vehicle legality.  check_reaction: a vehicle whose choice is masked-out must end at the depot; a
  masked-in choice must be honoured, except that of several vehicles choosing the same customer
  exactly one gets it (which one is undocumented) and the others end at the depot.
* C06: the original demands are instance data that the state does not keep (demands are zeroed when
  served).  They are remembered per instance (keyed by the instance's coordinate/time-window bytes)
  the first time a reset state (step_count == 1) of that instance is seen - every monitor shows the
  roots to the reference before any successor.  With them the load of every route segment between
  depot visits is recomputed from `order`, and the cached `capacities`, `positions`, remaining
  `demands` are compared with the recomputation.  If an instance's reset state was never seen only
  the order-based constraints (no customer twice, served customers have no demand left) are checked.
* C08: the documented objective is "minus the total path length of all vehicles minus the time
  penalties".  It is recomputed in float64 from `order`, coordinates, windows and coefficients (not
  from the accumulators `vehicles.distances` / `time_penalties`).  It is defined for
  completion-terminated episodes only: on the step-limit the docs promise only "a large negative reward
  which is equal to the maximum negative distance reward that can be incurred", which cannot be stated
  from the final state, so `objective` returns None there.  `potential` gives the edge-local form:
  dense  Phi(s) = objective-so-far recomputed from `order` (reward == Phi(s') - Phi(s));
  sparse Phi(s) = 0 on unfinished states and the objective on completed ones.
  On a state past the step limit Phi is NaN (= undefined: ReturnMonitor's comparison is then false and
  the edge is not judged).  Holding on every edge of the mask-respecting graph this implies
  return == objective for both reward functions, hence dense == sparse, on completion-terminated
  episodes.
* C12: types.Observation is the documented observation (docs/environments/multi_cvrp.md lists an
  older per-vehicle layout that the class docstring does not refer to): nodes, windows, coeffs are
  copies of the state's, vehicles.coordinates are the coordinates of the nodes the vehicles stand on,
  local_times/capacities are copies, action_mask is the per-vehicle legal set.  local_times must also
  equal the distance travelled along `order` (unit speed) while `order` is complete.
"""
from __future__ import annotations

from typing import Any, Dict, List, Optional, Tuple

import numpy as np

_ORIG: Dict[Any, np.ndarray] = {}


def _dims(env: Any) -> Tuple[int, int, int]:
    gen = getattr(env, "_generator", None)
    nv = int(getattr(env, "_num_vehicles", None) or gen.num_vehicles)
    nc = int(getattr(env, "_num_customers", None) or gen.num_customers)
    cmax = int(getattr(env, "_max_capacity", None) or gen._max_capacity)
    return nv, nc, cmax


def _sparse(env: Any) -> bool:
    return type(env._reward_fn).__name__ == "SparseReward"


def _instance_key(env: Any, s: Any) -> Any:
    return (_dims(env), int(getattr(env, "_customer_demand_max", 0)),
            np.asarray(s.nodes.coordinates).tobytes(), np.asarray(s.windows.start).tobytes())


def _orig_demands(env: Any, s: Any) -> Optional[np.ndarray]:
    """Original demands of the instance (remembered from its reset state), or None if unknown."""
    k = _instance_key(env, s)
    if int(s.step_count) == 1 and not np.asarray(s.order).any():
        if k not in _ORIG:
            _ORIG[k] = np.asarray(s.nodes.demands).astype(int).copy()
    return _ORIG.get(k)


def _filled(env: Any, s: Any) -> int:
    """Number of filled columns of `order` (column 0 is the start)."""
    _, nc, _ = _dims(env)
    return max(1, min(int(s.step_count), 2 * nc))


def _past_limit(env: Any, s: Any) -> bool:
    _, nc, _ = _dims(env)
    return int(s.step_count) > 2 * nc


def _paths(env: Any, s: Any) -> np.ndarray:
    return np.asarray(s.order).astype(int)[:, : _filled(env, s)]


def _in_domain(env: Any, a: Any) -> bool:
    _, nc, _ = _dims(env)
    a = np.asarray(a).astype(int).ravel()
    return bool(((a >= 0) & (a <= nc)).all())


# ---- C04
def legal(env: Any, s: Any) -> np.ndarray:
    dem = np.asarray(s.nodes.demands).astype(int)
    cap = np.asarray(s.vehicles.capacities).astype(int)
    out = (dem[None, :] > 0) & (dem[None, :] <= cap[:, None])
    out[:, 0] = True
    return out


def mask_allows(env: Any, mask: Any, a: Any) -> bool:
    mask = np.asarray(mask, bool)
    a = np.asarray(a).astype(int).ravel()
    if a.shape[0] != mask.shape[0]:
        return False
    for v, x in enumerate(a):
        if x < 0 or x >= mask.shape[1] or not mask[v, x]:
            return False
    return True


def action_legal(env: Any, s: Any, a: Any) -> bool:
    return mask_allows(env, legal(env, s), a)


def check_reaction(env: Any, s: Any, a: Any, s2: Any, ts: Any, masked_in: bool) -> List[str]:
    if not _in_domain(env, a):
        return []
    out = []
    a = np.asarray(a).astype(int).ravel()
    lg = legal(env, s)
    pos2 = np.asarray(s2.vehicles.positions).astype(int)
    ok = np.array([bool(lg[v, a[v]]) for v in range(len(a))])
    for v in range(len(a)):
        if not ok[v]:
            if pos2[v] != 0:
                out.append(f"masked-out-action-accepted: vehicle {v} chose node {a[v]} (not allowed) and ended at "
                           f"node {pos2[v]} instead of the depot")
            continue
        rivals = [u for u in range(len(a)) if ok[u] and a[u] == a[v]]
        if a[v] == 0 or len(rivals) == 1:
            if pos2[v] != a[v]:
                out.append(f"masked-in-action-punished: vehicle {v} chose allowed node {a[v]} (no other vehicle did) "
                           f"and ended at node {pos2[v]}")
        else:
            winners = [u for u in rivals if pos2[u] == a[v]]
            if len(winners) != 1 or any(pos2[u] not in (0, a[v]) for u in rivals):
                out.append(f"duplicate-choice-resolution: vehicles {rivals} chose customer {a[v]}; positions "
                           f"afterwards {pos2[rivals].tolist()} (exactly one must get it, the others go to the depot)")
                break
    return out


# ---- C06
def check_constraints(env: Any, s: Any) -> List[str]:
    out = []
    nv, nc, cmax = _dims(env)
    order = np.asarray(s.order).astype(int)
    T = _filled(env, s)
    paths = order[:, :T]
    if ((paths < 0) | (paths > nc)).any():
        return [f"route-node-out-of-range: {paths.tolist()}"]
    if paths[:, 0].any():
        out.append(f"route-does-not-start-at-depot: {paths.tolist()}")
    if order[:, T:].any():
        out.append(f"order-tail-filled: {order.tolist()} with step_count={int(s.step_count)}")
    served = paths[paths != 0]
    uniq, cnt = np.unique(served, return_counts=True)
    if (cnt > 1).any():
        out.append(f"customer-served-twice: customers {uniq[cnt > 1].tolist()} in routes {paths.tolist()}")
    dem = np.asarray(s.nodes.demands).astype(int)
    cap = np.asarray(s.vehicles.capacities).astype(int)
    if (dem < 0).any() or dem[0] != 0:
        out.append(f"bad-demands: {dem.tolist()}")
    if ((cap < 0) | (cap > cmax)).any():
        out.append(f"capacity-out-of-range: {cap.tolist()} (max {cmax})")
    if len(served) and dem[uniq].any():
        out.append(f"served-customer-keeps-demand: customers {uniq[dem[uniq] != 0].tolist()} were visited but still "
                   f"have demand")
    orig = _orig_demands(env, s)
    if orig is None:
        return out
    # a visit only counts if the customer had demand; load per route segment between depot visits
    exp_dem = orig.copy()
    exp_dem[uniq] = 0
    loads = np.zeros(nv, int)
    for v in range(nv):
        load = 0
        for j in range(1, T):
            x = int(paths[v, j])
            if x == 0:
                load = 0
                continue
            if orig[x] <= 0:
                out.append(f"visit-to-customer-without-demand: vehicle {v} went to customer {x} whose demand is 0")
            load += int(orig[x])
            if load > cmax:
                out.append(f"load-exceeds-capacity: vehicle {v} carries {load} > {cmax} after move {j} of route "
                           f"{paths[v].tolist()}")
        loads[v] = load
    if _past_limit(env, s):
        return out  # the last move is not recorded in `order`: cached fields cannot be recomputed
    if not np.array_equal(dem, exp_dem):
        out.append(f"demands-disagree-with-routes: remaining demands {dem.tolist()}, expected {exp_dem.tolist()}")
    if not np.array_equal(cap, cmax - loads):
        out.append(f"capacity-disagrees-with-routes: capacities {cap.tolist()}, recomputed {(cmax - loads).tolist()}")
    pos = np.asarray(s.vehicles.positions).astype(int)
    if not np.array_equal(pos, paths[:, T - 1]):
        out.append(f"position-disagrees-with-routes: positions {pos.tolist()}, routes end at {paths[:, T - 1].tolist()}")
    return out


def _complete(env: Any, s: Any) -> bool:
    dem = np.asarray(s.nodes.demands).astype(int)
    pos = np.asarray(s.vehicles.positions).astype(int)
    return not dem.any() and not pos.any()


def check_complete(env: Any, s: Any, ts: Any) -> List[str]:
    if _past_limit(env, s):
        return []  # ended by the step limit, not by completion
    out = []
    dem = np.asarray(s.nodes.demands).astype(int)
    pos = np.asarray(s.vehicles.positions).astype(int)
    paths = _paths(env, s)
    if dem.any():
        out.append(f"terminated-with-unserved-demand: remaining demands {dem.tolist()}")
    if pos.any() or paths[:, -1].any():
        out.append(f"terminated-away-from-depot: positions {pos.tolist()}, routes {paths.tolist()}")
    orig = _orig_demands(env, s)
    if orig is not None:
        need = sorted(np.nonzero(orig > 0)[0].tolist())
        got = sorted(paths[paths != 0].tolist())
        if need != got:
            out.append(f"incomplete-solution-at-termination: customers with demand {need}, served {got}")
    return out


# ---- C08
def _cost_so_far(env: Any, s: Any) -> float:
    """Total path length + time penalties recomputed (float64) from the recorded routes."""
    c = np.asarray(s.nodes.coordinates, np.float64)
    start = np.asarray(s.windows.start, np.float64)
    end = np.asarray(s.windows.end, np.float64)
    early = np.asarray(s.coeffs.early, np.float64)
    late = np.asarray(s.coeffs.late, np.float64)
    paths = _paths(env, s)
    n = c.shape[0]
    total = 0.0
    for v in range(paths.shape[0]):
        t = 0.0
        for j in range(1, paths.shape[1]):
            x, y = int(paths[v, j - 1]), int(paths[v, j])
            if not (0 <= x < n and 0 <= y < n):
                return float("nan")
            d = float(np.sqrt(((c[x] - c[y]) ** 2).sum()))
            t += d
            total += d
            if y != 0:
                if t < start[y]:
                    total += early[y] * (start[y] - t)
                elif t > end[y]:
                    total += late[y] * (t - end[y])
    return float(total)


def objective(env: Any, s: Any, ts: Any) -> float | None:
    if _past_limit(env, s) or not _complete(env, s):
        return None
    return -_cost_so_far(env, s)


def potential(env: Any, s: Any) -> float:
    if _past_limit(env, s):
        return float("nan")
    if _sparse(env):
        return -_cost_so_far(env, s) if (_complete(env, s) and int(s.step_count) > 1) else 0.0
    return -_cost_so_far(env, s)


# ---- C12
def check_obs(env: Any, s: Any, obs: Any) -> List[str]:
    out = []
    pairs = [("nodes.coordinates", obs.nodes.coordinates, s.nodes.coordinates),
             ("nodes.demands", obs.nodes.demands, s.nodes.demands),
             ("windows.start", obs.windows.start, s.windows.start),
             ("windows.end", obs.windows.end, s.windows.end),
             ("coeffs.early", obs.coeffs.early, s.coeffs.early),
             ("coeffs.late", obs.coeffs.late, s.coeffs.late),
             ("vehicles.local_times", obs.vehicles.local_times, s.vehicles.local_times),
             ("vehicles.capacities", obs.vehicles.capacities, s.vehicles.capacities)]
    for name, o, x in pairs:
        if not np.array_equal(np.asarray(o), np.asarray(x)):
            out.append(f"obs-{name}: observation field differs from the state")
    c = np.asarray(s.nodes.coordinates)
    pos = np.asarray(s.vehicles.positions).astype(int)
    vc = np.asarray(obs.vehicles.coordinates)
    if vc.shape != (len(pos), 2):
        out.append(f"obs-vehicles.coordinates-shape: {vc.shape}")
    else:
        for v, p in enumerate(pos):
            if 0 <= p < c.shape[0] and not np.array_equal(vc[v], c[p]):
                out.append(f"obs-vehicles.coordinates: vehicle {v} stands on node {p} at {c[p].tolist()} but the "
                           f"observation shows {vc[v].tolist()}")
                break
    m = np.asarray(obs.action_mask, bool)
    lg = legal(env, s)
    if m.shape != lg.shape:
        out.append(f"obs-action_mask-shape: {m.shape} vs {lg.shape}")
    elif not np.array_equal(m, lg):
        out.append(f"obs-action_mask: mask differs from the per-vehicle legal set at {np.argwhere(m != lg)[:4].tolist()}")
    # local time = distance travelled along the recorded route (unit speed)
    if not _past_limit(env, s):
        paths = _paths(env, s)
        if ((paths >= 0) & (paths < c.shape[0])).all():
            c64 = c.astype(np.float64)
            seg = np.sqrt(((c64[paths[:, 1:]] - c64[paths[:, :-1]]) ** 2).sum(axis=-1)).sum(axis=1)
            lt = np.asarray(obs.vehicles.local_times, np.float64)
            if not np.allclose(lt, seg, rtol=1e-4, atol=1e-4):
                out.append(f"obs-vehicles.local_times-vs-route: local times {lt.tolist()} but distances travelled "
                           f"{seg.tolist()}")
    return out
