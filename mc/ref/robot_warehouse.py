"""Reference model of RobotWarehouse (C04, C05, C07, C12), written from
docs/environments/robot_warehouse.md, the class docstring of
jumanji/environments/routing/robot_warehouse/env.py, the docstrings of
utils.calculate_num_observation_features / utils_agent.get_agent_view and DESIGN.md Appendix C.

Conventions (types.py / generator.py)
    * `Position(x, y)`: x indexes the FIRST spatial axis of the floor (row, 0 at the top), y the second
      (column).  `state.grid` has shape (2, rows, cols): channel 0 = shelves (shelf id + 1, 0 = none),
      channel 1 = agents (agent id + 1, 0 = none).
    * Directions 0 UP (x-1), 1 RIGHT (y+1), 2 DOWN (x+1), 3 LEFT (y-1); turn left = direction-1,
      turn right = direction+1 (mod 4).  Forward at the border stays in place (clamped).
    * Goal cells: the two middle cells of the bottom row (class docstring floor plan); `env.goals` stores
      them as (column, row).  `env.highways[x, y]` marks cells that are not shelf slots.
    * `agents.is_carrying` is an int 0/1, `shelves.is_requested` a float 0/1; both are read as bools.

Rules
    actions per agent 0 no-op, 1 forward, 2 turn left, 3 turn right, 4 toggle-load.  The ONLY illegal
    action is forward while carrying a shelf into a different cell that holds a shelf; it is replaced by
    a no-op.  Everything else is masked-in.  Agents are updated in id order; an agent whose grid
    marker is not its own afterwards is a collision => LAST; LAST also at step_count >= time_limit.
    A loaded shelf travels with its agent; a shelf can only be put down on a non-highway cell.
    Reward = number of requested shelves on a goal cell, each replaced by a fresh request.

Modelling decisions
    * Legality is judged per agent on the pre-step state (that is what the mask can know); joint
      effects of the sequential update (collisions, a shelf carried away from the target cell in the
      same step) are not part of per-agent legality.  A joint action is legal iff every entry is.
    * Shelf occupancy for legality and for the observation is taken from the entity TABLES
      (shelves.position, agents.position/direction), not from the grid channels; C07 separately demands
      that tables and channels agree in every non-terminal state.
    * C05 demands of an agent whose forward was illegal: position, direction and the carrying flag
      unchanged (property statement: "the acting entity keeps its position and holdings"), the shelf
      it carries and the shelf it ran into unmoved, and LAST only with a documented cause (time
      limit, collision).
    * C12 layout (from the docstring of calculate_num_observation_features): [x, y, carrying,
      one-hot(direction, 4), on-highway] (8), then for every cell of the (2r+1)^2 window in row-major
      order EXCEPT the agent's own cell: [agent present, one-hot(its direction)] (5 each, zeros if
      none), then for EVERY cell of the window: [shelf present, shelf requested] (2 each).  Cells
      outside the floor are empty.  The window is not rotated with the agent.
      In a collision state (two agents on one cell, always terminal) the floor cannot represent both
      agents and the docs do not say what the sensors show; there only the 8 own features, the mask
      and the step count are compared.  (The implementation identifies "own cell" by the marker value,
      so the observation of the agent that was run over is shifted by 5 entries in such states - not
      judged.)
    * Request queue: which shelf is requested next is an environment answer; admissibility = the
      queue holds distinct valid ids and the is_requested flags are exactly the queue members.  The
      queue may only change on a step with positive reward.
"""
from __future__ import annotations

from typing import Any, Dict, List, Set, Tuple

import numpy as np

_DX = (-1, 0, 1, 0)
_DY = (0, 1, 0, -1)
_CACHE: Dict[int, Dict[str, Any]] = {}


def _info(env: Any) -> Dict[str, Any]:
    c = _CACHE.get(id(env))
    if c is None:
        hw = np.asarray(env.highways).astype(bool)
        # goal cells per the class docstring's floor plan ("----GG----"): the two middle cells of the
        # bottom row, as (x, y); env.goals stores the same cells as (column, row)
        goals = [(int(hw.shape[0]) - 1, int(hw.shape[1]) // 2 - 1), (int(hw.shape[0]) - 1, int(hw.shape[1]) // 2)]
        c = dict(hw=hw, H=int(hw.shape[0]), W=int(hw.shape[1]), goals=goals, n=int(env.num_agents),
                 r=int(env.sensor_range), T=int(env.time_limit), q=int(env.request_queue_size), env=env,
                 n_shelves=int((~hw).sum()))
        _CACHE[id(env)] = c
    return c


def _agents(s: Any) -> Tuple[np.ndarray, np.ndarray, np.ndarray, np.ndarray]:
    ag = s.agents
    return (np.asarray(ag.position.x).astype(int), np.asarray(ag.position.y).astype(int),
            np.asarray(ag.direction).astype(int), np.asarray(ag.is_carrying).astype(bool))


def _shelves(s: Any) -> Tuple[np.ndarray, np.ndarray, np.ndarray]:
    sh = s.shelves
    return (np.asarray(sh.position.x).astype(int), np.asarray(sh.position.y).astype(int),
            np.asarray(sh.is_requested).astype(bool))


def _forward(info: Dict[str, Any], x: int, y: int, d: int) -> Tuple[int, int]:
    nx = min(max(x + _DX[d % 4], 0), info["H"] - 1)
    ny = min(max(y + _DY[d % 4], 0), info["W"] - 1)
    return nx, ny


def _shelf_cells(s: Any) -> Set[Tuple[int, int]]:
    sx, sy, _ = _shelves(s)
    return {(int(a), int(b)) for a, b in zip(sx, sy)}


def _collided(info: Dict[str, Any], s: Any) -> bool:
    """Some agent's own cell does not carry its marker, or two agents share a cell."""
    ax, ay, _, _ = _agents(s)
    g = np.asarray(s.grid)
    cells = set()
    for i in range(info["n"]):
        x, y = int(ax[i]), int(ay[i])
        if not (0 <= x < info["H"] and 0 <= y < info["W"]):
            return True
        if int(g[1, x, y]) != i + 1 or (x, y) in cells:
            return True
        cells.add((x, y))
    return False


# ------------------------------------------------------------------------------------------ C04
def legal(env: Any, s: Any) -> np.ndarray:
    info = _info(env)
    ax, ay, ad, ac = _agents(s)
    occ = _shelf_cells(s)
    out = np.ones((info["n"], 5), bool)
    for i in range(info["n"]):
        if not ac[i]:
            continue
        t = _forward(info, int(ax[i]), int(ay[i]), int(ad[i]))
        if t != (int(ax[i]), int(ay[i])) and t in occ:
            out[i, 1] = False
    return out


def action_legal(env: Any, s: Any, a: Any) -> bool:
    leg = legal(env, s)
    a = np.asarray(a).astype(int).ravel()
    return bool(all(leg[i, a[i]] for i in range(len(a))))


def mask_allows(env: Any, mask: np.ndarray, a: Any) -> bool:
    mask = np.asarray(mask)
    a = np.asarray(a).astype(int).ravel()
    return bool(all(mask[i, a[i]] for i in range(len(a))))


def check_reaction(env: Any, s: Any, a: Any, s2: Any, ts: Any, masked_in: bool) -> List[str]:
    """A masked-in forward is executed (the agent ends on the clamped target cell); a forward that
    the mask forbids leaves the agent where it is.  Per agent, using the mask cached in the state
    (equal to the observed one, C12) to tell which entries of a masked-out joint action are the
    forbidden ones."""
    info = _info(env)
    out: List[str] = []
    a = np.asarray(a).astype(int).ravel()
    ax, ay, ad, _ = _agents(s)
    bx, by, _, _ = _agents(s2)
    m = np.asarray(s.action_mask).astype(bool)
    for i in range(info["n"]):
        if a[i] != 1:
            continue
        here = (int(ax[i]), int(ay[i]))
        t = _forward(info, here[0], here[1], int(ad[i]))
        now = (int(bx[i]), int(by[i]))
        allowed = True if masked_in else bool(m[i, 1])
        if allowed and now != t:
            out.append(f"masked-in-forward-ignored: agent {i} forward from {here} facing {int(ad[i])} is masked-in "
                       f"but the agent is at {now}, not {t}")
        if not allowed and now != here:
            out.append(f"masked-out-forward-executed: agent {i} forward from {here} is masked-out but the agent "
                       f"moved to {now}")
    return out


# ------------------------------------------------------------------------------------------ C05
def check_illegal(env: Any, s: Any, a: Any, s2: Any, ts: Any) -> List[str]:
    info = _info(env)
    out: List[str] = []
    leg = legal(env, s)
    a = np.asarray(a).astype(int).ravel()
    ax, ay, ad, ac = _agents(s)
    bx, by, bd, bc = _agents(s2)
    sx, sy, _ = _shelves(s)
    tx, ty, _ = _shelves(s2)
    for i in range(info["n"]):
        if leg[i, a[i]]:
            continue
        here = (int(ax[i]), int(ay[i]))
        t = _forward(info, here[0], here[1], int(ad[i]))
        if (int(bx[i]), int(by[i])) != here:
            out.append(f"illegal-forward-moves-agent: agent {i} carrying at {here} ran into the shelf at {t} and is "
                       f"now at {(int(bx[i]), int(by[i]))}")
        if int(bd[i]) != int(ad[i]):
            out.append(f"illegal-forward-turns-agent: agent {i} direction {int(ad[i])} -> {int(bd[i])}")
        if bool(bc[i]) != bool(ac[i]):
            out.append(f"illegal-forward-drops-shelf: agent {i} at {here} (highway={bool(info['hw'][here])}) was "
                       f"carrying a shelf, its forward into the shelf at {t} is illegal and must be ignored, but "
                       f"is_carrying went {int(ac[i])} -> {int(bc[i])}")
        # the shelf in the target cell may itself be the load of ANOTHER agent standing there, whose own (legal)
        # move carries it away in the same step: that is not an effect of agent i's ignored forward
        carried_by_other = any(k != i and bool(ac[k]) and (int(ax[k]), int(ay[k])) == t for k in range(info["n"]))
        for j in range(len(sx)):
            p = (int(sx[j]), int(sy[j]))
            if p == t and carried_by_other:
                continue
            if p in (here, t) and (int(tx[j]), int(ty[j])) != p:
                out.append(f"illegal-forward-moves-shelf: shelf {j} at {p} moved to {(int(tx[j]), int(ty[j]))} on an "
                           f"ignored forward of agent {i}")
    if int(ts.step_type) == 2 and not (int(s2.step_count) >= info["T"] or _collided(info, s2)):
        out.append("illegal-forward-terminates: LAST without time limit or collision")
    if int(s2.step_count) != int(s.step_count) + 1:
        out.append(f"illegal-forward-step-count: {int(s.step_count)} -> {int(s2.step_count)}")
    return out


# ------------------------------------------------------------------------------------------ C07
def check_invariants(env: Any, s: Any) -> List[str]:
    info = _info(env)
    out: List[str] = []
    H, W, n = info["H"], info["W"], info["n"]
    g = np.asarray(s.grid)
    if g.shape != (2, H, W):
        return [f"grid-shape: {g.shape} expected {(2, H, W)}"]
    ax, ay, ad, _ = _agents(s)
    ac_raw = np.asarray(s.agents.is_carrying)
    if len(ax) != n:
        out.append(f"agent-table-size: {len(ax)} agents, expected {n}")
    seen: Dict[Tuple[int, int], int] = {}
    for i in range(len(ax)):
        x, y = int(ax[i]), int(ay[i])
        if not (0 <= x < H and 0 <= y < W):
            out.append(f"agent-outside-floor: agent {i} at {(x, y)} on a {H}x{W} floor")
            continue
        if int(g[1, x, y]) != i + 1:
            out.append(f"agent-marker-mismatch: agent {i} is at {(x, y)} but the agent channel holds {int(g[1, x, y])} there")
        if (x, y) in seen:
            out.append(f"agents-share-cell: agents {seen[(x, y)]} and {i} at {(x, y)} in a continuing state")
        seen[(x, y)] = i
        if not 0 <= int(ad[i]) <= 3:
            out.append(f"agent-direction-out-of-range: agent {i} direction {int(ad[i])}")
        if int(ac_raw[i]) not in (0, 1):
            out.append(f"agent-carrying-flag-out-of-range: agent {i} is_carrying {ac_raw[i]}")
    if int((g[1] != 0).sum()) != n:
        out.append(f"agent-marker-count: {int((g[1] != 0).sum())} markers in the agent channel for {n} agents")
    sx, sy, sr = _shelves(s)
    if len(sx) != info["n_shelves"]:
        out.append(f"shelf-table-size: {len(sx)} shelves, the floor has {info['n_shelves']} shelf slots")
    cells: Dict[Tuple[int, int], int] = {}
    for j in range(len(sx)):
        x, y = int(sx[j]), int(sy[j])
        if not (0 <= x < H and 0 <= y < W):
            out.append(f"shelf-outside-floor: shelf {j} at {(x, y)}")
            continue
        if (x, y) in cells:
            out.append(f"shelves-overlap: shelves {cells[(x, y)]} and {j} at {(x, y)}")
        cells[(x, y)] = j
        if int(g[0, x, y]) != j + 1:
            out.append(f"shelf-marker-mismatch: shelf {j} is at {(x, y)} but the shelf channel holds {int(g[0, x, y])} there")
    if int((g[0] != 0).sum()) != len(sx):
        out.append(f"shelf-marker-count: {int((g[0] != 0).sum())} markers in the shelf channel for {len(sx)} shelves")
    carriers = set()
    for i in range(len(ax)):
        if int(ac_raw[i]) != 0:
            if (int(ax[i]), int(ay[i])) not in cells:
                out.append(f"carrying-without-shelf: agent {i} at {(int(ax[i]), int(ay[i]))} carries but no shelf is there")
            carriers.add((int(ax[i]), int(ay[i])))
    for (x, y), j in cells.items():
        if info["hw"][x, y] and (x, y) not in carriers:
            out.append(f"shelf-left-on-highway: shelf {j} stands on highway cell {(x, y)} without a carrying agent")
    q = np.asarray(s.request_queue).astype(int).ravel()
    if len(q) != info["q"]:
        out.append(f"request-queue-size: {len(q)} expected {info['q']}")
    if len(set(q.tolist())) != len(q):
        out.append(f"request-queue-duplicate: {q.tolist()}")
    if ((q < 0) | (q >= len(sx))).any():
        out.append(f"request-queue-invalid-id: {q.tolist()} with {len(sx)} shelves")
    else:
        flags = np.zeros(len(sx), bool)
        flags[q] = True
        if not np.array_equal(flags, sr):
            out.append(f"requested-flags-disagree-with-queue: queue {q.tolist()} flags {np.nonzero(sr)[0].tolist()}")
    return out


def check_conservation(env: Any, s: Any, a: Any, s2: Any, ts: Any) -> List[str]:
    info = _info(env)
    out: List[str] = []
    a = np.asarray(a).astype(int).ravel()
    ax, ay, ad, ac = _agents(s)
    bx, by, bd, bc = _agents(s2)
    sx, sy, _ = _shelves(s)
    tx, ty, _ = _shelves(s2)
    if len(sx) != len(tx):
        return [f"shelf-count-changes: {len(sx)} -> {len(tx)}"]
    g2 = np.asarray(s2.grid)
    if int((g2[0] != 0).sum()) != int((np.asarray(s.grid)[0] != 0).sum()):
        out.append(f"shelf-count-changes: {int((np.asarray(s.grid)[0] != 0).sum())} -> {int((g2[0] != 0).sum())} "
                   "markers in the shelf channel")
    moved_agents = {}
    for i in range(info["n"]):
        p, p2 = (int(ax[i]), int(ay[i])), (int(bx[i]), int(by[i]))
        if p2 != p:
            if p2 != _forward(info, p[0], p[1], int(ad[i])):
                out.append(f"agent-jumps: agent {i} facing {int(ad[i])} went {p} -> {p2}")
            moved_agents[p] = (i, p2)
            if int(bd[i]) != int(ad[i]):
                out.append(f"agent-moves-and-turns: agent {i} moved {p} -> {p2} and turned {int(ad[i])} -> {int(bd[i])}")
            if ac[i] and not bc[i]:
                out.append(f"agent-loses-shelf-while-moving: agent {i} moved {p} -> {p2} and is no longer carrying")
        elif int(bd[i]) != int(ad[i]) and (int(bd[i]) - int(ad[i])) % 4 not in (1, 3):
            out.append(f"agent-direction-jumps: agent {i} {int(ad[i])} -> {int(bd[i])}")
    for j in range(len(sx)):
        p, p2 = (int(sx[j]), int(sy[j])), (int(tx[j]), int(ty[j]))
        if p2 == p:
            # a shelf under a carrying agent that moved away must have gone with it
            mv = moved_agents.get(p)
            if mv is not None and ac[mv[0]]:
                out.append(f"carried-shelf-left-behind: agent {mv[0]} carried shelf {j} at {p} and moved to {mv[1]} "
                           "but the shelf stayed")
            continue
        mv = moved_agents.get(p)
        if mv is None or not ac[mv[0]]:
            out.append(f"shelf-moves-on-its-own: shelf {j} went {p} -> {p2} without a carrying agent moving from {p}")
        elif mv[1] != p2:
            out.append(f"carried-shelf-separated: shelf {j} went {p} -> {p2} but its carrier (agent {mv[0]}) went to {mv[1]}")
    q0 = np.asarray(s.request_queue).astype(int).ravel()
    q1 = np.asarray(s2.request_queue).astype(int).ravel()
    rew = float(np.sum(np.asarray(ts.reward)))
    if q0.shape != q1.shape:
        out.append(f"request-queue-size-changes: {q0.shape} -> {q1.shape}")
    else:
        n_changed = int((q0 != q1).sum())
        if n_changed > 0 and rew <= 0:
            out.append(f"request-queue-changes-without-delivery: {q0.tolist()} -> {q1.tolist()} with reward {rew}")
        if n_changed > round(rew):
            out.append(f"request-queue-changes-more-than-delivered: {n_changed} slots changed, reward {rew}")
        for k in np.nonzero(q0 != q1)[0]:
            sid = int(q0[k])
            if 0 <= sid < len(tx) and (int(tx[sid]), int(ty[sid])) not in info["goals"]:
                out.append(f"request-replaced-off-goal: request for shelf {sid} was replaced while the shelf stands at "
                           f"{(int(tx[sid]), int(ty[sid]))}, not on a goal {info['goals']}")
    if int(s2.step_count) != int(s.step_count) + 1:
        out.append(f"step-count-not-incremented: {int(s.step_count)} -> {int(s2.step_count)}")
    return out


# ------------------------------------------------------------------------------------------ injection
def scenario_states(env: Any, state0: Any, agent: int = 0, load_shelf: Any = None) -> Tuple[Any, List[Dict[str, Any]]]:
    """State injection (optional, analogous to pac_man.corridor_states): short episodes from reset
    hardly ever reach a loaded agent, a delivery or an illegal forward in a new geometry, so this
    builds, from an UNBATCHED consistent state `state0` (e.g. a reset state), one state per
    (cell, direction, load) of agent `agent`:
        * load = None: the agent stands empty-handed on the cell (any cell not occupied by another agent);
        * load = j   : the agent carries shelf j := request_queue[0] (a REQUESTED shelf, so stepping on a
          goal cell delivers it); the shelf is moved under the agent (cells holding another shelf or
          another agent are skipped).
    Everything else (other agents, other shelves, queue, key, step_count) is unchanged; both grid
    channels are rebuilt from the tables and `action_mask` is recomputed with jumanji's own
    `utils.compute_action_mask`, so every root satisfies the C07 invariants.  Returns (states with a
    leading batch axis, descriptions {"agent", "x", "y", "direction", "carrying_shelf"}).  Root
    timesteps are stale: run with `injected_roots = True` and depth >= 2, or rebuild observations."""
    import jax
    import jax.numpy as jnp
    from jumanji.environments.routing.robot_warehouse import utils as rw_utils

    info = _info(env)
    H, W, n = info["H"], info["W"], info["n"]
    s0 = jax.tree_util.tree_map(lambda x: np.asarray(x), state0)
    ax, ay, ad, ac = _agents(s0)
    sx, sy, _ = _shelves(s0)
    others = {(int(ax[k]), int(ay[k])) for k in range(n) if k != agent}
    j_req = int(np.asarray(s0.request_queue).ravel()[0]) if load_shelf is None else int(load_shelf)
    other_shelves = {(int(sx[j]), int(sy[j])) for j in range(len(sx)) if j != j_req}
    rows: List[Any] = []
    descs: List[Dict[str, Any]] = []
    for x in range(H):
        for y in range(W):
            if (x, y) in others:
                continue
            for d in range(4):
                for load in (None, j_req):
                    if load is not None and (x, y) in other_shelves:
                        continue
                    px = np.asarray(s0.agents.position.x).copy()
                    py = np.asarray(s0.agents.position.y).copy()
                    pd = np.asarray(s0.agents.direction).copy()
                    pc = np.asarray(s0.agents.is_carrying).copy()
                    px[agent], py[agent], pd[agent], pc[agent] = x, y, d, (0 if load is None else 1)
                    qx = np.asarray(s0.shelves.position.x).copy()
                    qy = np.asarray(s0.shelves.position.y).copy()
                    if load is not None:
                        qx[load], qy[load] = x, y
                    g = np.zeros_like(np.asarray(s0.grid))
                    for k in range(n):
                        g[1, int(px[k]), int(py[k])] = k + 1
                    for j in range(len(qx)):
                        g[0, int(qx[j]), int(qy[j])] = j + 1
                    agents = type(s0.agents)(position=type(s0.agents.position)(x=px, y=py), direction=pd, is_carrying=pc)
                    shelves = type(s0.shelves)(position=type(s0.shelves.position)(x=qx, y=qy),
                                               is_requested=np.asarray(s0.shelves.is_requested))
                    rows.append(s0.replace(grid=g, agents=agents, shelves=shelves))
                    descs.append({"agent": agent, "x": x, "y": y, "direction": d, "carrying_shelf": load})
    batched = jax.tree_util.tree_map(lambda *xs: np.stack(xs, axis=0), *rows)
    mask = jax.jit(jax.vmap(rw_utils.compute_action_mask))(jnp.asarray(batched.grid),
                                                           jax.tree_util.tree_map(jnp.asarray, batched.agents))
    batched = batched.replace(action_mask=np.asarray(mask))
    return batched, descs


# ------------------------------------------------------------------------------------------ C12
def _observe(info: Dict[str, Any], s: Any) -> np.ndarray:
    ax, ay, ad, ac = _agents(s)
    sx, sy, sr = _shelves(s)
    n, r = info["n"], info["r"]
    H, W = info["H"], info["W"]
    agent_at = {(int(ax[k]), int(ay[k])): k for k in range(n)}
    shelf_at = {(int(sx[j]), int(sy[j])): j for j in range(len(sx))}
    cells_per = (2 * r + 1) ** 2
    size = 8 + 5 * (cells_per - 1) + 2 * cells_per
    out = np.zeros((n, size), np.int64)
    for i in range(n):
        x, y = int(ax[i]), int(ay[i])
        v: List[int] = [x, y, int(ac[i])]
        v += [1 if d == int(ad[i]) else 0 for d in range(4)]
        on_hw = bool(info["hw"][x, y]) if (0 <= x < H and 0 <= y < W) else False
        v.append(int(on_hw))
        window = [(x + dx, y + dy) for dx in range(-r, r + 1) for dy in range(-r, r + 1)]
        for cell in window:
            if cell == (x, y):
                continue
            k = agent_at.get(cell)
            if k is None:
                v += [0, 0, 0, 0, 0]
            else:
                v += [1] + [1 if d == int(ad[k]) else 0 for d in range(4)]
        for cell in window:
            j = shelf_at.get(cell)
            if j is None:
                v += [0, 0]
            else:
                v += [1, int(sr[j])]
        out[i] = v
    return out


def check_obs(env: Any, s: Any, obs: Any) -> List[str]:
    info = _info(env)
    out: List[str] = []
    if int(np.asarray(obs.step_count)) != int(s.step_count):
        out.append(f"obs-step_count: observed {int(np.asarray(obs.step_count))} state {int(s.step_count)}")
    om, sm = np.asarray(obs.action_mask), np.asarray(s.action_mask)
    if om.shape != sm.shape or not np.array_equal(om.astype(bool), sm.astype(bool)):
        out.append("obs-action_mask: observed mask differs from the state's mask")
    view = np.asarray(obs.agents_view)
    exp = _observe(info, s)
    if view.shape != exp.shape:
        out.append(f"obs-agents_view-shape: {view.shape} expected {exp.shape}")
        return out
    if _collided(info, s):
        # sensors undefined when two agents share a cell (terminal): own features only
        if not np.array_equal(view[:, :8], exp[:, :8]):
            i = int(np.nonzero((view[:, :8] != exp[:, :8]).any(axis=1))[0][0])
            out.append(f"obs-agents_view-own-features: agent {i} observed {view[i, :8].tolist()} expected {exp[i, :8].tolist()}")
        return out
    if not np.array_equal(view, exp):
        i = int(np.nonzero((view != exp).any(axis=1))[0][0])
        k = int(np.nonzero(view[i] != exp[i])[0][0])
        cells_per = (2 * info["r"] + 1) ** 2
        part = "own-features" if k < 8 else ("agent-sensors" if k < 8 + 5 * (cells_per - 1) else "shelf-sensors")
        out.append(f"obs-agents_view-{part}: agent {i} entry {k}: observed {int(view[i, k])} expected {int(exp[i, k])} "
                   f"(observed {view[i].tolist()} expected {exp[i].tolist()})")
    return out
