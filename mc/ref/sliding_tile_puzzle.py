"""Reference model of SlidingTilePuzzle, written from docs/environments/sliding_tile_puzzle.md and
the class docstring.

Rules.  N x N board holding the tiles 1..N*N-1 and the empty tile 0.  Actions move the EMPTY tile:
0 up (row-1), 1 right (col+1), 2 down (row+1), 3 left (col-1); the tile that was there slides into
the vacated cell.  Legal <=> the empty tile stays inside the board; an illegal move is ignored
(board and empty-tile position unchanged, the step still counts).  Goal: 1..N*N-1 in row-major
order with the empty tile in the last cell.  The episode ends <=> the new board is the goal, or
step_count reaches time_limit.
DenseRewardFn: "the difference of correctly placed tiles between the current state and the next
state ... positive for each newly correctly placed tile and negative for each newly incorrectly
placed tile".  SparseRewardFn: "1 if the puzzle is solved, and 0 otherwise" (judged on the new board).

Modelling decisions
* Does the empty tile count as a "correctly placed tile"?  The docs call 0 "the empty tile" ("The
  tile represented by 0 is the empty tile"), i.e. one of the tiles, and `extras.prop_correctly_placed`
  is defined over all N*N cells; so correct(board) = number of cells equal to the goal, the empty
  one included (DESIGN.md Appendix C).
* The legal set and every prediction locate the empty tile by searching the board for 0, not from
  `empty_tile_position`; that field is then compared with the board (C09, C12).
* An ignored move on a solved board (possible only on a reset state that happens to be solved)
  ends the episode and, with the sparse function, is rewarded 1: both follow from the documented
  "terminates if the puzzle is solved" / "1 if the puzzle is solved" and are predicted as such.
* C08: the documented objective "change in correctly placed tiles" needs the initial board, which
  the final state does not hold, so it is checked by edge-local telescoping: dense
  potential = correct(board); return == correct(final) - correct(initial) follows on every path.
  The sparse function is documented as a different objective ("only rewarding when the puzzle is
  solved"); its potential is [board solved by a move of this episode] (solved and step_count > 0:
  a solved state with step_count > 0 is terminal, and a solved reset state has not earned the 1),
  which states exactly "reward 1 on the step that solves the puzzle, 0 elsewhere".  No dense ==
  sparse claim is made (DESIGN.md C08).
* `key` is not modelled.
"""
from __future__ import annotations

from typing import Any, List, Tuple

import numpy as np

_DELTA = {0: (-1, 0), 1: (0, 1), 2: (1, 0), 3: (0, -1)}


def _n(env: Any) -> int:
    return int(env.generator.grid_size)


def _goal(n: int) -> np.ndarray:
    g = np.arange(1, n * n + 1, dtype=np.int64)
    g[-1] = 0
    return g.reshape(n, n)


def _blank(puzzle: np.ndarray) -> Tuple[int, int]:
    pos = np.argwhere(np.asarray(puzzle) == 0)
    if len(pos) != 1:
        return (-1, -1)
    return int(pos[0][0]), int(pos[0][1])


def _correct(puzzle: np.ndarray) -> int:
    p = np.asarray(puzzle)
    return int((p == _goal(p.shape[0])).sum())


def _solved(puzzle: np.ndarray) -> bool:
    p = np.asarray(puzzle)
    return bool(np.array_equal(p, _goal(p.shape[0])))


def _dense(env: Any) -> bool:
    return type(env.reward_fn).__name__ == "DenseRewardFn"


def applies(pid: str, cfg: Any, env: Any) -> bool:
    if pid in ("C08", "C09"):
        return type(env.reward_fn).__name__ in ("DenseRewardFn", "SparseRewardFn")
    return True


def _target(puzzle: np.ndarray, a: int) -> Tuple[Tuple[int, int], Tuple[int, int], bool]:
    n = np.asarray(puzzle).shape[0]
    r, c = _blank(puzzle)
    dr, dc = _DELTA[int(a)]
    r2, c2 = r + dr, c + dc
    return (r, c), (r2, c2), (r >= 0 and 0 <= r2 < n and 0 <= c2 < n)


# ---------------------------------------------------------------------------------- C04
def legal(env: Any, s: Any) -> np.ndarray:
    return np.array([_target(s.puzzle, a)[2] for a in range(4)], bool)


def action_legal(env: Any, s: Any, a: Any) -> bool:
    return bool(_target(s.puzzle, int(a))[2])


def check_reaction(env: Any, s: Any, a: Any, s2: Any, ts: Any, masked_in: bool) -> List[str]:
    ignored = np.array_equal(np.asarray(s.puzzle), np.asarray(s2.puzzle))
    if masked_in and ignored:
        return [f"masked-in-action-ignored: move {int(a)} is masked-in but the board did not change"]
    if not masked_in and not ignored:
        return [f"masked-out-action-accepted: move {int(a)} is masked-out but the board changed"]
    return []


# ---------------------------------------------------------------------------------- C05
def check_illegal(env: Any, s: Any, a: Any, s2: Any, ts: Any) -> List[str]:
    out = []
    if not np.array_equal(np.asarray(s.puzzle), np.asarray(s2.puzzle)):
        out.append(f"illegal-action-changes-board: move {int(a)} would take the empty tile off the board, yet the "
                   f"board went from {np.asarray(s.puzzle).tolist()} to {np.asarray(s2.puzzle).tolist()}")
    if not np.array_equal(np.asarray(s.empty_tile_position), np.asarray(s2.empty_tile_position)):
        out.append(f"illegal-action-moves-empty-tile: {np.asarray(s.empty_tile_position).tolist()} -> "
                   f"{np.asarray(s2.empty_tile_position).tolist()}")
    solved = _solved(s.puzzle)
    timeout = int(s.step_count) + 1 >= int(env.time_limit)
    if int(ts.step_type) == 2 and not (solved or timeout):
        out.append("illegal-action-terminates: an ignored move ended the episode (board not solved, time limit "
                   "not reached)")
    exp_r = 0.0 if _dense(env) else float(solved)
    if type(env.reward_fn).__name__ in ("DenseRewardFn", "SparseRewardFn") and \
            not np.isclose(float(ts.reward), exp_r, atol=1e-6):
        out.append(f"illegal-action-reward: an ignored move places no tile, expected {exp_r} got {float(ts.reward)}")
    return out


# ---------------------------------------------------------------------------------- C08
def potential(env: Any, s: Any) -> float:
    if _dense(env):
        return float(_correct(s.puzzle))
    return float(_solved(s.puzzle) and int(s.step_count) > 0)


# ---------------------------------------------------------------------------------- C09
def check_step(env: Any, s: Any, a: Any, s2: Any, ts: Any) -> List[str]:
    out = []
    a = int(a)
    p = np.asarray(s.puzzle).astype(np.int64)
    (r, c), (r2, c2), ok = _target(p, a)
    exp = p.copy()
    pos = (r, c)
    if ok:
        exp[r, c] = p[r2, c2]
        exp[r2, c2] = 0
        pos = (r2, c2)
    if not np.array_equal(np.asarray(s2.puzzle), exp):
        out.append(f"step-field-puzzle: move {a} ({'legal' if ok else 'ignored'}) on {p.tolist()} must give "
                   f"{exp.tolist()}, got {np.asarray(s2.puzzle).tolist()}")
    if tuple(int(x) for x in np.asarray(s2.empty_tile_position)) != pos:
        out.append(f"step-field-empty_tile_position: expected {list(pos)} got "
                   f"{np.asarray(s2.empty_tile_position).tolist()}")
    if int(s2.step_count) != int(s.step_count) + 1:
        out.append(f"step-field-step_count: expected {int(s.step_count) + 1} got {int(s2.step_count)}")
    solved = _solved(exp)
    done = solved or int(s.step_count) + 1 >= int(env.time_limit)
    if (int(ts.step_type) == 2) != done:
        out.append(f"step-termination: solved={solved}, step {int(s.step_count) + 1} of {int(env.time_limit)}: "
                   f"expected done={done} got step_type={int(ts.step_type)}")
    rew = float(_correct(exp) - _correct(p)) if _dense(env) else float(solved)
    if not np.isclose(float(ts.reward), rew, atol=1e-6):
        out.append(f"step-reward: expected {rew} got {float(ts.reward)}")
    return out


# ---------------------------------------------------------------------------------- C12
def check_obs(env: Any, s: Any, obs: Any) -> List[str]:
    out = []
    if not np.array_equal(np.asarray(obs.puzzle), np.asarray(s.puzzle)):
        out.append("obs-puzzle: observation board differs from the state board")
    if not np.array_equal(np.asarray(obs.empty_tile_position), np.asarray(s.empty_tile_position)):
        out.append("obs-empty_tile_position: differs from the state")
    if tuple(int(x) for x in np.asarray(obs.empty_tile_position)) != _blank(s.puzzle):
        out.append(f"obs-empty_tile_position-vs-board: {np.asarray(obs.empty_tile_position).tolist()} but the 0 "
                   f"is at {list(_blank(s.puzzle))}")
    if int(obs.step_count) != int(s.step_count):
        out.append(f"obs-step_count: {int(obs.step_count)} vs state {int(s.step_count)}")
    if not np.array_equal(np.asarray(obs.action_mask, bool), legal(env, s)):
        out.append(f"obs-action_mask: {np.asarray(obs.action_mask).tolist()} is not the set of in-board moves "
                   f"{legal(env, s).tolist()}")
    return out
