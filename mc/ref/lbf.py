"""Reference model of LevelBasedForaging, written from the class docstring of `LevelBasedForaging`, the
observer docstrings (VectorObserver / GridObserver), the docstrings of utils.fix_collisions / eat_food and
DESIGN.md Appendix C.

Rules
  * Square grid, positions are (row, col).  Action per agent: 0 no-op, 1 up (row-1), 2 down (row+1),
    3 left (col-1), 4 right (col+1), 5 load.
  * A move is legal <=> the destination is inside the grid AND holds no other agent AND no uneaten food
    (judged on the positions BEFORE the step: a cell that another agent is about to leave is still
    occupied, so swaps and "following" are impossible).  Load is legal <=> an uneaten food is 4-adjacent.
    No-op is always legal.  Illegal moves/loads are ignored (the agent stays; the episode continues).
  * Agents move simultaneously; if N >= 2 agents would end on the same cell all of them keep their initial
    position (fix_collisions).  Eaten food does not block.
  * After the moves, a food is eaten when the levels of the 4-adjacent agents whose action was LOAD sum to
    at least its level.  Each such agent receives level_agent * level_food, divided by
    (sum of those adjacent loading levels * sum of ALL food levels) when normalize_reward, so that the
    rewards of a fully collected episode add up to one.
  * LAST <=> all food eaten (termination, discount 0) or step_count >= time_limit (truncation, discount
    1); when both hold it is a termination.  MID discount 1.

State fields compared: agents.{id, position, level, loading}, food_items.{id, position, level, eaten},
step_count, key (unchanged).

Modelling decisions
  * docs/environments/lbf.md says the episode terminates on an invalid action or a collision; the class
    docstring, the utils docstrings and DESIGN.md (C05: LBF is an ignore-invalid environment) say
    otherwise; the latter are followed.
  * `loading` is "whether the agent is currently loading food": it is compared as (action == LOAD) when
    that load is legal and as False when the action is not LOAD; for an ILLEGAL load (no adjacent food)
    the documents do not say whether the flag is raised, so it is not compared (it can have no effect:
    the agent has no adjacent food after the step either).
  * penalty: the documents only say "penalize agents for not being able to cooperate and eat food" (a
    food with adjacent loaders whose levels do not reach its level).  Who is penalised is not stated: the
    implementation subtracts the penalty from EVERY agent's reward, the original lb-foraging only from the
    loaders involved.  Both readings are accepted per failed food (loaders always pay; the others either
    all pay or none does).  With normalize_reward the penalty is divided by the same normaliser as the
    food reward (implementation formula; not in the catalogue).
  * C08: the documented claim is for normalize_reward=True and penalty=0 only ("the sum of the rewards (if
    all food items have been picked up) is one"): applies() restricts C08 to those configurations.  The
    objective is (sum of levels of eaten food) / (sum of all food levels) recomputed from the final
    state (1 when everything is collected); the same quantity is the edge-local potential.
  * VectorObserver coordinates are "positions of items within the agent's field of view": relative to the
    top-left corner of the agent's fov window clipped to the grid, i.e. item - max(agent - fov, 0) per
    axis (absolute coordinates when fov >= grid size).  Unseen or eaten food and unseen agents are
    (-1, -1, 0); the observing agent comes first among the agents, the others follow in id order.
  * GridObserver: three (2 fov + 1)^2 layers centred on the agent: agent levels, uneaten food levels,
    accessibility (1 <=> inside the grid and holding neither an agent nor uneaten food).
"""
from __future__ import annotations

from typing import Any, List, Optional, Tuple

import numpy as np

MOVES = np.array([[0, 0], [-1, 0], [1, 0], [0, -1], [0, 1], [0, 0]])
LOAD = 5


# ------------------------------------------------------------------------------------------ helpers
def _apos(s: Any) -> np.ndarray:
    return np.asarray(s.agents.position).astype(int)


def _fpos(s: Any) -> np.ndarray:
    return np.asarray(s.food_items.position).astype(int)


def _eaten(s: Any) -> np.ndarray:
    return np.asarray(s.food_items.eaten, bool)


def _g(env: Any) -> int:
    return int(env.grid_size)


def _adjacent(p: np.ndarray, q: np.ndarray) -> bool:
    return int(abs(int(p[0]) - int(q[0])) + abs(int(p[1]) - int(q[1]))) == 1


def _legal(env: Any, s: Any) -> np.ndarray:
    g = _g(env)
    ap, fp, eaten = _apos(s), _fpos(s), _eaten(s)
    n = len(ap)
    out = np.zeros((n, 6), bool)
    for i in range(n):
        out[i, 0] = True
        for a in (1, 2, 3, 4):
            r, c = ap[i] + MOVES[a]
            if not (0 <= r < g and 0 <= c < g):
                continue
            if any(j != i and ap[j][0] == r and ap[j][1] == c for j in range(n)):
                continue
            if any((not eaten[k]) and fp[k][0] == r and fp[k][1] == c for k in range(len(fp))):
                continue
            out[i, a] = True
        out[i, LOAD] = any((not eaten[k]) and _adjacent(ap[i], fp[k]) for k in range(len(fp)))
    return out


def _predict_positions(env: Any, s: Any, a: np.ndarray, lg: np.ndarray) -> np.ndarray:
    ap = _apos(s)
    n = len(ap)
    want = ap.copy()
    for i in range(n):
        ai = int(a[i])
        if 1 <= ai <= 4 and lg[i, ai]:
            want[i] = ap[i] + MOVES[ai]
    new = want.copy()
    for i in range(n):
        if any(j != i and (want[j] == want[i]).all() for j in range(n)):
            new[i] = ap[i]
    return new


def _eat(env: Any, s: Any, a: np.ndarray, new_pos: np.ndarray) -> Tuple[np.ndarray, np.ndarray, np.ndarray]:
    """(eaten after the step [F], eaten this step [F], adjacent loading levels [F, A])."""
    fp, eaten0 = _fpos(s), _eaten(s)
    flev = np.asarray(s.food_items.level).astype(int)
    alev = np.asarray(s.agents.level).astype(int)
    F, A = len(fp), len(new_pos)
    adj = np.zeros((F, A), int)
    now = np.zeros(F, bool)
    for k in range(F):
        if eaten0[k]:
            continue
        for i in range(A):
            if int(a[i]) == LOAD and _adjacent(new_pos[i], fp[k]):
                adj[k, i] = alev[i]
        now[k] = adj[k].sum() >= flev[k] and adj[k].sum() > 0
    return eaten0 | now, now, adj


def _rewards(env: Any, s: Any, now: np.ndarray, adj: np.ndarray) -> List[np.ndarray]:
    """Admissible reward vectors (one, or two when a penalty is charged for a failed load)."""
    flev = np.asarray(s.food_items.level).astype(np.float64)
    F, A = adj.shape
    total = float(flev.sum())
    pen = float(env.penalty)
    norm = bool(env.normalize_reward)
    variants = [np.zeros(A), np.zeros(A)]
    for k in range(F):
        ssum = float(adj[k].sum())
        if ssum == 0:
            continue
        failed = (not now[k]) and pen != 0.0
        base = adj[k].astype(np.float64) * (flev[k] if now[k] else 0.0)
        for v, everyone in ((0, True), (1, False)):
            p = np.zeros(A)
            if failed:
                p[:] = pen if everyone else 0.0
                p[adj[k] > 0] = pen
            r = base - p
            if norm:
                r = r / (ssum * total)
            variants[v] = variants[v] + r
    if np.allclose(variants[0], variants[1]):
        return [variants[0]]
    return variants


# ------------------------------------------------------------------------------------------ scope
def applies(pid: str, cfg: Any, env: Any) -> bool:
    if pid == "C08":
        # "the sum of the rewards (if all food items have been picked up) is one" is documented for the
        # normalised reward; a penalty changes the return by an undocumented amount.
        return bool(env.normalize_reward) and float(env.penalty) == 0.0
    return True


# ------------------------------------------------------------------------------------------ C04
def legal(env: Any, s: Any) -> np.ndarray:
    return _legal(env, s)


def mask_allows(env: Any, mask: np.ndarray, a: Any) -> bool:
    a = np.asarray(a).astype(int)
    return bool(all(mask[i, a[i]] for i in range(a.shape[0])))


def action_legal(env: Any, s: Any, a: Any) -> bool:
    lg = _legal(env, s)
    a = np.asarray(a).astype(int)
    return bool(all(lg[i, a[i]] for i in range(a.shape[0])))


def check_reaction(env: Any, s: Any, a: Any, s2: Any, ts: Any, masked_in: bool) -> List[str]:
    """Invalid-action path of agent i: a move that leaves it in place without being a lost collision (a move
    that is legal on its own while another agent asked for the same cell), or a load without an adjacent uneaten food (it can never contribute to eating).
    Masked-in joint action: no agent takes it.  Masked-out joint action: at least one does."""
    a = np.asarray(a).astype(int)
    ap0, ap1 = _apos(s), _apos(s2)
    fp, eaten = _fpos(s), _eaten(s)
    n = len(a)
    dest = [ap0[i] + MOVES[a[i]] for i in range(n)]
    ignored = []
    lg = _legal(env, s)
    for i in range(n):
        if 1 <= a[i] <= 4 and (ap0[i] == ap1[i]).all():
            # a collision only happens among moves that are legal on their own
            rival = lg[i, a[i]] and any(j != i and 1 <= a[j] <= 4 and (dest[j] == dest[i]).all() for j in range(n))
            if not rival:
                ignored.append(i)
        elif a[i] == LOAD and not any((not eaten[k]) and _adjacent(ap0[i], fp[k]) for k in range(len(fp))):
            ignored.append(i)
    if masked_in and ignored:
        return [f"masked-in-action-ignored: joint action {a.tolist()} is masked-in but agents {ignored} were "
                "ignored without a rival for their cell"]
    if not masked_in and not ignored:
        return [f"masked-out-action-executed: joint action {a.tolist()} contains a masked-out entry but every "
                "agent's action took effect"]
    return []


# ------------------------------------------------------------------------------------------ C05
def check_illegal(env: Any, s: Any, a: Any, s2: Any, ts: Any) -> List[str]:
    out: List[str] = []
    a = np.asarray(a).astype(int)
    lg = _legal(env, s)
    ap0, ap1 = _apos(s), _apos(s2)
    n = len(a)
    for i in range(n):
        if lg[i, a[i]]:
            continue
        if not (ap0[i] == ap1[i]).all():
            out.append(f"illegal-action-moves-agent: agent {i} action {int(a[i])} is illegal at {ap0[i].tolist()} "
                       f"but its position became {ap1[i].tolist()}")
    if not np.array_equal(np.asarray(s.agents.level), np.asarray(s2.agents.level)):
        out.append("illegal-action-changes-levels: agent levels changed")
    for f in ("position", "level", "id"):
        if not np.array_equal(np.asarray(getattr(s.food_items, f)), np.asarray(getattr(s2.food_items, f))):
            out.append(f"illegal-action-changes-food-{f}: food {f} changed")
    # nothing is eaten on behalf of an illegal action: eating is explained by the legal loaders alone
    new_pos = _predict_positions(env, s, a, lg)
    a_legal_only = np.where([lg[i, a[i]] for i in range(n)], a, 0)
    eaten1, _, _ = _eat(env, s, a_legal_only, new_pos)
    if not np.array_equal(_eaten(s2), eaten1):
        out.append(f"illegal-action-changes-eating: eaten flags {_eaten(s2).tolist()} but the legal actions alone "
                   f"give {eaten1.tolist()}")
    cause = bool(_eaten(s2).all()) or int(s2.step_count) >= int(env.time_limit)
    if int(ts.step_type) == 2 and not cause:
        out.append("illegal-action-ends-episode: LAST although food remains and the time limit is not reached")
    return out


# ------------------------------------------------------------------------------------------ C07
def check_invariants(env: Any, s: Any) -> List[str]:
    out: List[str] = []
    g = _g(env)
    ap, fp, eaten = _apos(s), _fpos(s), _eaten(s)
    n, F = len(ap), len(fp)
    if n != int(env.num_agents) or F != int(env.num_food):
        out.append(f"entity-count: {n} agents {F} food, configured {int(env.num_agents)}/{int(env.num_food)}")
    if ((ap < 0) | (ap >= g)).any():
        out.append(f"agent-outside-grid: positions {ap.tolist()} on a {g}x{g} grid")
    if ((fp < 0) | (fp >= g)).any():
        out.append(f"food-outside-grid: positions {fp.tolist()}")
    if len({tuple(p) for p in ap.tolist()}) != n:
        out.append(f"two-agents-on-one-cell: positions {ap.tolist()}")
    live = [tuple(fp[k].tolist()) for k in range(F) if not eaten[k]]
    if len(set(live)) != len(live):
        out.append(f"two-food-on-one-cell: {live}")
    both = [tuple(p) for p in ap.tolist() if tuple(p) in set(live)]
    if both:
        out.append(f"agent-on-uneaten-food: cells {both}")
    if not np.array_equal(np.asarray(s.agents.id).astype(int), np.arange(n)):
        out.append(f"agent-ids: {np.asarray(s.agents.id).tolist()}")
    if not np.array_equal(np.asarray(s.food_items.id).astype(int), np.arange(F)):
        out.append(f"food-ids: {np.asarray(s.food_items.id).tolist()}")
    if (np.asarray(s.agents.level) < 1).any() or (np.asarray(s.food_items.level) < 1).any():
        out.append("level-not-positive: an agent or food level is < 1")
    return out


def check_conservation(env: Any, s: Any, a: Any, s2: Any, ts: Any) -> List[str]:
    out: List[str] = []
    for ent, f in (("agents", "level"), ("agents", "id"), ("food_items", "level"), ("food_items", "id"),
                   ("food_items", "position")):
        x, y = np.asarray(getattr(getattr(s, ent), f)), np.asarray(getattr(getattr(s2, ent), f))
        if not np.array_equal(x, y):
            out.append(f"{ent}-{f}-changed: {x.tolist()} -> {y.tolist()}")
    if (_eaten(s) & ~_eaten(s2)).any():
        out.append("food-uneaten-again: an eaten food came back")
    d = np.abs(_apos(s2) - _apos(s)).sum(axis=1)
    if (d > 1).any():
        out.append(f"agent-jumped: {_apos(s).tolist()} -> {_apos(s2).tolist()}")
    if int(s2.step_count) != int(s.step_count) + 1:
        out.append(f"step-count: {int(s.step_count)} -> {int(s2.step_count)}")
    return out


# ------------------------------------------------------------------------------------------ C08
def _fraction(s: Any) -> float:
    flev = np.asarray(s.food_items.level).astype(np.float64)
    return float((flev * _eaten(s)).sum() / flev.sum())


def objective(env: Any, s: Any, ts: Any) -> Optional[float]:
    return _fraction(s)


def potential(env: Any, s: Any) -> float:
    return _fraction(s)


# ------------------------------------------------------------------------------------------ C09
def check_step(env: Any, s: Any, a: Any, s2: Any, ts: Any) -> List[str]:
    out: List[str] = []
    a = np.asarray(a).astype(int)
    n = len(a)
    lg = _legal(env, s)
    new_pos = _predict_positions(env, s, a, lg)
    if not np.array_equal(_apos(s2), new_pos):
        out.append(f"step-positions: action {a.tolist()} from {_apos(s).tolist()} expected {new_pos.tolist()} got "
                   f"{_apos(s2).tolist()}")
    eaten1, now, adj = _eat(env, s, a, new_pos)
    if not np.array_equal(_eaten(s2), eaten1):
        out.append(f"step-eaten: action {a.tolist()} expected {eaten1.tolist()} got {_eaten(s2).tolist()}")
    load2 = np.asarray(s2.agents.loading, bool)
    for i in range(n):
        if a[i] == LOAD and not lg[i, LOAD]:
            continue  # undocumented: flag after an illegal load
        if bool(load2[i]) != bool(a[i] == LOAD):
            out.append(f"step-loading: agent {i} action {int(a[i])} loading flag {bool(load2[i])}")
    for ent, f in (("agents", "level"), ("agents", "id"), ("food_items", "level"), ("food_items", "id"),
                   ("food_items", "position")):
        if not np.array_equal(np.asarray(getattr(getattr(s, ent), f)), np.asarray(getattr(getattr(s2, ent), f))):
            out.append(f"step-{ent}-{f}: changed")
    if int(s2.step_count) != int(s.step_count) + 1:
        out.append(f"step-count: expected {int(s.step_count) + 1} got {int(s2.step_count)}")
    if not np.array_equal(np.asarray(s.key), np.asarray(s2.key)):
        out.append("step-key: the key changed (the environment is deterministic)")
    got = np.asarray(ts.reward, np.float64)
    cands = _rewards(env, s, now, adj)
    if not any(np.allclose(got, r, rtol=1e-5, atol=1e-6) for r in cands):
        out.append(f"step-reward: action {a.tolist()} expected {[r.tolist() for r in cands]} got {got.tolist()}")
    term = bool(eaten1.all())
    trunc = int(s.step_count) + 1 >= int(env.time_limit)
    last = term or trunc
    if (int(ts.step_type) == 2) != last:
        out.append(f"step-termination: expected last={last} (all eaten={term}, step {int(s.step_count) + 1}/"
                   f"{int(env.time_limit)}) got step_type={int(ts.step_type)}")
    exp_disc = 0.0 if term else 1.0
    if not np.allclose(np.asarray(ts.discount, np.float64), exp_disc):
        out.append(f"step-discount: expected {exp_disc} (termination={term}, truncation={trunc}) got "
                   f"{np.asarray(ts.discount).tolist()}")
    return out


# ------------------------------------------------------------------------------------------ C12
def _vector_view(env: Any, s: Any) -> np.ndarray:
    fov = int(env.fov)
    ap, fp, eaten = _apos(s), _fpos(s), _eaten(s)
    alev = np.asarray(s.agents.level).astype(int)
    flev = np.asarray(s.food_items.level).astype(int)
    n, F = len(ap), len(fp)
    out = np.zeros((n, 3 * (F + n)), int)
    for i in range(n):
        origin = np.maximum(ap[i] - fov, 0)
        row: List[int] = []
        for k in range(F):
            vis = (not eaten[k]) and (np.abs(fp[k] - ap[i]) <= fov).all()
            row += [int(fp[k][0] - origin[0]), int(fp[k][1] - origin[1]), int(flev[k])] if vis else [-1, -1, 0]
        row += [int(ap[i][0] - origin[0]), int(ap[i][1] - origin[1]), int(alev[i])]
        for j in range(n):
            if j == i:
                continue
            vis = (np.abs(ap[j] - ap[i]) <= fov).all()
            row += [int(ap[j][0] - origin[0]), int(ap[j][1] - origin[1]), int(alev[j])] if vis else [-1, -1, 0]
        out[i] = row
    return out


def _grid_view(env: Any, s: Any) -> np.ndarray:
    fov, g = int(env.fov), _g(env)
    ap, fp, eaten = _apos(s), _fpos(s), _eaten(s)
    alev = np.asarray(s.agents.level).astype(int)
    flev = np.asarray(s.food_items.level).astype(int)
    n = len(ap)
    w = 2 * fov + 1
    out = np.zeros((n, 3, w, w), int)
    agent_at = {tuple(ap[j].tolist()): int(alev[j]) for j in range(n)}
    food_at = {tuple(fp[k].tolist()): int(flev[k]) for k in range(len(fp)) if not eaten[k]}
    for i in range(n):
        for dr in range(w):
            for dc in range(w):
                r, c = int(ap[i][0]) - fov + dr, int(ap[i][1]) - fov + dc
                if not (0 <= r < g and 0 <= c < g):
                    continue  # outside the grid: no agent, no food, not accessible
                out[i, 0, dr, dc] = agent_at.get((r, c), 0)
                out[i, 1, dr, dc] = food_at.get((r, c), 0)
                out[i, 2, dr, dc] = int((r, c) not in agent_at and (r, c) not in food_at)
    return out


def check_obs(env: Any, s: Any, obs: Any) -> List[str]:
    out: List[str] = []
    grid_obs = type(getattr(env, "_observer", None)).__name__ == "GridObserver"
    exp = _grid_view(env, s) if grid_obs else _vector_view(env, s)
    got = np.asarray(obs.agents_view)
    if got.shape != exp.shape:
        out.append(f"obs-agents_view-shape: {got.shape} expected {exp.shape}")
    elif not np.array_equal(got, exp):
        bad = np.argwhere(got != exp)[:4].tolist()
        out.append(f"obs-agents_view: differs at {bad}: got {got[tuple(np.array(bad).T)].tolist()} expected "
                   f"{exp[tuple(np.array(bad).T)].tolist()} (agents {_apos(s).tolist()}, food {_fpos(s).tolist()}, "
                   f"eaten {_eaten(s).tolist()})")
    if int(obs.step_count) != int(s.step_count):
        out.append(f"obs-step_count: {int(obs.step_count)} vs state {int(s.step_count)}")
    lg = _legal(env, s)
    m = np.asarray(obs.action_mask, bool)
    if m.shape != lg.shape or not np.array_equal(m, lg):
        out.append(f"obs-action_mask: shown {m.astype(int).tolist()} legal set {lg.astype(int).tolist()}")
    return out


# ------------------------------------------------------------------------------------------ state injection
def placement_states(env: Any, state0: Any, mode: str, tier: str) -> Tuple[Any, List[Dict[str, Any]]]:
    """State injection: from an UNBATCHED reset state, every placement of the entities within the space the
    generator can reach (food strictly inside the grid, agents on distinct cells that hold no uneaten food,
    agent levels 1..max_agent_level, food levels 1..sum of the 3 lowest agent levels), so that every local
    geometry (border, corner, two agents next to each other and to the food, level sums just below / at the
    food's level) is exercised by ONE step with every joint action.
      mode "pairs"   (2 agents, 1 food): food cell x ordered agent pair x level combination;
                     quick: food on 3 representative inner cells x 5 level combinations, thorough: all inner
                     cells x all 12 combinations;
      mode "triples" (3 agents): the three agents on every ordered triple of distinct cells of the 2x4 window at
                     the top-left corner (rows 0-1, columns 0-3); food and levels as generated.
    Only `agents.position/level` and `food_items.position/level` are rewritten (loading False, nothing eaten);
    root timesteps are stale (run with injected_roots=True)."""
    g = _g(env)
    s0 = tmap_np(state0)
    n_agents = int(np.asarray(s0.agents.level).shape[0])
    n_food = int(np.asarray(s0.food_items.level).shape[0])
    cells = [(r, c) for r in range(g) for c in range(g)]
    rows: List[Tuple[np.ndarray, np.ndarray, np.ndarray, np.ndarray]] = []
    descs: List[Dict[str, Any]] = []
    if mode == "pairs":
        assert n_agents == 2 and n_food == 1
        inner = [(r, c) for r in range(1, g - 1) for c in range(1, g - 1)]
        food_cells = inner if tier == "thorough" else [(1, 1), (1, g // 2), (g // 2, g // 2)]
        max_lvl = int(env._generator.max_agent_level)
        combos = [(a, b, f) for a in range(1, max_lvl + 1) for b in range(1, max_lvl + 1) for f in range(1, a + b + 1)]
        if tier != "thorough":
            combos = [c for c in combos if c in ((1, 1, 1), (1, 1, 2), (1, 2, 3), (2, 1, 2), (2, 2, 4))]
        for fc in food_cells:
            free = [c for c in cells if c != fc]
            for a0 in free:
                for a1 in free:
                    if a1 == a0:
                        continue
                    for la, lb, lf in combos:
                        rows.append((np.array([a0, a1]), np.array([la, lb]), np.array([fc]), np.array([lf])))
                        descs.append({"food": [list(fc)], "agents": [list(a0), list(a1)], "agent_levels": [la, lb],
                                      "food_levels": [lf]})
    elif mode == "triples":
        assert n_agents == 3
        fpos = [tuple(int(v) for v in p) for p in np.asarray(s0.food_items.position)]
        window = [(r, c) for r in range(2) for c in range(4) if (r, c) not in fpos]
        import itertools

        for tri in itertools.permutations(window, 3):
            rows.append((np.array(tri), np.asarray(s0.agents.level), np.asarray(s0.food_items.position),
                         np.asarray(s0.food_items.level)))
            descs.append({"agents": [list(t) for t in tri]})
    else:
        raise ValueError(mode)
    n = len(rows)
    apos = np.stack([r[0] for r in rows]).astype(np.asarray(s0.agents.position).dtype)
    alev = np.stack([r[1] for r in rows]).astype(np.asarray(s0.agents.level).dtype)
    fposs = np.stack([r[2] for r in rows]).astype(np.asarray(s0.food_items.position).dtype)
    flev = np.stack([r[3] for r in rows]).astype(np.asarray(s0.food_items.level).dtype)
    rep = lambda x: np.repeat(np.asarray(x)[None], n, axis=0)  # noqa: E731
    agents = s0.agents.replace(id=rep(s0.agents.id), position=apos, level=alev,
                               loading=np.zeros((n, n_agents), bool))
    food = s0.food_items.replace(id=rep(s0.food_items.id), position=fposs, level=flev,
                                 eaten=np.zeros((n, n_food), bool))
    states = s0.replace(agents=agents, food_items=food, step_count=rep(s0.step_count), key=rep(s0.key))
    return states, descs


def tmap_np(tree: Any) -> Any:
    import jax

    return jax.tree_util.tree_map(lambda x: np.asarray(x), tree)
