"""Reference model of CVRP, written from docs/environments/cvrp.md and the class docstring.

Rules: node 0 is the depot, nodes 1..n the customers (n = env.num_nodes).  The vehicle starts at the
depot with a full load (max_capacity).  Action = next node.  A customer is legal <=> it has not been
visited and its demand is <= the current capacity; the depot is legal <=> the vehicle is not at the
depot (so it is illegal on the very first step).  A legal move appends the node to the route,
capacity -= demand at a customer, capacity := max_capacity at the depot.  An invalid action leaves the
problem state untouched, ends the episode and gives -2*n*sqrt(2).  The episode ends when every
customer has been visited and the vehicle is back at the depot.  Dense reward: minus the distance
moved (the closing move to the depot is an ordinary move, so "the distance to the depot to complete
the tour" is included exactly once).  Sparse reward: minus the length of the closed tour on the last
(legal) step, 0 before.
State fields compared: coordinates, demands, position, capacity, visited_mask, trajectory,
num_total_visits (all problem fields; `key` too on the invalid-action path).

Field conventions learnt from the implementation (layout only): `trajectory` has 2n slots, is filled
with the depot index, slot 0 is the start at the depot and `num_total_visits` (initially 1) counts the
filled slots; the worst-case route depot,(customer,depot)*n has 2n+1 entries, so the very last depot
visit may not fit - it is then represented by the depot filler.  `visited_mask[0]` is True exactly
while the vehicle stands at the depot.

Modelling decisions
* Visited set, position and remaining capacity are *recomputed* from `trajectory` and `demands`
  (raw arrays); the cached fields `visited_mask`, `position`, `capacity` are compared against the
  recomputation in C06 (`*-disagrees-with-trajectory`) and C09.
* "Depot legal <=> not at the depot" follows DESIGN Appendix C / the observation rule; the docs give
  revisiting a customer only as an example ("e.g.") of an invalid action.
* Observation `demands` and `capacity` are floats with spec range [0, 1] while the state holds
  integers: they are the state's values in units of max_capacity (the only scale under which the
  documented bounds hold), compared with rtol 1e-5.  `unvisited_nodes` is the complement of the
  visited set; its depot entry is compared with "not at the depot".
* C08 objective = minus the length of the route recomputed from `trajectory`, closed back to the depot;
  defined for routes that serve every customer, which is how every mask-respecting
  episode ends (the depot is always reachable away from it, and a full vehicle can serve any customer
  because max_capacity >= max_demand).
"""
from __future__ import annotations

from typing import Any, List, Tuple

import numpy as np

_FIELDS = ("coordinates", "demands", "position", "capacity", "visited_mask", "trajectory", "num_total_visits")


def _n(env: Any) -> int:
    return int(env.num_nodes)


def _penalty(env: Any) -> float:
    return -2.0 * _n(env) * float(np.sqrt(2.0))


def _sparse(env: Any) -> bool:
    return type(env.reward_fn).__name__ == "SparseReward"


def _route(env: Any, s: Any) -> List[int]:
    """The route so far (starts with the depot) from the raw trajectory array."""
    tr = np.asarray(s.trajectory).astype(int)
    k = int(s.num_total_visits)
    route = tr[: max(0, min(k, len(tr)))].tolist()
    if k > len(tr):
        route += [0] * (k - len(tr))  # the closing depot visit(s) that did not fit into the array
    return route


def _derived(env: Any, s: Any) -> Tuple[np.ndarray, int, int]:
    """(visited customers incl. depot flag False, position, remaining capacity) from the route."""
    n = _n(env)
    route = _route(env, s)
    dem = np.asarray(s.demands).astype(int)
    visited = np.zeros(n + 1, bool)
    cap = int(env.max_capacity)
    for v in route:
        if v == 0:
            cap = int(env.max_capacity)
        elif 0 < v <= n:
            visited[v] = True
            cap -= int(dem[v])
    pos = route[-1] if route else 0
    return visited, int(pos), cap


def _dist(c: np.ndarray, i: int, j: int) -> float:
    return float(np.sqrt(((c[i] - c[j]) ** 2).sum()))


def _route_len(coords: Any, route: List[int], closed: bool) -> float:
    c = np.asarray(coords, np.float64)
    d = sum(_dist(c, route[i], route[i + 1]) for i in range(len(route) - 1))
    if closed and route:
        d += _dist(c, route[-1], route[0])
    return float(d)


# ---- C04
def legal(env: Any, s: Any) -> np.ndarray:
    visited, pos, cap = _derived(env, s)
    dem = np.asarray(s.demands).astype(int)
    out = ~visited & (dem <= cap)
    out[0] = pos != 0
    return out


def action_legal(env: Any, s: Any, a: Any) -> bool:
    return bool(legal(env, s)[int(a)])


def _took_invalid_path(env: Any, s: Any, s2: Any, ts: Any) -> bool:
    return (int(ts.step_type) == 2 and np.isclose(float(ts.reward), _penalty(env), rtol=1e-5)
            and int(s2.num_total_visits) == int(s.num_total_visits))


def check_reaction(env: Any, s: Any, a: Any, s2: Any, ts: Any, masked_in: bool) -> List[str]:
    inv = _took_invalid_path(env, s, s2, ts)
    if masked_in and inv:
        return [f"masked-in-action-punished: node {int(a)} is masked-in but the step took the invalid-action path"]
    if not masked_in and not inv:
        return [f"masked-out-action-accepted: node {int(a)} is masked-out but the step did not take the "
                f"invalid-action path (step_type={int(ts.step_type)}, reward={float(ts.reward):.6f})"]
    return []


# ---- C05
def check_illegal(env: Any, s: Any, a: Any, s2: Any, ts: Any) -> List[str]:
    out = []
    if int(ts.step_type) != 2:
        out.append("illegal-action-not-terminal: an invalid node choice must end the episode")
    if not np.isclose(float(ts.reward), _penalty(env), rtol=1e-5):
        out.append(f"illegal-action-reward: got {float(ts.reward)}, documented penalty {_penalty(env):.6f}")
    for f in _FIELDS + ("key",):
        if not np.array_equal(np.asarray(getattr(s, f)), np.asarray(getattr(s2, f))):
            out.append(f"illegal-action-changes-state: field {f} changed on an invalid action")
    return out


# ---- C06
def check_constraints(env: Any, s: Any) -> List[str]:
    out = []
    n = _n(env)
    tr = np.asarray(s.trajectory).astype(int)
    k = int(s.num_total_visits)
    if k < 1 or k > 2 * n + 1:
        return [f"route-length-out-of-range: num_total_visits={k}"]
    route = _route(env, s)
    if ((np.asarray(route) < 0) | (np.asarray(route) > n)).any():
        return [f"route-node-out-of-range: {route}"]
    if route[0] != 0:
        out.append(f"route-does-not-start-at-depot: {route}")
    dem = np.asarray(s.demands).astype(int)
    if dem[0] != 0 or (dem[1:] < 1).any():
        out.append(f"bad-demands: {dem.tolist()}")
    # load per route segment between depot visits
    seen = set()
    load = 0
    for i, v in enumerate(route):
        if v == 0:
            load = 0
            continue
        if v in seen:
            out.append(f"customer-visited-twice: customer {v} appears twice in route {route}")
        seen.add(v)
        load += int(dem[v])
        if load > int(env.max_capacity):
            out.append(f"load-exceeds-capacity: load {load} > {int(env.max_capacity)} at position {i} of route {route}")
    for i in range(len(route) - 1):
        if route[i] == 0 and route[i + 1] == 0:
            out.append(f"depot-to-depot-move: route {route}")
            break
    if (tr[min(k, len(tr)):] != 0).any():
        out.append(f"trajectory-tail-filled: {tr.tolist()} with num_total_visits={k}")
    # cached fields agree with the route
    visited, pos, cap = _derived(env, s)
    if int(s.position) != pos:
        out.append(f"position-disagrees-with-trajectory: position {int(s.position)}, route ends at {pos}")
    if int(s.capacity) != cap:
        out.append(f"capacity-disagrees-with-trajectory: capacity {int(s.capacity)}, recomputed {cap}")
    if int(s.capacity) < 0 or int(s.capacity) > int(env.max_capacity):
        out.append(f"capacity-out-of-range: {int(s.capacity)}")
    vm = np.asarray(s.visited_mask, bool)
    if not np.array_equal(vm[1:], visited[1:]):
        out.append(f"visited-mask-disagrees-with-trajectory: mask {vm.tolist()} route {route}")
    if bool(vm[0]) != (pos == 0):
        out.append(f"visited-mask-depot-flag: visited_mask[0]={bool(vm[0])} while position is {pos}")
    return out


def check_complete(env: Any, s: Any, ts: Any) -> List[str]:
    n = _n(env)
    route = _route(env, s)
    out = []
    if sorted(v for v in route if v != 0) != list(range(1, n + 1)):
        out.append(f"incomplete-route-at-termination: route {route} does not serve every customer exactly once")
    if not route or route[-1] != 0:
        out.append(f"route-not-closed-at-termination: route {route} does not end at the depot")
    return out


# ---- C08
def objective(env: Any, s: Any, ts: Any) -> float | None:
    n = _n(env)
    route = _route(env, s)
    if not route or route[0] != 0 or any(v < 0 or v > n for v in route):
        return None
    if not set(range(1, n + 1)) <= set(route):
        return None  # not a completed episode (cannot happen under mask-respecting play)
    # the tour starts at the depot and is closed back to it, wherever the episode stopped
    return -_route_len(s.coordinates, route, closed=True)


# ---- C09
def check_step(env: Any, s: Any, a: Any, s2: Any, ts: Any) -> List[str]:
    out = []
    n = _n(env)
    a = int(a)
    if not action_legal(env, s, a):
        return [p.replace("illegal-action", "step-illegal-action") for p in check_illegal(env, s, a, s2, ts)]
    visited, pos, cap = _derived(env, s)
    dem = np.asarray(s.demands).astype(int)
    k = int(s.num_total_visits)
    tr = np.asarray(s.trajectory)
    exp_tr = tr.copy()
    if k < len(tr):
        exp_tr[k] = a
    exp_vis = visited.copy()
    exp_vis[a] = True  # a customer becomes visited; entry 0 is "standing at the depot"
    exp_vis[0] = a == 0
    exp_cap = int(env.max_capacity) if a == 0 else cap - int(dem[a])
    exp = dict(position=a, capacity=exp_cap, visited_mask=exp_vis, trajectory=exp_tr, num_total_visits=k + 1,
               coordinates=np.asarray(s.coordinates), demands=np.asarray(s.demands), key=np.asarray(s.key))
    for f, v in exp.items():
        if not np.array_equal(np.asarray(getattr(s2, f)), np.asarray(v)):
            out.append(f"step-field-{f}: expected {np.asarray(v).tolist()} got {np.asarray(getattr(s2, f)).tolist()}")
    done = bool(exp_vis[1:].all()) and a == 0
    if (int(ts.step_type) == 2) != done:
        out.append(f"step-termination: expected done={done} got step_type={int(ts.step_type)}")
    coords = np.asarray(s.coordinates, np.float64)
    if _sparse(env):
        r = -_route_len(coords, _route(env, s) + [a], closed=True) if done else 0.0
    else:
        r = -_dist(coords, pos, a)
    if not np.isclose(float(ts.reward), r, rtol=1e-5, atol=1e-6):
        out.append(f"step-reward: expected {r:.6f} got {float(ts.reward):.6f}")
    return out


# ---- C12
def check_obs(env: Any, s: Any, obs: Any) -> List[str]:
    out = []
    for f in ("coordinates", "position", "trajectory"):
        if not np.array_equal(np.asarray(getattr(obs, f)), np.asarray(getattr(s, f))):
            out.append(f"obs-{f}: observation field differs from the state")
    cmax = float(env.max_capacity)
    if not np.allclose(np.asarray(obs.demands, np.float64) * cmax, np.asarray(s.demands, np.float64),
                       rtol=1e-5, atol=1e-5):
        out.append(f"obs-demands: {np.asarray(obs.demands).tolist()} is not demands/max_capacity "
                   f"{(np.asarray(s.demands) / cmax).tolist()}")
    visited, pos, cap = _derived(env, s)
    if not np.isclose(float(obs.capacity) * cmax, float(cap), rtol=1e-5, atol=1e-5):
        out.append(f"obs-capacity: {float(obs.capacity)} is not remaining capacity {cap}/max_capacity")
    unv = np.asarray(obs.unvisited_nodes, bool)
    if unv.shape != visited.shape:
        out.append(f"obs-unvisited_nodes-shape: {unv.shape}")
    else:
        if not np.array_equal(unv[1:], ~visited[1:]):
            out.append(f"obs-unvisited_nodes: {unv.tolist()} vs customers served by the route {_route(env, s)}")
        if bool(unv[0]) != (pos != 0):
            out.append(f"obs-unvisited_nodes-depot: depot entry {bool(unv[0])} while position is {pos}")
    m = np.asarray(obs.action_mask, bool)
    lg = legal(env, s)
    if m.shape != lg.shape:
        out.append(f"obs-action_mask-shape: {m.shape} vs {lg.shape}")
    elif not np.array_equal(m, lg):
        out.append(f"obs-action_mask: mask {m.tolist()} vs rules {lg.tolist()}")
    return out
