"""Reference model of Minesweeper, written from docs/environments/minesweeper.md and the class
docstring.

Rules.  The action is (row, col).  Legal <=> the square is unexplored (board == -1).  Exploring a
square reveals only that square: it receives the number of mines among its (up to) 8 neighbours.
Reward (default function, configurable values read from env.reward_function): 1 for a valid action
that does not reveal a mine, 0 for revealing a mine, 0 for an invalid action.  The episode ends <=>
invalid action, or a mine is explored, or the board is solved (every non-mined square explored).
Mines never move; `step_count` counts steps.

Modelling decisions
* The mask is indexed [row, col] and the action is the pair (row, col): `mask_allows` is overridden
  (the generic default would read a 2-row mask as a per-agent mask).
* C05: the docs promise LAST and the invalid-action reward for an invalid action, not an untouched
  state; C09 still predicts the whole successor (re-exploring a square writes the same count, so
  the board is unchanged).
* C07 invariants of a state from which the episode continues: mines distinct, inside the board,
  exactly num_mines; every explored square shows the true neighbour count; no mine is explored;
  #explored == step_count (each continuing step explores one new square).  Conservation across a
  continuing edge: mines unchanged, exactly the chosen square changes from -1 to a count.
* C08: return == r_safe * #explored safe squares + r_mine * #explored mines (default values: the
  number of safe squares revealed), recomputed from board and mine locations; also edge-local as a
  potential.  Only DefaultRewardFn/DefaultDoneFn are modelled (`applies`).
* `key` is not modelled.
"""
from __future__ import annotations

from typing import Any, List, Optional, Tuple

import numpy as np


def applies(pid: str, cfg: Any, env: Any) -> bool:
    if pid == "C12":
        return True
    return type(env.reward_function).__name__ == "DefaultRewardFn" and type(env.done_function).__name__ == "DefaultDoneFn"


def _rewards(env: Any) -> Tuple[float, float, float]:
    rf = env.reward_function
    mine = getattr(rf, "revealed_mine_reward", getattr(rf, "revelead_mine_reward", 0.0))
    return float(rf.revealed_empty_square_reward), float(mine), float(rf.invalid_action_reward)


def _mines(s: Any) -> np.ndarray:
    """bool [R, C]: True where a mine lies (row-major flat index = row * num_cols + col)."""
    R, C = np.asarray(s.board).shape
    m = np.zeros(R * C, bool)
    for f in np.asarray(s.flat_mine_locations).ravel():
        if 0 <= int(f) < R * C:
            m[int(f)] = True
    return m.reshape(R, C)


def _count(mines: np.ndarray, r: int, c: int) -> int:
    R, C = mines.shape
    k = 0
    for dr in (-1, 0, 1):
        for dc in (-1, 0, 1):
            if (dr or dc) and 0 <= r + dr < R and 0 <= c + dc < C and mines[r + dr, c + dc]:
                k += 1
    return k


# ---------------------------------------------------------------------------------- C04
def legal(env: Any, s: Any) -> np.ndarray:
    return np.asarray(s.board) == -1


def action_legal(env: Any, s: Any, a: Any) -> bool:
    return int(np.asarray(s.board)[int(a[0]), int(a[1])]) == -1


def mask_allows(env: Any, mask: np.ndarray, a: Any) -> bool:
    return bool(np.asarray(mask)[int(a[0]), int(a[1])])


def check_reaction(env: Any, s: Any, a: Any, s2: Any, ts: Any, masked_in: bool) -> List[str]:
    """Own reaction: the invalid-action path explores nothing new (#explored unchanged) and ends the
    episode; an accepted action explores one more square."""
    n0 = int((np.asarray(s.board) >= 0).sum())
    n1 = int((np.asarray(s2.board) >= 0).sum())
    invalid_path = (n1 == n0) and int(ts.step_type) == 2
    if masked_in and invalid_path:
        return [f"masked-in-action-punished: square {np.asarray(a).tolist()} is masked-in but nothing was explored "
                "and the episode ended"]
    if not masked_in and not invalid_path:
        return [f"masked-out-action-accepted: square {np.asarray(a).tolist()} is masked-out but the step did not "
                "take the invalid-action path"]
    return []


# ---------------------------------------------------------------------------------- C05
def check_illegal(env: Any, s: Any, a: Any, s2: Any, ts: Any) -> List[str]:
    out = []
    _, _, r_inv = _rewards(env)
    if int(ts.step_type) != 2:
        out.append(f"illegal-action-not-terminal: square {np.asarray(a).tolist()} was already explored; the episode "
                   "must end")
    if not np.isclose(float(ts.reward), r_inv, rtol=1e-5, atol=1e-6):
        out.append(f"illegal-action-reward: got {float(ts.reward)}, documented {r_inv}")
    return out


# ---------------------------------------------------------------------------------- C07
def check_invariants(env: Any, s: Any) -> List[str]:
    out = []
    b = np.asarray(s.board)
    R, C = int(env.num_rows), int(env.num_cols)
    if b.shape != (R, C):
        return [f"board-shape: {b.shape} vs ({R},{C})"]
    loc = np.asarray(s.flat_mine_locations).ravel()
    if len(loc) != int(env.num_mines) or len(set(loc.tolist())) != len(loc):
        out.append(f"mine-count: mine locations {loc.tolist()} are not {int(env.num_mines)} distinct squares")
    if ((loc < 0) | (loc >= R * C)).any():
        out.append(f"mine-outside-board: {loc.tolist()}")
        return out
    mines = _mines(s)
    if ((b < -1) | (b > 8)).any():
        out.append(f"board-value-out-of-range: {b.tolist()}")
    for r, c in np.argwhere(b >= 0):
        if int(b[r, c]) != _count(mines, int(r), int(c)):
            out.append(f"wrong-neighbour-count: square ({r},{c}) shows {int(b[r, c])}, "
                       f"{_count(mines, int(r), int(c))} mines are adjacent")
            break
    if ((b >= 0) & mines).any():
        out.append("explored-mine-in-continuing-state: a mine is revealed but the episode goes on")
    if int((b >= 0).sum()) != int(s.step_count):
        out.append(f"explored-count-vs-step-count: {int((b >= 0).sum())} explored squares after {int(s.step_count)} steps")
    if int(((b >= 0) & ~mines).sum()) == R * C - int(mines.sum()):
        out.append("solved-board-in-continuing-state: every safe square is explored but the episode goes on")
    return out


def check_conservation(env: Any, s: Any, a: Any, s2: Any, ts: Any) -> List[str]:
    out = []
    if not np.array_equal(np.asarray(s.flat_mine_locations), np.asarray(s2.flat_mine_locations)):
        out.append("mines-moved: flat_mine_locations changed during the episode")
    b, b2 = np.asarray(s.board), np.asarray(s2.board)
    ch = np.argwhere(b != b2)
    want = [[int(a[0]), int(a[1])]]
    if ch.tolist() != want or int(b[int(a[0]), int(a[1])]) != -1:
        out.append(f"board-change: a continuing step must reveal exactly the chosen unexplored square {want[0]}; "
                   f"changed squares {ch.tolist()}")
    return out


# ---------------------------------------------------------------------------------- C08
def potential(env: Any, s: Any) -> float:
    r_safe, r_mine, _ = _rewards(env)
    b = np.asarray(s.board)
    mines = _mines(s)
    return r_safe * float(((b >= 0) & ~mines).sum()) + r_mine * float(((b >= 0) & mines).sum())


def objective(env: Any, s: Any, ts: Any) -> Optional[float]:
    return potential(env, s)


# ---------------------------------------------------------------------------------- C09
def check_step(env: Any, s: Any, a: Any, s2: Any, ts: Any) -> List[str]:
    out = []
    r, c = int(a[0]), int(a[1])
    b = np.asarray(s.board)
    mines = _mines(s)
    R, C = b.shape
    valid = int(b[r, c]) == -1
    hit = bool(mines[r, c])
    exp = b.copy()
    exp[r, c] = _count(mines, r, c)
    if not np.array_equal(np.asarray(s2.board), exp):
        out.append(f"step-field-board: exploring ({r},{c}) with mines at {np.argwhere(mines).tolist()} must give "
                   f"{exp.tolist()}, got {np.asarray(s2.board).tolist()}")
    if int(s2.step_count) != int(s.step_count) + 1:
        out.append(f"step-field-step_count: expected {int(s.step_count) + 1} got {int(s2.step_count)}")
    if not np.array_equal(np.asarray(s2.flat_mine_locations), np.asarray(s.flat_mine_locations)):
        out.append("step-field-flat_mine_locations: mines moved")
    r_safe, r_mine, r_inv = _rewards(env)
    rew = r_inv if not valid else (r_mine if hit else r_safe)
    solved = int((exp >= 0).sum()) == R * C - int(len(np.asarray(s.flat_mine_locations).ravel()))
    done = (not valid) or hit or solved
    if not np.isclose(float(ts.reward), rew, rtol=1e-5, atol=1e-6):
        out.append(f"step-reward: valid={valid} mine={hit}: expected {rew} got {float(ts.reward)}")
    if (int(ts.step_type) == 2) != done:
        out.append(f"step-termination: valid={valid} mine={hit} solved={solved}: expected done={done} got "
                   f"step_type={int(ts.step_type)}")
    return out


# ---------------------------------------------------------------------------------- C12
def check_obs(env: Any, s: Any, obs: Any) -> List[str]:
    out = []
    if not np.array_equal(np.asarray(obs.board), np.asarray(s.board)):
        out.append("obs-board: observation board differs from the state board")
    if not np.array_equal(np.asarray(obs.action_mask, bool), np.asarray(s.board) == -1):
        out.append("obs-action_mask: mask is not the set of unexplored squares")
    if int(obs.num_mines) != int(len(np.asarray(s.flat_mine_locations).ravel())):
        out.append(f"obs-num_mines: {int(obs.num_mines)} vs {len(np.asarray(s.flat_mine_locations).ravel())} mines in the state")
    if int(obs.step_count) != int(s.step_count):
        out.append(f"obs-step_count: {int(obs.step_count)} vs state {int(s.step_count)}")
    return out
