"""Reference model of Knapsack, written from docs/environments/knapsack.md and the class docstring.

Rules: action = index of the item to pack.  An item is legal <=> it has not been packed yet and its
weight is <= the remaining budget ("the total weight is less than or equal to a given limit").  A
legal action packs the item (packed_items[a] := True, remaining budget -= weight).  An invalid action
("an item that was previously selected is selected again or has a weight larger than the bag
capacity") leaves the problem state untouched, ends the episode and gives reward 0.  The episode also
ends when no further item can be added (all packed or every remaining item is too heavy).  Dense
reward: the value of the item packed at this step.  Sparse reward: the sum of the values of the packed
items on the last (legal) step, 0 before.
State fields compared: weights, values, packed_items, remaining_budget (all problem fields; `key` too
on the invalid-action path, where the whole state must be untouched).

Modelling decisions
* The remaining budget is *recomputed* in float64 as total_budget - sum(weights[packed]) from the raw
  arrays; `remaining_budget` is never trusted (its agreement with the recomputation is itself checked
  by C06 `budget-field-disagrees` and C09 `step-field-remaining_budget`).
* Float ties: the implementation subtracts float32 weights one at a time, the reference sums in
  float64 (exact for these inputs).  If the state's `remaining_budget` equals the exact recomputation
  bit for bit, no rounding has happened and "weight <= budget" is judged exactly (so an item whose
  weight equals the remaining budget IS legal - this is what exposes a `<` for `<=` slip on the
  injected grid instances).  Otherwise, when |weight - remaining budget| <= TIE (1e-5) the rules do not
  decide which side the float32 rounding falls on; such an entry is "don't care" for C04 (care array),
  is treated as legal by action_legal (so C05 says nothing about it) and C09 accepts either documented
  outcome.  With uniform random weights this practically never happens.
* C08 objective = sum of the values of the packed items of the final state.  Under mask-respecting
  play every episode ends because nothing fits any more, which is the documented completion.
"""
from __future__ import annotations

from typing import Any, List

import numpy as np

TIE = 1e-5
_FIELDS = ("weights", "values", "packed_items", "remaining_budget")


def _budget(env: Any, s: Any) -> float:
    """Remaining budget recomputed from the raw arrays (float64)."""
    w = np.asarray(s.weights, np.float64)
    p = np.asarray(s.packed_items, bool)
    return float(env.total_budget) - float(w[p].sum())


def _sparse(env: Any) -> bool:
    return type(env.reward_fn).__name__ == "SparseReward"


def _fits(w: np.ndarray, p: np.ndarray, b: float, field: float):
    """(legal, care) for packed set p, exact remaining budget b and the state's float32 bookkeeping."""
    legal = ~p & (w <= b)
    care = p | (np.abs(w - b) > TIE) | (float(field) == b)
    return legal, care


def _legal_care(env: Any, s: Any):
    w = np.asarray(s.weights, np.float64)
    p = np.asarray(s.packed_items, bool)
    return _fits(w, p, _budget(env, s), float(s.remaining_budget))


# ---- C04
def legal(env: Any, s: Any):
    return _legal_care(env, s)


def action_legal(env: Any, s: Any, a: Any) -> bool:
    lg, care = _legal_care(env, s)
    a = int(a)
    return bool(lg[a]) or not bool(care[a])


def _took_invalid_path(s: Any, s2: Any, ts: Any) -> bool:
    return int(ts.step_type) == 2 and float(ts.reward) == 0.0 and np.array_equal(
        np.asarray(s.packed_items), np.asarray(s2.packed_items))


def check_reaction(env: Any, s: Any, a: Any, s2: Any, ts: Any, masked_in: bool) -> List[str]:
    a = int(a)
    packed_now = bool(np.asarray(s2.packed_items)[a]) and not bool(np.asarray(s.packed_items)[a])
    if masked_in and not packed_now:
        return [f"masked-in-action-punished: item {a} is masked-in but the step did not pack it"]
    if not masked_in and (packed_now or not _took_invalid_path(s, s2, ts)):
        return [f"masked-out-action-accepted: item {a} is masked-out but the step did not take the invalid-action "
                f"path (packed={packed_now}, step_type={int(ts.step_type)}, reward={float(ts.reward)})"]
    return []


# ---- C05
def check_illegal(env: Any, s: Any, a: Any, s2: Any, ts: Any) -> List[str]:
    out = []
    if int(ts.step_type) != 2:
        out.append("illegal-action-not-terminal: packing a packed / too heavy item must end the episode")
    if float(ts.reward) != 0.0:
        out.append(f"illegal-action-reward: got {float(ts.reward)}, documented reward 0")
    for f in _FIELDS + ("key",):
        if not np.array_equal(np.asarray(getattr(s, f)), np.asarray(getattr(s2, f))):
            out.append(f"illegal-action-changes-state: field {f} changed on an invalid action")
    return out


# ---- C06
def check_constraints(env: Any, s: Any) -> List[str]:
    out = []
    w = np.asarray(s.weights, np.float64)
    p = np.asarray(s.packed_items, bool)
    total = float(w[p].sum())
    if total > float(env.total_budget) + TIE:
        out.append(f"over-budget: packed weight {total:.6f} > budget {float(env.total_budget)}")
    b = _budget(env, s)
    if abs(float(s.remaining_budget) - b) > TIE * max(1.0, float(env.total_budget)):
        out.append(f"budget-field-disagrees: remaining_budget {float(s.remaining_budget):.6f}, recomputed {b:.6f}")
    if (w < 0).any():
        out.append("negative-weight: an item has a negative weight")
    return out


def check_complete(env: Any, s: Any, ts: Any) -> List[str]:
    """A mask-respecting episode ends by completion: the packing is feasible and maximal."""
    lg, care = _legal_care(env, s)
    if (lg & care).any():
        return [f"terminated-while-item-fits: items {np.nonzero(lg & care)[0].tolist()} still fit "
                f"(budget left {_budget(env, s):.6f})"]
    return []


# ---- C08
def objective(env: Any, s: Any, ts: Any) -> float | None:
    v = np.asarray(s.values, np.float64)
    p = np.asarray(s.packed_items, bool)
    return float(v[p].sum())


# ---- C09
def check_step(env: Any, s: Any, a: Any, s2: Any, ts: Any) -> List[str]:
    a = int(a)
    lg, care = _legal_care(env, s)
    if not care[a]:
        # float tie on "fits": either documented outcome is acceptable
        as_illegal = check_illegal(env, s, a, s2, ts)
        if not as_illegal:
            return []
        return _check_legal_step(env, s, a, s2, ts)
    if not lg[a]:
        return [p.replace("illegal-action", "step-illegal-action") for p in check_illegal(env, s, a, s2, ts)]
    return _check_legal_step(env, s, a, s2, ts)


def _check_legal_step(env: Any, s: Any, a: int, s2: Any, ts: Any) -> List[str]:
    out = []
    w = np.asarray(s.weights, np.float64)
    v = np.asarray(s.values, np.float64)
    exp_p = np.asarray(s.packed_items, bool).copy()
    exp_p[a] = True
    if not np.array_equal(np.asarray(s2.packed_items, bool), exp_p):
        out.append(f"step-field-packed_items: expected {exp_p.tolist()} got {np.asarray(s2.packed_items).tolist()}")
    for f in ("weights", "values", "key"):
        if not np.array_equal(np.asarray(getattr(s, f)), np.asarray(getattr(s2, f))):
            out.append(f"step-field-{f}: instance data changed during a step")
    exp_b = float(env.total_budget) - float(w[exp_p].sum())
    if abs(float(s2.remaining_budget) - exp_b) > TIE * max(1.0, float(env.total_budget)):
        out.append(f"step-field-remaining_budget: expected {exp_b:.6f} got {float(s2.remaining_budget):.6f}")
    # termination: nothing fits any more (ties on "fits" are left undecided)
    fits, sure = _fits(w, exp_p, exp_b, float(s2.remaining_budget))
    got_done = int(ts.step_type) == 2
    if (fits & sure).any() and got_done:
        out.append(f"step-termination: episode ended although items {np.nonzero(fits & sure)[0].tolist()} still fit")
    if not (fits | ~sure).any() and not got_done:
        out.append("step-termination: episode continues although no item can be added")
    # reward
    if _sparse(env):
        r = float(v[exp_p].sum()) if got_done else 0.0
    else:
        r = float(v[a])
    if not np.isclose(float(ts.reward), r, rtol=1e-5, atol=1e-6):
        out.append(f"step-reward: expected {r:.6f} got {float(ts.reward):.6f}")
    return out


# ---- C12
def check_obs(env: Any, s: Any, obs: Any) -> List[str]:
    out = []
    for f in ("weights", "values", "packed_items"):
        if not np.array_equal(np.asarray(getattr(obs, f)), np.asarray(getattr(s, f))):
            out.append(f"obs-{f}: observation field differs from the state")
    lg, care = _legal_care(env, s)
    m = np.asarray(obs.action_mask, bool)
    if m.shape != lg.shape:
        out.append(f"obs-action_mask-shape: {m.shape} vs {lg.shape}")
    elif ((m != lg) & care).any():
        out.append(f"obs-action_mask: mask {m.tolist()} is not 'unpacked and fits' {lg.tolist()}")
    return out
