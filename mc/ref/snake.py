"""Reference model of Snake, written from docs/environments/snake.md, the class docstring and
DESIGN.md Appendix C.

Rules: the board has num_rows x num_cols cells, positions are (row, col), (0, 0) top left.  The snake
is an ordered chain of `length` cells; `body_state` numbers them 1 (tail) .. length (head), 0 on free
cells; `body` = body_state > 0, `tail` = body_state == 1, `head_position` = the cell numbered length.
Actions 0 up (row-1), 1 right (col+1), 2 down (row+1), 3 left (col-1) move the head by one cell.
A move is legal iff the new head cell is on the board and is not a body cell once the tail has
advanced (so the cell currently holding the tail is enterable; the fruit is never on the body, hence
the tail always advances when the destination is a body cell).
Legal move onto the fruit: the snake grows by one (nothing else moves, the new head gets number
length+1), reward 1, and a new fruit appears on a cell that is not part of the snake (environment
answer; only its admissibility is checked).  Legal move elsewhere: every body number decreases by
one (the tail cell becomes free), the new head gets number `length`, reward 0, fruit unchanged.
Illegal move (leaves the board or bumps into the body): the episode ends, reward 0.
LAST iff the action was illegal, or the snake fills the whole board, or step_count >= time_limit.
Observation: grid[..., 0] body, [..., 1] head, [..., 2] tail, [..., 3] fruit (0/1 maps) and
[..., 4] body_state normalised to [0, 1] ("a float between 0. and 1. for each body cell in the
decreasing order from head to tail": body number / length, head = 1); step_count and action_mask are
copies of the state fields.

Modelling decisions
* Legality is recomputed from `body_state` and `head_position`; the cached `state.action_mask` is
  not trusted.
* The class docstring also lists "if no action can be performed, i.e. the snake is surrounded" under
  episode termination.  DESIGN.md Appendix C reads it as "every action is then invalid, so the next
  step ends the episode" (LAST <=> illegal v board full v time limit); that reading is followed and the
  surrounded-but-MID step is not reported.
* After an illegal move the docs define only LAST and reward 0; the successor's position fields are
  unspecified (the head may be outside the board) and are not compared.  C12 on such a terminal
  state compares the planes that remain well defined (body, tail, fruit copies, head if on the board)
  and normalises plane 4 by the largest body number present.
* When the last free cell is eaten there is no admissible fruit cell; the new fruit position is then
  unspecified and not checked.
* `key` (split every step) and the cached `state.action_mask` are not compared in C09.
* C08: objective = fruits eaten = length - 1 (the snake starts with length 1); potential = length.
"""
from __future__ import annotations

from typing import Any, List, Optional, Tuple

import numpy as np

MOVES = ((-1, 0), (0, 1), (1, 0), (0, -1))  # up, right, down, left
NAMES = ("up", "right", "down", "left")


def _shape(env: Any) -> Tuple[int, int]:
    return int(env.num_rows), int(env.num_cols)


def _pos(p: Any) -> Tuple[int, int]:
    return int(p.row), int(p.col)


def _inside(env: Any, r: int, c: int) -> bool:
    R, C = _shape(env)
    return 0 <= r < R and 0 <= c < C


def _move_legal(env: Any, bs: np.ndarray, head: Tuple[int, int], k: int) -> bool:
    r, c = head[0] + MOVES[k][0], head[1] + MOVES[k][1]
    if not _inside(env, r, c):
        return False
    # body cells after the tail has advanced are those numbered >= 2
    return int(bs[r, c]) <= 1


# ---- C04
def legal(env: Any, s: Any) -> np.ndarray:
    bs = np.asarray(s.body_state)
    head = _pos(s.head_position)
    return np.array([_move_legal(env, bs, head, k) for k in range(4)], bool)


def action_legal(env: Any, s: Any, a: Any) -> bool:
    return _move_legal(env, np.asarray(s.body_state), _pos(s.head_position), int(a))


def check_reaction(env: Any, s: Any, a: Any, s2: Any, ts: Any, masked_in: bool) -> List[str]:
    """Invalid-action path of a terminate-on-invalid environment: LAST.  A masked-in action may also
    be LAST for the documented other reasons (board full, time limit)."""
    last = int(ts.step_type) == 2
    if not masked_in and not last:
        return [f"masked-out-action-accepted: {NAMES[int(a)]} is masked-out but the step is not LAST"]
    if masked_in and last:
        R, C = _shape(env)
        full = int((np.asarray(s2.body_state) > 0).sum()) == R * C
        timeup = int(s.step_count) + 1 >= int(env.time_limit)
        if not full and not timeup:
            return [f"masked-in-action-punished: {NAMES[int(a)]} is masked-in but the step is LAST without the board "
                    "being full or the time limit being reached"]
    return []


# ---- C05
def check_illegal(env: Any, s: Any, a: Any, s2: Any, ts: Any) -> List[str]:
    out = []
    if int(ts.step_type) != 2:
        out.append(f"illegal-action-not-terminal: move {NAMES[int(a)]} from {_pos(s.head_position)} leaves the board or "
                   "bumps into the body but the step is not LAST")
    if not np.isclose(float(ts.reward), 0.0):
        out.append(f"illegal-action-reward: got {float(ts.reward)}, documented 0")
    return out


# ---- C07
def _chain(env: Any, s: Any) -> Tuple[List[str], Optional[List[Tuple[int, int]]]]:
    """Problems of the body encoding and, if it is a proper numbering, the cells tail..head."""
    out: List[str] = []
    R, C = _shape(env)
    bs = np.asarray(s.body_state)
    if bs.shape != (R, C):
        return [f"body-state-shape: {bs.shape} vs ({R}, {C})"], None
    n = int(s.length)
    vals = np.sort(bs[bs != 0].ravel()).tolist()
    if n < 1 or vals != list(range(1, n + 1)):
        out.append(f"body-not-numbered-1-to-length: length={n}, non-zero body numbers {vals}")
        return out, None
    cells = [tuple(int(x) for x in np.argwhere(bs == i)[0]) for i in range(1, n + 1)]
    for i in range(n - 1):
        (r, c), (r2, c2) = cells[i], cells[i + 1]
        if abs(r - r2) + abs(c - c2) != 1:
            out.append(f"body-not-a-chain: cells numbered {i + 1} at {cells[i]} and {i + 2} at {cells[i + 1]} are "
                       "not 4-adjacent")
            break
    return out, cells


def check_invariants(env: Any, s: Any) -> List[str]:
    out, cells = _chain(env, s)
    R, C = _shape(env)
    bs = np.asarray(s.body_state)
    if bs.shape != (R, C):
        return out
    head = _pos(s.head_position)
    if not _inside(env, *head):
        out.append(f"head-out-of-bounds: head at {head} on a {R}x{C} board")
    elif cells is not None and cells[-1] != head:
        out.append(f"head-disagrees-with-body-state: head_position {head}, cell numbered length is {cells[-1]}")
    if not np.array_equal(np.asarray(s.body, bool), bs > 0):
        out.append("body-disagrees-with-body-state: body != (body_state > 0)")
    if not np.array_equal(np.asarray(s.tail, bool), bs == 1):
        out.append("tail-disagrees-with-body-state: tail != (body_state == 1)")
    fruit = _pos(s.fruit_position)
    if not _inside(env, *fruit):
        out.append(f"fruit-out-of-bounds: fruit at {fruit} on a {R}x{C} board")
    elif bs[fruit] > 0 and int((bs > 0).sum()) < R * C:
        out.append(f"fruit-on-snake: fruit at {fruit} is a body cell (number {int(bs[fruit])})")
    return out


def check_conservation(env: Any, s: Any, a: Any, s2: Any, ts: Any) -> List[str]:
    out = []
    d = int(s2.length) - int(s.length)
    if d not in (0, 1):
        out.append(f"length-jump: length {int(s.length)} -> {int(s2.length)} in one step")
    elif not np.isclose(float(ts.reward), float(d)):
        out.append(f"growth-disagrees-with-reward: length grew by {d}, reward {float(ts.reward)}")
    if d == 0 and _pos(s.fruit_position) != _pos(s2.fruit_position):
        out.append(f"fruit-moved-without-being-eaten: {_pos(s.fruit_position)} -> {_pos(s2.fruit_position)}")
    if int(s2.step_count) != int(s.step_count) + 1:
        out.append(f"step-count-not-incremented: {int(s.step_count)} -> {int(s2.step_count)}")
    return out


# ---- C08
def potential(env: Any, s: Any) -> float:
    return float(int(s.length))


def objective(env: Any, s: Any, ts: Any) -> float:
    return float(int(s.length) - 1)


# ---- C09
def check_step(env: Any, s: Any, a: Any, s2: Any, ts: Any) -> List[str]:
    a = int(a)
    if not action_legal(env, s, a):
        return [p.replace("illegal-action", "step-illegal-action") for p in check_illegal(env, s, a, s2, ts)]
    out = []
    R, C = _shape(env)
    bs = np.asarray(s.body_state).astype(np.int64)
    n = int(s.length)
    head = _pos(s.head_position)
    new_head = (head[0] + MOVES[a][0], head[1] + MOVES[a][1])
    eaten = new_head == _pos(s.fruit_position)
    if eaten:
        exp = bs.copy()
        n2 = n + 1
    else:
        exp = np.maximum(bs - 1, 0)
        n2 = n
    exp[new_head] = n2
    got = np.asarray(s2.body_state)
    if not np.array_equal(got, exp):
        out.append(f"step-field-body_state: expected {exp.tolist()} got {got.tolist()} (head {head}, action {NAMES[a]}, "
                   f"fruit {_pos(s.fruit_position)})")
    if not np.array_equal(np.asarray(s2.body, bool), exp > 0):
        out.append("step-field-body: body is not the set of numbered cells of the predicted snake")
    if not np.array_equal(np.asarray(s2.tail, bool), exp == 1):
        out.append("step-field-tail: tail is not the cell numbered 1 of the predicted snake")
    if _pos(s2.head_position) != new_head:
        out.append(f"step-field-head_position: expected {new_head} got {_pos(s2.head_position)}")
    if int(s2.length) != n2:
        out.append(f"step-field-length: expected {n2} got {int(s2.length)}")
    k = int(s.step_count) + 1
    if int(s2.step_count) != k:
        out.append(f"step-field-step_count: expected {k} got {int(s2.step_count)}")
    full = int((exp > 0).sum()) == R * C
    f2 = _pos(s2.fruit_position)
    if not eaten:
        if f2 != _pos(s.fruit_position):
            out.append(f"step-field-fruit_position: fruit moved {_pos(s.fruit_position)} -> {f2} without being eaten")
    elif not full:
        if not _inside(env, *f2):
            out.append(f"step-new-fruit-inadmissible: new fruit at {f2} is outside the board")
        elif exp[f2] > 0:
            out.append(f"step-new-fruit-inadmissible: new fruit at {f2} is on the snake")
    done = full or k >= int(env.time_limit)
    if (int(ts.step_type) == 2) != done:
        out.append(f"step-termination: expected done={done} (board full={full}, step {k}/{int(env.time_limit)}) got "
                   f"step_type={int(ts.step_type)}")
    want = 1.0 if eaten else 0.0
    if not np.isclose(float(ts.reward), want):
        out.append(f"step-reward: expected {want} got {float(ts.reward)}")
    return out


# ---- C12
def _one_hot(env: Any, p: Tuple[int, int]) -> np.ndarray:
    m = np.zeros(_shape(env), np.float64)
    m[p] = 1.0
    return m


def check_obs(env: Any, s: Any, obs: Any) -> List[str]:
    out = []
    R, C = _shape(env)
    g = np.asarray(obs.grid)
    if g.shape != (R, C, 5):
        return [f"obs-grid-shape: {g.shape} vs ({R}, {C}, 5)"]
    g = g.astype(np.float64)
    bs = np.asarray(s.body_state).astype(np.float64)
    if not np.array_equal(g[..., 0], np.asarray(s.body).astype(np.float64)):
        out.append("obs-plane-body: plane 0 differs from the body map of the state")
    head = _pos(s.head_position)
    if _inside(env, *head) and not np.array_equal(g[..., 1], _one_hot(env, head)):
        out.append(f"obs-plane-head: plane 1 is not the one-hot map of the head {head}")
    if not np.array_equal(g[..., 2], np.asarray(s.tail).astype(np.float64)):
        out.append("obs-plane-tail: plane 2 differs from the tail map of the state")
    fruit = _pos(s.fruit_position)
    if _inside(env, *fruit) and not np.array_equal(g[..., 3], _one_hot(env, fruit)):
        out.append(f"obs-plane-fruit: plane 3 is not the one-hot map of the fruit {fruit}")
    n = int(s.length)
    well_formed = n >= 1 and bs.max(initial=0.0) == n
    denom = float(n) if well_formed else max(1.0, float(bs.max(initial=0.0)))
    if not np.allclose(g[..., 4], bs / denom, rtol=1e-5, atol=1e-6):
        out.append(f"obs-plane-body-order: plane 4 is not body_state / {denom:g}")
    if (g < 0).any() or (g > 1).any():
        out.append(f"obs-grid-range: values outside [0, 1] (min {g.min()}, max {g.max()})")
    if int(obs.step_count) != int(s.step_count):
        out.append(f"obs-step_count: {int(obs.step_count)} vs state {int(s.step_count)}")
    if not np.array_equal(np.asarray(obs.action_mask, bool), np.asarray(s.action_mask, bool)):
        out.append("obs-action_mask: observation mask differs from the mask kept in the state")
    return out
