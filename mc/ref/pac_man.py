"""Reference model of PacMan (C04, C05, C07, C12), written from docs/environments/pac_man.md, the
class docstring of jumanji/environments/routing/pac_man/env.py and DESIGN.md Appendix C.

Coordinate conventions (established from generator.py / types.py, confirmed by probes)
    * The maze is the ASCII picture `env.generator.maze`: line r, character c; 'X' is a wall.  The
      array `state.grid[r, c]` is 1 on FREE cells and 0 on walls (the doc page prints the opposite
      legend; the grid is a copied field, so this is not judged here).
    * `player_locations` is a `Position(x, y)` with x = ROW and y = COLUMN  (grid[pos.x, pos.y]).
    * `ghost_locations`, `pellet_locations`, `power_up_locations`, `initial_ghost_positions`,
      `scatter_targets` store (COLUMN, ROW) pairs, i.e. the other way round.
    * An eaten pellet / power-up is encoded by overwriting its row with (0, 0); (0, 0) is a wall cell
      of every maze with a closed top-left corner (the default one), so "remaining" = rows != (0, 0).
      If cell (0, 0) is free the encoding is ambiguous and the count test is relaxed by one.

Rules
    actions 0 row-1 (up), 1 col-1 (left), 2 row+1 (down), 3 col+1 (right), 4 no-op; coordinates wrap
    around (tunnel).  A move whose destination is a wall is ignored: the player stands still ("a
    no-op is performed and the agent's position remains unchanged").  The player eats the pellet /
    power-up of the cell it occupies after the step (+10; power-up: frightened time := 30, otherwise
    the timer counts down by one).  Touching a ghost while not frightened kills the player.
    LAST <=> dead or no pellets left or step_count >= time_limit.

Modelling decisions
    * C04: legal(move) <=> destination (with wrap-around) is not a wall.  The no-op entry of the mask
      is constantly False in the code while the docs list no-op as an action: entry 4 is excluded
      (care[4] = False) and a no-op is never counted as an illegal action (C05).
    * Reward sizes are not compared (PacMan is in neither C08 nor C09; docs promise 20 for a power
      pellet, the code pays 50 - both are admitted).  C05 only demands that an ignored move earns
      what standing still earns: 10 iff a pellet lies under the player, the power-up amount iff a
      power-up lies under it, and 200 per ghost only while the frightened timer runs.
    * Ghost moves, deaths and ghost-eating are environment answers; they are checked for
      admissibility only (in the maze, off walls, one cell per step or back to the spawn cell).
    * `frightened_state_time` keeps counting below zero in the implementation (0, -1, -2, ...).  The
      docs call it "number of steps left of the scatter state" and declare no lower bound in the spec;
      only `<= 30` and the count-down/re-arm law are demanded, negative values are read as "not
      frightened".
    * Fields not compared: visited_index, last_direction, ghost_init_*, ghost_starts, ghost_actions,
      old_ghost_locations, ghost_eaten, key (viewer / ghost-AI bookkeeping).
    * A non-terminal state reached from a non-frightened state must not have the player on a ghost
      cell ("without touching any of the ghosts"); while frightened an eaten ghost is put back on its
      spawn cell, which may be the player's cell, so nothing is demanded then.

`corridor_states(env, state0)` builds the position-injection roots (see its docstring).
"""
from __future__ import annotations

from typing import Any, Dict, List, Tuple

import numpy as np

_DR = (-1, 0, 1, 0, 0)
_DC = (0, -1, 0, 1, 0)
_SCATTER = 30
_CACHE: Dict[int, Dict[str, Any]] = {}


def _info(env: Any, s: Any = None) -> Dict[str, Any]:
    c = _CACHE.get(id(env))
    if c is None:
        maze = getattr(getattr(env, "generator", None), "maze", None)
        if maze is not None:
            wall = np.array([[ch == "X" for ch in line] for line in maze], bool)
        elif s is not None:
            wall = np.asarray(s.grid) == 0
        else:
            raise ValueError("cannot derive the maze")
        c = dict(wall=wall, R=wall.shape[0], C=wall.shape[1], origin_is_wall=bool(wall[0, 0]),
                 T=int(env.time_limit), env=env)
        _CACHE[id(env)] = c
    return c


def _player(s: Any) -> Tuple[int, int]:
    """(row, col) of the player."""
    return int(s.player_locations.x), int(s.player_locations.y)


def _dest(info: Dict[str, Any], r: int, c: int, a: int) -> Tuple[int, int]:
    return (r + _DR[a]) % info["R"], (c + _DC[a]) % info["C"]


def _is_wall(info: Dict[str, Any], r: int, c: int) -> bool:
    return bool(info["wall"][r, c])


def _remaining(rows: Any) -> np.ndarray:
    """bool per row: the pellet / power-up is still on the map (row != (0, 0))."""
    return (np.asarray(rows) != 0).any(axis=-1)


# ------------------------------------------------------------------------------------------ C04
def legal(env: Any, s: Any) -> Tuple[np.ndarray, np.ndarray]:
    info = _info(env, s)
    r, c = _player(s)
    out = np.zeros(5, bool)
    for a in range(4):
        out[a] = not _is_wall(info, *_dest(info, r, c, a))
    out[4] = True
    care = np.array([True, True, True, True, False])
    return out, care


def action_legal(env: Any, s: Any, a: Any) -> bool:
    a = int(a)
    if a == 4:
        return True
    return bool(legal(env, s)[0][a])


def mask_allows(env: Any, mask: np.ndarray, a: Any) -> bool:
    return bool(np.asarray(mask)[int(a)])


def check_reaction(env: Any, s: Any, a: Any, s2: Any, ts: Any, masked_in: bool) -> List[str]:
    a = int(a)
    if a == 4:
        return []
    info = _info(env, s)
    r, c = _player(s)
    d = _dest(info, r, c, a)
    if d == (r, c):
        return []
    now = _player(s2)
    if masked_in and now != d:
        return [f"masked-in-move-ignored: move {a} from {(r, c)} is masked-in but the player is at {now}, not {d}"]
    if not masked_in and now != (r, c):
        return [f"masked-out-move-executed: move {a} from {(r, c)} is masked-out but the player moved to {now}"]
    return []


# ------------------------------------------------------------------------------------------ shared
def _eaten_only_under(kind: str, before: Any, after: Any, cell_cr: Tuple[int, int], prefix: str) -> Tuple[List[str], int]:
    """Rows of a (col,row) table may only change by being zeroed, and only the row(s) of `cell_cr`."""
    out: List[str] = []
    b = np.asarray(before)
    a2 = np.asarray(after)
    if b.shape != a2.shape:
        return [f"{prefix}{kind}-table-shape: {b.shape} -> {a2.shape}"], 0
    changed = np.nonzero((b != a2).any(axis=-1))[0]
    n = 0
    for k in changed:
        if (a2[k] != 0).any():
            out.append(f"{prefix}{kind}-relocated: row {int(k)} {b[k].tolist()} -> {a2[k].tolist()}")
        elif (int(b[k][0]), int(b[k][1])) != cell_cr:
            out.append(f"{prefix}{kind}-eaten-elsewhere: {kind} at (col,row) {b[k].tolist()} vanished while the "
                       f"player is at (col,row) {list(cell_cr)}")
        else:
            n += 1
    return out, n


def _terminal_cause(info: Dict[str, Any], s2: Any) -> bool:
    return bool(np.asarray(s2.dead)) or int(s2.pellets) == 0 or int(s2.step_count) >= info["T"]


# ------------------------------------------------------------------------------------------ C05
def check_illegal(env: Any, s: Any, a: Any, s2: Any, ts: Any) -> List[str]:
    info = _info(env, s)
    out: List[str] = []
    r, c = _player(s)
    if _player(s2) != (r, c):
        out.append(f"wall-move-moves-player: move {int(a)} into a wall took the player from {(r, c)} to {_player(s2)}")
    own = (c, r)
    p1, n_pel = _eaten_only_under("pellet", s.pellet_locations, s2.pellet_locations, own, "wall-move-")
    p2, n_pow = _eaten_only_under("power-up", s.power_up_locations, s2.power_up_locations, own, "wall-move-")
    out += p1 + p2
    if int(s2.pellets) != int(s.pellets) - n_pel:
        out.append(f"wall-move-pellet-count: pellets {int(s.pellets)} -> {int(s2.pellets)} with {n_pel} pellet(s) "
                   "removed from the table")
    if not np.array_equal(np.asarray(s.grid), np.asarray(s2.grid)):
        out.append("wall-move-changes-grid: the maze changed")
    if int(s2.step_count) != int(s.step_count) + 1:
        out.append(f"wall-move-step-count: {int(s.step_count)} -> {int(s2.step_count)}")
    # what standing still earns
    under_pel = bool((np.asarray(s.pellet_locations) == np.array(own)).all(axis=-1).any()) and own != (0, 0)
    under_pow = bool((np.asarray(s.power_up_locations) == np.array(own)).all(axis=-1).any()) and own != (0, 0)
    rew = float(np.asarray(ts.reward))
    ok = False
    for pw in (20.0, 50.0):
        rest = rew - 10.0 * under_pel - pw * under_pow
        ghosts = (0, 1, 2, 3, 4) if int(s.frightened_state_time) > 0 else (0,)
        if any(abs(rest - 200.0 * g) < 1e-4 for g in ghosts):
            ok = True
    if not ok:
        out.append(f"wall-move-reward: reward {rew} for a move into a wall; standing still on a cell with "
                   f"pellet={under_pel} power-up={under_pow} frightened={int(s.frightened_state_time)} cannot earn that")
    if int(ts.step_type) == 2 and not _terminal_cause(info, s2):
        out.append("wall-move-terminates: LAST after an ignored move without death, last pellet or time limit")
    return out


# ------------------------------------------------------------------------------------------ C07
def check_invariants(env: Any, s: Any) -> List[str]:
    info = _info(env, s)
    out: List[str] = []
    R, C, wall = info["R"], info["C"], info["wall"]
    g = np.asarray(s.grid)
    if g.shape != (R, C) or not np.array_equal(g == 0, wall) or not np.isin(g, (0, 1)).all():
        out.append("grid-differs-from-maze: state.grid is not the 0/1 encoding of the maze walls")
    r, c = _player(s)
    if not (0 <= r < R and 0 <= c < C):
        out.append(f"player-outside-grid: (row,col)=({r},{c}) in a {R}x{C} maze")
    elif wall[r, c]:
        out.append(f"player-inside-wall: (row,col)=({r},{c})")
    gl = np.asarray(s.ghost_locations)
    if gl.shape != (4, 2):
        out.append(f"ghost-table-shape: {gl.shape}")
    else:
        for k in range(4):
            gc, gr = int(gl[k, 0]), int(gl[k, 1])
            if not (0 <= gr < R and 0 <= gc < C):
                out.append(f"ghost-outside-grid: ghost {k} at (col,row)=({gc},{gr})")
            elif wall[gr, gc]:
                out.append(f"ghost-inside-wall: ghost {k} at (col,row)=({gc},{gr})")
    for kind, tab in (("pellet", s.pellet_locations), ("power-up", s.power_up_locations)):
        t = np.asarray(tab)
        rem = t[_remaining(t)]
        cells = [(int(x[1]), int(x[0])) for x in rem]
        bad = [rc for rc in cells if not (0 <= rc[0] < R and 0 <= rc[1] < C) or wall[rc[0], rc[1]]]
        if bad:
            out.append(f"{kind}-off-corridor: remaining {kind}(s) at (row,col) {bad[:4]} outside the grid or in a wall")
        if len(set(cells)) != len(cells):
            out.append(f"{kind}-duplicated: two remaining {kind}s share a cell")
    n_rem = int(_remaining(s.pellet_locations).sum())
    n = int(s.pellets)
    if not (n == n_rem or (not info["origin_is_wall"] and n == n_rem + 1)):
        out.append(f"pellet-count-mismatch: pellets={n} but {n_rem} pellet locations remain")
    if n < 0:
        out.append(f"pellet-count-negative: {n}")
    if int(s.frightened_state_time) > _SCATTER:
        out.append(f"frightened-time-above-30: {int(s.frightened_state_time)}")
    if bool(np.asarray(s.dead)):
        out.append("dead-in-continuing-state: dead is set in a state from which the episode continues")
    if n == 0 and int(s.step_count) > 0:
        out.append("no-pellets-in-continuing-state: all pellets eaten but the episode continues")
    return out


def _torus_step(info: Dict[str, Any], p: Tuple[int, int], q: Tuple[int, int]) -> bool:
    """q is p or one of its four neighbours (row, col) with wrap-around."""
    R, C = info["R"], info["C"]
    dr = min((p[0] - q[0]) % R, (q[0] - p[0]) % R)
    dc = min((p[1] - q[1]) % C, (q[1] - p[1]) % C)
    return dr + dc <= 1


def check_conservation(env: Any, s: Any, a: Any, s2: Any, ts: Any) -> List[str]:
    info = _info(env, s)
    out: List[str] = []
    p, q = _player(s), _player(s2)
    if not _torus_step(info, p, q):
        out.append(f"player-jumps: {p} -> {q} in one step")
    own = (q[1], q[0])
    p1, n_pel = _eaten_only_under("pellet", s.pellet_locations, s2.pellet_locations, own, "")
    p2, n_pow = _eaten_only_under("power-up", s.power_up_locations, s2.power_up_locations, own, "")
    out += p1 + p2
    if int(s2.pellets) > int(s.pellets):
        out.append(f"pellet-count-increases: {int(s.pellets)} -> {int(s2.pellets)}")
    if int(s2.pellets) != int(s.pellets) - n_pel:
        out.append(f"pellet-count-not-conserved: pellets {int(s.pellets)} -> {int(s2.pellets)} while {n_pel} "
                   "pellet(s) left the table")
    if own != (0, 0):
        for kind, tab in (("pellet", s2.pellet_locations), ("power-up", s2.power_up_locations)):
            if (np.asarray(tab) == np.array(own)).all(axis=-1).any():
                out.append(f"{kind}-survives-under-player: a {kind} is still at the player's cell (row,col) {q}")
    if not np.array_equal(np.asarray(s.grid), np.asarray(s2.grid)):
        out.append("grid-changes: the maze changed during a step")
    if int(s2.step_count) != int(s.step_count) + 1:
        out.append(f"step-count-not-incremented: {int(s.step_count)} -> {int(s2.step_count)}")
    f0, f1 = int(s.frightened_state_time), int(s2.frightened_state_time)
    if n_pow > 0:
        if f1 != _SCATTER:
            out.append(f"frightened-time-not-armed: a power-up was eaten but the timer is {f1}")
    elif f0 > 0:
        if f1 != f0 - 1:
            out.append(f"frightened-time-not-counting-down: {f0} -> {f1} without a power-up")
    elif f1 > 0:
        out.append(f"frightened-time-armed-without-power-up: {f0} -> {f1}")
    g0, g1 = np.asarray(s.ghost_locations), np.asarray(s2.ghost_locations)
    home = np.asarray(s.initial_ghost_positions)
    if g0.shape == (4, 2) and g1.shape == (4, 2):
        for k in range(4):
            a0 = (int(g0[k, 1]), int(g0[k, 0]))
            a1 = (int(g1[k, 1]), int(g1[k, 0]))
            at_home = (int(g1[k, 0]), int(g1[k, 1])) == (int(home[k, 0]), int(home[k, 1]))
            if not _torus_step(info, a0, a1) and not (at_home and f0 > 0):
                out.append(f"ghost-jumps: ghost {k} (row,col) {a0} -> {a1} in one step")
            if f0 <= 0 and a1 == q:
                out.append(f"player-on-ghost-and-alive: ghost {k} and the player share (row,col) {q}, the ghosts "
                           "are not frightened and the episode continues")
    return out


# ------------------------------------------------------------------------------------------ C12
def check_obs(env: Any, s: Any, obs: Any) -> List[str]:
    out: List[str] = []
    for f in ("grid", "ghost_locations", "power_up_locations", "pellet_locations", "frightened_state_time", "score"):
        x, y = np.asarray(getattr(obs, f)), np.asarray(getattr(s, f))
        if x.shape != y.shape or not np.array_equal(x, y):
            out.append(f"obs-{f}: observation field differs from the state")
    if int(obs.player_locations.x) != int(s.player_locations.x) or int(obs.player_locations.y) != int(s.player_locations.y):
        out.append(f"obs-player_locations: observed ({int(obs.player_locations.x)},{int(obs.player_locations.y)}) "
                   f"state {_player(s)}")
    m = np.asarray(obs.action_mask)
    if m.shape != (5,):
        out.append(f"obs-action_mask-shape: {m.shape}")
    else:
        info = _info(env, s)
        r, c = _player(s)
        R, C = info["R"], info["C"]
        if 0 <= r < R and 0 <= c < C:
            leg, care = legal(env, s)
            d = (m.astype(bool) != leg) & care
            if d.any():
                out.append(f"obs-action_mask: mask {m.tolist()} is not the open-neighbour set {leg[:4].tolist()} of "
                           f"(row,col) {(r, c)}")
    return out


# ------------------------------------------------------------------------------------------ injection
def corridor_states(env: Any, state0: Any) -> Tuple[Any, List[Dict[str, int]]]:
    """Position injection: one copy of `state0` (an UNBATCHED state, NumPy or JAX leaves, e.g. the
    reset state) per non-wall cell of the maze, with the player put on that cell and every other
    field (pellets, ghosts, timers, key, step_count) unchanged.  Returns (states, descriptions):
    `states` is a State whose leaves carry a leading axis of length n_free (318 for the default
    maze), `descriptions[i] = {"row": r, "col": c}`; cells are in row-major order.  The timesteps of
    these roots are stale (build them with env._observation_from_state or mark the explorer
    `injected_roots = True`, which makes the monitors skip root checks)."""
    import jax

    info = _info(env, state0)
    wall = info["wall"]
    cells = [(int(r), int(c)) for r, c in np.argwhere(~wall)]
    n = len(cells)
    s_np = jax.tree_util.tree_map(lambda x: np.asarray(x), state0)
    batched = jax.tree_util.tree_map(lambda x: np.repeat(x[None, ...], n, axis=0), s_np)
    pos_t = type(s_np.player_locations)
    dt_x = np.asarray(s_np.player_locations.x).dtype
    dt_y = np.asarray(s_np.player_locations.y).dtype
    new_pos = pos_t(x=np.array([r for r, _ in cells], dt_x), y=np.array([c for _, c in cells], dt_y))
    batched = batched.replace(player_locations=new_pos)
    return batched, [{"row": r, "col": c} for r, c in cells]


def corridor_timesteps(env: Any, states: Any) -> Any:
    """FRESH FIRST-type timesteps for the batched `states` of corridor_states: the environment's own
    observation function (`env._observation_from_state`, the one reset() and step() use - a private
    method, hence optional) applied to every injected state.  With these as root timesteps the
    explorer may keep `injected_roots = False`, so that root masks/observations/invariants are
    checked too and the C04 reaction test already applies to the first step out of every cell
    (otherwise explore the injected roots to depth >= 2: reactions are skipped on stale roots)."""
    import jax
    import jax.numpy as jnp
    from jumanji.types import restart

    fn = jax.jit(jax.vmap(lambda st: restart(observation=env._observation_from_state(st))))
    ts = fn(jax.tree_util.tree_map(jnp.asarray, states))
    return jax.tree_util.tree_map(lambda x: np.asarray(x), jax.device_get(ts))


def ghost_states(env: Any, state0: Any, ghost: int = 0) -> Tuple[Any, List[Dict[str, int]]]:
    """Ghost-pose injection: one copy of `state0` per (corridor cell, travel direction) of ghost `ghost`: the ghost
    stands on the cell, its previous cell (`old_ghost_locations`) is the corridor cell behind it (wrap-around
    included; combinations whose "behind" cell is a wall are skipped), its last action is that direction
    (0 left, 1 up, 2 right, 3 down in the generator's (col, row) convention) and every ghost is released
    (`ghost_starts = -1`).  Ghosts roam the whole maze in real play (the side tunnel included), so these poses are
    reachable up to the positions of the other entities; the cells next to the tunnel exits are the interesting
    ones.  Root timesteps are stale (injected_roots=True)."""
    import jax

    info = _info(env, state0)
    wall = info["wall"]
    H, W = wall.shape
    s_np = jax.tree_util.tree_map(lambda x: np.asarray(x), state0)
    step = {0: (0, -1), 1: (-1, 0), 2: (0, 1), 3: (1, 0)}  # action -> (d_row, d_col)
    rows: List[Tuple[int, int, int, int, int]] = []
    for r, c in np.argwhere(~wall):
        for a, (dr, dc) in step.items():
            pr, pc = (int(r) - dr) % H, (int(c) - dc) % W
            if wall[pr, pc]:
                continue
            rows.append((int(r), int(c), a, pr, pc))
    n = len(rows)
    batched = jax.tree_util.tree_map(lambda x: np.repeat(x[None, ...], n, axis=0), s_np)
    gl = np.asarray(batched.ghost_locations).copy()
    og = np.asarray(batched.old_ghost_locations).copy()
    ga = np.asarray(batched.ghost_actions).copy()
    for i, (r, c, a, pr, pc) in enumerate(rows):
        gl[i, ghost] = (c, r)  # stored (col, row)
        og[i, ghost] = (pc, pr)
        ga[i, ghost] = a
    gs = np.full_like(np.asarray(batched.ghost_starts), -1)
    batched = batched.replace(ghost_locations=gl, old_ghost_locations=og, ghost_actions=ga, ghost_starts=gs)
    return batched, [{"ghost": ghost, "row": r, "col": c, "last_action": a} for r, c, a, _, _ in rows]
