"""Reference model of Sudoku, written from docs/environments/sudoku.md and the class docstring.

Rules.  9x9 board, -1 = empty, digits 0..8.  Action (row, col, digit): write the digit in the cell.
Legal <=> the cell is empty and the digit does not yet occur in the cell's row, column or 3x3 box.
The digit is written in any case.  The episode ends <=> the action was invalid, or no legal action
exists on the new board (solved, or a dead end).  Reward: 1 at the end of the episode if the board
is correctly solved (every row, column and box holds each digit once), 0 in every other case.

Modelling decisions
* The mask is indexed [row, col, digit] = the action triple; `mask_allows` is stated explicitly.
* An invalid action cannot solve the board (it either overwrites a filled cell, leaving the empty
  cell that made the state non-terminal, or repeats a digit), so its reward is 0 (C05).  The docs
  do not promise an untouched board on an invalid action; C05 checks LAST and reward 0 only.
* C04b `check_reaction`: a masked-out action must end the episode at once; a masked-in action may
  end it only when no legal action remains on the new board.
* C06 `check_complete`: an episode of legal moves may end in a documented dead end; then cells stay
  empty, no legal action may exist and the reward must be 0.  When it ends with a full board, that
  board must be a valid solution and the reward 1.
* State fields compared by C09: board and the cached action_mask (legal set of the new board).
  `key` is not modelled.  Only SparseRewardFn is modelled (`applies`).
* Vectorised over the 729 actions: `legal` is one NumPy expression; per-edge work is O(81).
"""
from __future__ import annotations

from typing import Any, List

import numpy as np

_BOX = (np.arange(9)[:, None] // 3) * 3 + (np.arange(9)[None, :] // 3)  # box id of cell (r, c)


def applies(pid: str, cfg: Any, env: Any) -> bool:
    if pid == "C12":
        return True
    rf = getattr(env, "_reward_fn", None)
    return rf is None or type(rf).__name__ == "SparseRewardFn"


def _present(board: np.ndarray):
    """row_has[r, d], col_has[c, d], box_has[b, d]."""
    b = np.asarray(board)
    row_has = np.zeros((9, 9), bool)
    col_has = np.zeros((9, 9), bool)
    box_has = np.zeros((9, 9), bool)
    rr, cc = np.nonzero((b >= 0) & (b <= 8))
    d = b[rr, cc]
    row_has[rr, d] = True
    col_has[cc, d] = True
    box_has[_BOX[rr, cc], d] = True
    return row_has, col_has, box_has


def _legal_board(board: np.ndarray) -> np.ndarray:
    b = np.asarray(board)
    row_has, col_has, box_has = _present(b)
    empty = b == -1
    return empty[:, :, None] & ~row_has[:, None, :] & ~col_has[None, :, :] & ~box_has[_BOX]


def _duplicates(board: np.ndarray) -> List[str]:
    b = np.asarray(board)
    bad = []
    for i in range(9):
        for name, cells in (("row", b[i, :]), ("column", b[:, i]), ("box", b[_BOX == i])):
            v = cells[cells >= 0]
            if len(set(v.tolist())) != len(v):
                bad.append(f"{name} {i}: {cells.tolist()}")
    return bad


def _solved(board: np.ndarray) -> bool:
    b = np.asarray(board)
    return bool(((b >= 0) & (b <= 8)).all()) and not _duplicates(b)


# ---------------------------------------------------------------------------------- C04
def legal(env: Any, s: Any) -> np.ndarray:
    return _legal_board(s.board)


def action_legal(env: Any, s: Any, a: Any) -> bool:
    b = np.asarray(s.board)
    r, c, d = int(a[0]), int(a[1]), int(a[2])
    if int(b[r, c]) != -1:
        return False
    return not ((b[r, :] == d).any() or (b[:, c] == d).any() or (b[_BOX == _BOX[r, c]] == d).any())


def mask_allows(env: Any, mask: np.ndarray, a: Any) -> bool:
    return bool(np.asarray(mask)[int(a[0]), int(a[1]), int(a[2])])


def check_reaction(env: Any, s: Any, a: Any, s2: Any, ts: Any, masked_in: bool) -> List[str]:
    """Own reaction: the invalid-action path ends the episode at once; an accepted action ends it only
    when no legal action remains on the new board."""
    last = int(ts.step_type) == 2
    if not masked_in and not last:
        return [f"masked-out-action-accepted: action {np.asarray(a).tolist()} is masked-out but the episode goes on"]
    if masked_in and last and _legal_board(s2.board).any():
        return [f"masked-in-action-punished: action {np.asarray(a).tolist()} is masked-in but the episode ended "
                "although legal actions remain"]
    return []


# ---------------------------------------------------------------------------------- C05
def check_illegal(env: Any, s: Any, a: Any, s2: Any, ts: Any) -> List[str]:
    out = []
    if int(ts.step_type) != 2:
        out.append(f"illegal-action-not-terminal: action {np.asarray(a).tolist()} breaks the rules; the episode must end")
    if float(ts.reward) != 0.0:
        out.append(f"illegal-action-reward: got {float(ts.reward)}, an invalid action cannot solve the board (0)")
    return out


# ---------------------------------------------------------------------------------- C06
def check_constraints(env: Any, s: Any) -> List[str]:
    bad = _duplicates(s.board)
    if bad:
        return [f"repeated-digit: {bad[:3]}"]
    b = np.asarray(s.board)
    if ((b < -1) | (b > 8)).any():
        return [f"digit-out-of-range: {b.tolist()}"]
    return []


def check_complete(env: Any, s: Any, ts: Any) -> List[str]:
    out = []
    b = np.asarray(s.board)
    if (b == -1).any():
        if _legal_board(b).any():
            out.append("terminated-with-legal-actions: legal play ended although a legal action remains")
        if float(ts.reward) != 0.0:
            out.append(f"reward-on-dead-end: reward {float(ts.reward)} with empty cells left")
    else:
        if not _solved(b):
            out.append(f"full-board-not-a-solution: {b.tolist()}")
        elif not np.isclose(float(ts.reward), 1.0):
            out.append(f"solved-without-reward: reward {float(ts.reward)} on a correctly solved board")
    return out


# ---------------------------------------------------------------------------------- C09
def check_step(env: Any, s: Any, a: Any, s2: Any, ts: Any) -> List[str]:
    out = []
    r, c, d = int(a[0]), int(a[1]), int(a[2])
    ok = action_legal(env, s, a)
    exp = np.asarray(s.board).copy()
    exp[r, c] = d
    if not np.array_equal(np.asarray(s2.board), exp):
        diff = np.argwhere(np.asarray(s2.board) != exp).tolist()
        out.append(f"step-field-board: writing {d} at ({r},{c}) - successor differs from the prediction at {diff[:4]}")
    leg2 = _legal_board(exp)
    if not np.array_equal(np.asarray(s2.action_mask, bool), leg2):
        out.append(f"step-field-action_mask: cached mask differs from the legal set of the new board at "
                   f"{np.argwhere(np.asarray(s2.action_mask, bool) != leg2)[:4].tolist()}")
    done = (not ok) or not leg2.any()
    if (int(ts.step_type) == 2) != done:
        out.append(f"step-termination: action legal={ok}, legal actions left={bool(leg2.any())}: expected done={done} "
                   f"got step_type={int(ts.step_type)}")
    rew = 1.0 if _solved(exp) else 0.0
    if not np.isclose(float(ts.reward), rew, atol=1e-6):
        out.append(f"step-reward: expected {rew} got {float(ts.reward)}")
    return out


# ---------------------------------------------------------------------------------- C12
def check_obs(env: Any, s: Any, obs: Any) -> List[str]:
    out = []
    if not np.array_equal(np.asarray(obs.board), np.asarray(s.board)):
        out.append("obs-board: observation board differs from the state board")
    if not np.array_equal(np.asarray(obs.action_mask), np.asarray(s.action_mask)):
        out.append("obs-action_mask: observation mask differs from the state's mask")
    if not np.array_equal(np.asarray(obs.action_mask, bool), _legal_board(s.board)):
        out.append("obs-action_mask-vs-board: observation mask is not the legal set of the board")
    return out
