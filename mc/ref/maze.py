"""Reference model of Maze, written from docs/environments/maze.md, the class docstring and
DESIGN.md Appendix C.

Rules: the maze is a bool matrix `walls` (True = wall), positions are (row, col) with (0, 0) the top
left cell.  Actions 0 up (row-1), 1 right (col+1), 2 down (row+1), 3 left (col-1).  A move is legal
iff the destination is inside the maze and is not a wall.  A legal move puts the agent on the
destination; an illegal move is ignored (the agent stays, the episode continues).  Walls and target
never change, `step_count` increases by one per step.  Reward 1 iff the agent is on the target after
the step, else 0.  LAST iff target reached, or the agent has no legal move from its new cell, or
step_count >= time_limit.  The observation copies agent_position, target_position, walls,
step_count and action_mask from the state.

Modelling decisions
* Legality is recomputed from `walls` and `agent_position`; the cached `state.action_mask` is never
  trusted (it is only compared with the observation's copy in C12).
* "No legal move => LAST" is not in docs/environments/maze.md but is the rule sheet of DESIGN.md
  Appendix C (an agent that cannot move can never reach the target); it is followed here.
* `key` (kept for auto-reset only) and the cached `state.action_mask` are not compared in C09.
* `discount` is not part of the documented rules (C03 covers it).
* Out-of-grid coordinates cannot be produced by the rules; every function guards its indexing and
  C07 reports them.
"""
from __future__ import annotations

from typing import Any, List, Tuple

import numpy as np

MOVES = ((-1, 0), (0, 1), (1, 0), (0, -1))  # up, right, down, left
NAMES = ("up", "right", "down", "left")


def _pos(p: Any) -> Tuple[int, int]:
    return int(p.row), int(p.col)


def _shape(env: Any) -> Tuple[int, int]:
    return int(env.num_rows), int(env.num_cols)


def _inside(env: Any, r: int, c: int) -> bool:
    R, C = _shape(env)
    return 0 <= r < R and 0 <= c < C


def _free(env: Any, walls: np.ndarray, r: int, c: int) -> bool:
    """Inside the maze and not a wall."""
    return _inside(env, r, c) and not bool(walls[r, c])


def _legal_from(env: Any, walls: np.ndarray, r: int, c: int) -> np.ndarray:
    return np.array([_free(env, walls, r + dr, c + dc) for dr, dc in MOVES], bool)


# ---- C04
def legal(env: Any, s: Any) -> np.ndarray:
    r, c = _pos(s.agent_position)
    return _legal_from(env, np.asarray(s.walls), r, c)


def action_legal(env: Any, s: Any, a: Any) -> bool:
    return bool(legal(env, s)[int(a)])


def check_reaction(env: Any, s: Any, a: Any, s2: Any, ts: Any, masked_in: bool) -> List[str]:
    moved = _pos(s2.agent_position) != _pos(s.agent_position)
    if masked_in and not moved:
        return [f"masked-in-action-ignored: {NAMES[int(a)]} is masked-in at {_pos(s.agent_position)} but the "
                "agent did not move"]
    if not masked_in and moved:
        return [f"masked-out-action-accepted: {NAMES[int(a)]} is masked-out at {_pos(s.agent_position)} but the "
                f"agent moved to {_pos(s2.agent_position)}"]
    return []


# ---- C05
def check_illegal(env: Any, s: Any, a: Any, s2: Any, ts: Any) -> List[str]:
    out = []
    p, p2 = _pos(s.agent_position), _pos(s2.agent_position)
    if p2 != p:
        out.append(f"illegal-action-moves-agent: blocked move {NAMES[int(a)]} took the agent from {p} to {p2}")
    if not np.array_equal(np.asarray(s.walls), np.asarray(s2.walls)):
        out.append("illegal-action-changes-walls: walls changed on a blocked move")
    if _pos(s.target_position) != _pos(s2.target_position):
        out.append("illegal-action-changes-target: target moved on a blocked move")
    if int(s2.step_count) != int(s.step_count) + 1:
        out.append(f"illegal-action-step-count: {int(s.step_count)} -> {int(s2.step_count)}")
    # the episode continues unless another documented cause fires (time limit; the agent stays where it
    # was, so "target reached"/"no legal move" would already have ended the episode one step earlier
    # unless this is the very first step from a reset cell without exits)
    other = int(s.step_count) + 1 >= int(env.time_limit) or p == _pos(s.target_position) \
        or not legal(env, s).any()
    if int(ts.step_type) == 2 and not other:
        out.append("illegal-action-terminates: a blocked move ended the episode although it must be ignored")
    want = 1.0 if p == _pos(s.target_position) else 0.0
    if not np.isclose(float(ts.reward), want):
        out.append(f"illegal-action-reward: got {float(ts.reward)} expected {want}")
    return out


# ---- C07
def check_invariants(env: Any, s: Any) -> List[str]:
    out = []
    R, C = _shape(env)
    walls = np.asarray(s.walls)
    if walls.shape != (R, C):
        return [f"walls-shape: {walls.shape} vs ({R}, {C})"]
    for name, p in (("agent", _pos(s.agent_position)), ("target", _pos(s.target_position))):
        if not _inside(env, *p):
            out.append(f"{name}-out-of-bounds: {name} at {p} on a {R}x{C} maze")
        elif walls[p]:
            out.append(f"{name}-inside-wall: {name} at {p}")
    return out


def check_conservation(env: Any, s: Any, a: Any, s2: Any, ts: Any) -> List[str]:
    out = []
    if not np.array_equal(np.asarray(s.walls), np.asarray(s2.walls)):
        out.append("walls-changed: the maze layout changed during a step")
    if _pos(s.target_position) != _pos(s2.target_position):
        out.append(f"target-moved: {_pos(s.target_position)} -> {_pos(s2.target_position)}")
    (r, c), (r2, c2) = _pos(s.agent_position), _pos(s2.agent_position)
    if abs(r2 - r) + abs(c2 - c) > 1:
        out.append(f"agent-jumped: {(r, c)} -> {(r2, c2)} in one step")
    if int(s2.step_count) != int(s.step_count) + 1:
        out.append(f"step-count-not-incremented: {int(s.step_count)} -> {int(s2.step_count)}")
    return out


# ---- C09
def check_step(env: Any, s: Any, a: Any, s2: Any, ts: Any) -> List[str]:
    out = []
    a = int(a)
    walls = np.asarray(s.walls)
    r, c = _pos(s.agent_position)
    if action_legal(env, s, a):
        r, c = r + MOVES[a][0], c + MOVES[a][1]
    if _pos(s2.agent_position) != (r, c):
        out.append(f"step-field-agent_position: expected {(r, c)} got {_pos(s2.agent_position)} "
                   f"(from {_pos(s.agent_position)}, action {NAMES[a]})")
    if _pos(s2.target_position) != _pos(s.target_position):
        out.append(f"step-field-target_position: expected {_pos(s.target_position)} got {_pos(s2.target_position)}")
    if not np.array_equal(np.asarray(s2.walls), walls):
        out.append("step-field-walls: walls changed")
    k = int(s.step_count) + 1
    if int(s2.step_count) != k:
        out.append(f"step-field-step_count: expected {k} got {int(s2.step_count)}")
    reached = (r, c) == _pos(s.target_position)
    stuck = not _legal_from(env, walls, r, c).any()
    done = reached or stuck or k >= int(env.time_limit)
    if (int(ts.step_type) == 2) != done:
        out.append(f"step-termination: expected done={done} (target={reached}, no-move={stuck}, step {k}/"
                   f"{int(env.time_limit)}) got step_type={int(ts.step_type)}")
    want = 1.0 if reached else 0.0
    if not np.isclose(float(ts.reward), want):
        out.append(f"step-reward: expected {want} got {float(ts.reward)}")
    return out


# ---- C12
def check_obs(env: Any, s: Any, obs: Any) -> List[str]:
    out = []
    if _pos(obs.agent_position) != _pos(s.agent_position):
        out.append(f"obs-agent_position: {_pos(obs.agent_position)} vs state {_pos(s.agent_position)}")
    if _pos(obs.target_position) != _pos(s.target_position):
        out.append(f"obs-target_position: {_pos(obs.target_position)} vs state {_pos(s.target_position)}")
    if not np.array_equal(np.asarray(obs.walls), np.asarray(s.walls)):
        out.append("obs-walls: observation walls differ from the state")
    if int(obs.step_count) != int(s.step_count):
        out.append(f"obs-step_count: {int(obs.step_count)} vs state {int(s.step_count)}")
    if not np.array_equal(np.asarray(obs.action_mask, bool), np.asarray(s.action_mask, bool)):
        out.append("obs-action_mask: observation mask differs from the mask kept in the state")
    return out
