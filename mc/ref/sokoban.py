"""Reference model of Sokoban, written from docs/environments/sokoban.md, the class docstring and
DESIGN.md Appendix C.

Rules: a 10x10 board held as two uint8 grids: `fixed_grid` (0 empty, 1 wall, 2 target) never
changes; `variable_grid` (0 empty, 3 agent, 4 box) holds exactly one agent and four boxes;
`agent_location` = (row, col) of the agent, (0, 0) top left.  Actions 0 up (row-1), 1 right (col+1),
2 down (row+1), 3 left (col-1) (class docstring and action spec; DESIGN.md Appendix C).
* destination outside the board or a wall: the move is ignored;
* destination holds a box: the box is pushed one cell further iff that cell is on the board, is not
  a wall and holds no box ("chained box pushes are not allowed"); the agent follows the box; else the
  move is ignored;
* otherwise the agent steps onto the destination.
"Ignored" = the grids and the agent stay as they are; the step count is incremented in every case.
Dense reward = (#boxes on targets after - before) + 10 * [all 4 boxes on targets after] - 0.1;
sparse reward = 10 * [all 4 boxes on targets after].  LAST iff all 4 boxes are on targets or
step_count >= time_limit.  Observation: grid[..., 0] = variable_grid, grid[..., 1] = fixed_grid
("the variable grid ... and the fixed grid"), step_count copied.

Modelling decisions
* docs/environments/sokoban.md lists the actions as [Up, Down, Left, Right] while the class
  docstring, the action-spec docstring and the rule sheet say [Up, Right, Down, Left]; the sources
  contradict each other, the majority reading (also the rule sheet's) is used.
* Sokoban shows no action mask; `action_legal` ("the move is not ignored") exists only to select the
  edges judged by C05.
* `key`, `extras` and `discount` are not compared.
* Reward functions other than DenseReward / SparseReward: the reward is not judged.
* C07 counts targets (4, "each level features four boxes and four targets") as part of the level's
  physical consistency.
"""
from __future__ import annotations

from typing import Any, List, Optional, Tuple

import numpy as np

EMPTY, WALL, TARGET, AGENT, BOX = 0, 1, 2, 3, 4
N_BOXES = 4
MOVES = ((-1, 0), (0, 1), (1, 0), (0, -1))  # up, right, down, left
NAMES = ("up", "right", "down", "left")


def _inside(grid: np.ndarray, r: int, c: int) -> bool:
    return 0 <= r < grid.shape[0] and 0 <= c < grid.shape[1]


def _agent(s: Any) -> Tuple[int, int]:
    loc = np.asarray(s.agent_location).reshape(-1)
    return int(loc[0]), int(loc[1])


def _on_targets(fixed: np.ndarray, var: np.ndarray) -> int:
    return int(((var == BOX) & (fixed == TARGET)).sum())


def _walkable(fixed: np.ndarray, r: int, c: int) -> bool:
    return _inside(fixed, r, c) and int(fixed[r, c]) != WALL


def _predict(s: Any, a: int) -> Tuple[bool, np.ndarray, Tuple[int, int]]:
    """(move happens, next variable grid, next agent location) by the rules."""
    fixed = np.asarray(s.fixed_grid)
    var = np.asarray(s.variable_grid).copy()
    r, c = _agent(s)
    dr, dc = MOVES[a]
    r1, c1 = r + dr, c + dc
    if not _walkable(fixed, r1, c1):
        return False, var, (r, c)
    if int(var[r1, c1]) == BOX:
        r2, c2 = r1 + dr, c1 + dc
        if not _walkable(fixed, r2, c2) or int(var[r2, c2]) == BOX:
            return False, var, (r, c)
        var[r2, c2] = BOX
    if _inside(var, r, c):
        var[r, c] = EMPTY
    var[r1, c1] = AGENT
    return True, var, (r1, c1)


def _reward_kind(env: Any) -> Optional[str]:
    n = type(env.reward_fn).__name__
    return {"DenseReward": "dense", "SparseReward": "sparse"}.get(n)


def _reward(env: Any, fixed: np.ndarray, var: np.ndarray, var2: np.ndarray) -> Optional[float]:
    kind = _reward_kind(env)
    solved = _on_targets(fixed, var2) == N_BOXES
    if kind == "sparse":
        return 10.0 * solved
    if kind == "dense":
        return float(_on_targets(fixed, var2) - _on_targets(fixed, var)) + 10.0 * solved - 0.1
    return None


# ---- legality (internal, C05)
def action_legal(env: Any, s: Any, a: Any) -> bool:
    return _predict(s, int(a))[0]


# ---- C05
def check_illegal(env: Any, s: Any, a: Any, s2: Any, ts: Any) -> List[str]:
    out = []
    a = int(a)
    if _agent(s2) != _agent(s):
        out.append(f"illegal-action-moves-agent: blocked move {NAMES[a]} took the agent from {_agent(s)} to {_agent(s2)}")
    v, v2 = np.asarray(s.variable_grid), np.asarray(s2.variable_grid)
    if not np.array_equal(v, v2):
        d = np.argwhere(v != v2)[:4].tolist()
        out.append(f"illegal-action-changes-grid: blocked move {NAMES[a]} from {_agent(s)} changed the variable grid at {d}")
    if not np.array_equal(np.asarray(s.fixed_grid), np.asarray(s2.fixed_grid)):
        out.append("illegal-action-changes-fixed-grid: walls/targets changed")
    k = int(s.step_count) + 1
    if int(s2.step_count) != k:
        out.append(f"illegal-action-step-count: documented increment by one, got {int(s.step_count)} -> {int(s2.step_count)}")
    fixed = np.asarray(s.fixed_grid)
    done = _on_targets(fixed, v) == N_BOXES or k >= int(env.time_limit)
    if (int(ts.step_type) == 2) != done:
        out.append(f"illegal-action-termination: an ignored move must leave termination to the time limit; expected "
                   f"done={done} at step {k}/{int(env.time_limit)} got step_type={int(ts.step_type)}")
    want = _reward(env, fixed, v, v)
    if want is not None and not np.isclose(float(ts.reward), want, rtol=1e-5, atol=1e-6):
        out.append(f"illegal-action-reward: expected {want} got {float(ts.reward)}")
    return out


# ---- C07
def check_invariants(env: Any, s: Any) -> List[str]:
    out = []
    fixed, var = np.asarray(s.fixed_grid), np.asarray(s.variable_grid)
    shape = (int(env.num_rows), int(env.num_cols))
    if fixed.shape != shape or var.shape != shape:
        return [f"grid-shape: fixed {fixed.shape} variable {var.shape} vs {shape}"]
    if not np.isin(fixed, (EMPTY, WALL, TARGET)).all():
        out.append(f"fixed-grid-unknown-code: values {np.unique(fixed).tolist()}")
    if not np.isin(var, (EMPTY, AGENT, BOX)).all():
        out.append(f"variable-grid-unknown-code: values {np.unique(var).tolist()}")
    n_agent, n_box = int((var == AGENT).sum()), int((var == BOX).sum())
    if n_agent != 1:
        out.append(f"agent-marker-count: {n_agent} agent markers in the variable grid")
    if n_box != N_BOXES:
        out.append(f"box-count: {n_box} boxes instead of {N_BOXES}")
    if int((fixed == TARGET).sum()) != N_BOXES:
        out.append(f"target-count: {int((fixed == TARGET).sum())} targets instead of {N_BOXES}")
    r, c = _agent(s)
    if not _inside(var, r, c):
        out.append(f"agent-out-of-bounds: agent_location {(r, c)}")
    elif int(var[r, c]) != AGENT:
        out.append(f"agent-location-disagrees-with-grid: agent_location {(r, c)} holds code {int(var[r, c])}, agent "
                   f"markers at {np.argwhere(var == AGENT).tolist()}")
    if ((var != EMPTY) & (fixed == WALL)).any():
        out.append(f"entity-inside-wall: cells {np.argwhere((var != EMPTY) & (fixed == WALL))[:3].tolist()}")
    return out


def check_conservation(env: Any, s: Any, a: Any, s2: Any, ts: Any) -> List[str]:
    out = []
    if not np.array_equal(np.asarray(s.fixed_grid), np.asarray(s2.fixed_grid)):
        out.append("fixed-grid-changed: walls/targets changed during a step")
    v, v2 = np.asarray(s.variable_grid), np.asarray(s2.variable_grid)
    if int((v == BOX).sum()) != int((v2 == BOX).sum()):
        out.append(f"box-count-changed: {int((v == BOX).sum())} -> {int((v2 == BOX).sum())}")
    gone = np.argwhere((v == BOX) & (v2 != BOX))
    new = np.argwhere((v != BOX) & (v2 == BOX))
    if len(gone) > 1 or len(new) > 1:
        out.append(f"several-boxes-moved: boxes left {gone.tolist()} and appeared at {new.tolist()}")
    elif len(gone) == 1 and len(new) == 1:
        d = (int(new[0][0] - gone[0][0]), int(new[0][1] - gone[0][1]))
        if d != MOVES[int(a)]:
            out.append(f"box-moved-not-by-push: box {gone[0].tolist()} -> {new[0].tolist()} under action {NAMES[int(a)]}")
        elif _agent(s2) != (int(gone[0][0]), int(gone[0][1])):
            out.append(f"box-moved-without-agent: box {gone[0].tolist()} -> {new[0].tolist()} but the agent is at {_agent(s2)}")
    (r, c), (r2, c2) = _agent(s), _agent(s2)
    if abs(r - r2) + abs(c - c2) > 1:
        out.append(f"agent-jumped: {(r, c)} -> {(r2, c2)}")
    if int(s2.step_count) != int(s.step_count) + 1:
        out.append(f"step-count-not-incremented: {int(s.step_count)} -> {int(s2.step_count)}")
    return out


# ---- C09
def check_step(env: Any, s: Any, a: Any, s2: Any, ts: Any) -> List[str]:
    out = []
    a = int(a)
    fixed = np.asarray(s.fixed_grid)
    var = np.asarray(s.variable_grid)
    moved, exp, loc = _predict(s, a)
    got = np.asarray(s2.variable_grid)
    if not np.array_equal(got, exp):
        d = np.argwhere(got != exp)[:4]
        out.append(f"step-field-variable_grid: action {NAMES[a]} from {_agent(s)} (move {'made' if moved else 'ignored'}): "
                   f"cells {d.tolist()} expected {[int(exp[tuple(x)]) for x in d]} got {[int(got[tuple(x)]) for x in d]}")
    if _agent(s2) != loc:
        out.append(f"step-field-agent_location: expected {loc} got {_agent(s2)} (action {NAMES[a]} from {_agent(s)})")
    if not np.array_equal(np.asarray(s2.fixed_grid), fixed):
        out.append("step-field-fixed_grid: walls/targets changed")
    k = int(s.step_count) + 1
    if int(s2.step_count) != k:
        out.append(f"step-field-step_count: expected {k} got {int(s2.step_count)}")
    solved = _on_targets(fixed, exp) == N_BOXES
    done = solved or k >= int(env.time_limit)
    if (int(ts.step_type) == 2) != done:
        out.append(f"step-termination: expected done={done} (solved={solved}, step {k}/{int(env.time_limit)}) got "
                   f"step_type={int(ts.step_type)}")
    want = _reward(env, fixed, var, exp)
    if want is not None and not np.isclose(float(ts.reward), want, rtol=1e-5, atol=1e-6):
        out.append(f"step-reward: expected {want:.4f} got {float(ts.reward):.4f} (boxes on targets "
                   f"{_on_targets(fixed, var)} -> {_on_targets(fixed, exp)})")
    return out


# ---- C12
def check_obs(env: Any, s: Any, obs: Any) -> List[str]:
    out = []
    g = np.asarray(obs.grid)
    var, fixed = np.asarray(s.variable_grid), np.asarray(s.fixed_grid)
    if g.shape != var.shape + (2,):
        return [f"obs-grid-shape: {g.shape} vs {var.shape + (2,)}"]
    if not np.array_equal(g[..., 0], var):
        out.append("obs-grid-variable-plane: grid[..., 0] differs from the variable grid (agent and boxes)")
    if not np.array_equal(g[..., 1], fixed):
        out.append("obs-grid-fixed-plane: grid[..., 1] differs from the fixed grid (walls and targets)")
    if int(obs.step_count) != int(s.step_count):
        out.append(f"obs-step_count: {int(obs.step_count)} vs state {int(s.step_count)}")
    return out
