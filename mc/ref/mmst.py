"""Reference model of MMST, written from docs/environments/mmst.md, the class docstring of `MMST`, the
`Observation` docstring and DESIGN.md (C04 modelling decisions, Appendix C).

Rules
  * A connected graph (adj_matrix); node_types[n] = k >= 0: node n belongs to agent k's group, -1: utility
    node (belongs to nobody).  Agent k must connect the nodes nodes_to_connect[k]; it starts on one of
    them.  connected_nodes[k] is its route (node indices in visiting order, -1 = not filled yet);
    positions[k] its current node.
  * Action per agent = node id.  "An action is invalid if the agent picks a node it has no edge to or the
    node is a utility node already been used by another agent."  Legal (for an UNFINISHED agent) <=> there
    is an edge from its current node to the node AND the node is not a utility node on another agent's
    route.  Nodes of another agent's group are NOT forbidden by the documents (only utility nodes are
    exclusive); an agent may also walk back over its own route.
  * Illegal choice or lost tie-break (several agents pick the same node; a random one gets it) => the agent
    stays.  Agent finished <=> all its nodes_to_connect are on its route.  LAST <=> all agents finished or
    step_count >= time_limit.

Modelling decisions
  * Finished agents: the documents say nothing about agents whose group is already connected; the
    implementation blanks their mask row one step late and ignores their actions without penalty either
    way.  legal() therefore returns care=False on the rows of finished agents (finished is recomputed here
    from nodes_to_connect and the route, not read from state.finished_agents).
  * Route of agent k = the entries >= 0 of connected_nodes[k] plus positions[k].  (connected_nodes has
    time_limit slots and slot 0 holds the start, so the node reached by the time_limit-th move has no
    slot; the state reached there is LAST anyway.  Adding the current position makes the recomputation
    right in that state too.)
  * mask_allows: an agent whose mask row is entirely False has nothing to choose (finished, or walled in);
    any action is accepted for it, otherwise mask-respecting play would stop as soon as one agent has
    finished and C06 would never see a completed episode.
  * C06 (utility-node exclusivity): no utility node lies on two agents' routes; group nodes may be shared
    (the documents only make utility nodes exclusive).  Every route is a walk in the graph (consecutive
    entries are joined by an edge) that starts on one of the agent's own nodes and ends on its current
    position, so the visited set is a connected subgraph containing the start.  On completion (every agent
    finished) every nodes_to_connect[k] lies on route k.
  * C12: node_types is agent 0's view ("to make the environment single agent, we use the first agent's
    observation"): a node on agent k's route is 2k, an unvisited node of group k is 2k+1, an unvisited
    utility node is -1.  A group node that lies on several routes (not excluded by the rules) may carry
    the label of any of those agents.  adj_matrix, positions, step_count, action_mask are copies of the
    state fields; the mask is additionally compared with the legal set on the rows of unfinished agents.
  * check_reaction (C04b) is stated against the position only: an unfinished agent whose choice is legal
    (masked-in) moves to the chosen node unless another agent chose the same node (tie-break); an
    unfinished agent whose choice is illegal stays; a finished agent stays.  In addition a masked-in joint
    action in which every unfinished agent's choice is legal and no two agents chose the same node must
    yield exactly the sum of 10 (new connection) / -1 (no connection) per unfinished agent, i.e. nobody is
    charged the extra -1 of an invalid choice (the reward of a lost tie-break is not documented, hence the
    restriction).  Whether a masked-OUT choice is charged the extra -1 is not part of C04 and not checked.
"""
from __future__ import annotations

from typing import Any, Dict, List, Set, Tuple

import numpy as np

UTILITY = -1


# ------------------------------------------------------------------------------------------ helpers
def _routes(s: Any) -> List[List[int]]:
    cn = np.asarray(s.connected_nodes).astype(int)
    return [[int(x) for x in row if x >= 0] for row in cn]


def _visited(s: Any) -> List[Set[int]]:
    pos = np.asarray(s.positions).astype(int)
    return [set(r) | {int(pos[k])} for k, r in enumerate(_routes(s))]


def _finished(s: Any) -> np.ndarray:
    need = np.asarray(s.nodes_to_connect).astype(int)
    vis = _visited(s)
    return np.array([all(int(n) in vis[k] for n in need[k]) for k in range(len(vis))], bool)


def _legal(env: Any, s: Any) -> Tuple[np.ndarray, np.ndarray]:
    adj = np.asarray(s.adj_matrix).astype(int)
    types = np.asarray(s.node_types).astype(int)
    pos = np.asarray(s.positions).astype(int)
    vis = _visited(s)
    A, N = len(pos), len(types)
    lg = np.zeros((A, N), bool)
    for k in range(A):
        claimed: Set[int] = set()
        for j in range(A):
            if j != k:
                claimed |= {n for n in vis[j] if types[n] == UTILITY}
        for n in range(N):
            lg[k, n] = adj[pos[k], n] == 1 and n not in claimed
    care = np.repeat(~_finished(s)[:, None], N, axis=1)
    return lg, care


# ------------------------------------------------------------------------------------------ C04
def legal(env: Any, s: Any) -> Tuple[np.ndarray, np.ndarray]:
    return _legal(env, s)


def mask_allows(env: Any, mask: np.ndarray, a: Any) -> bool:
    a = np.asarray(a).astype(int)
    mask = np.asarray(mask, bool)
    for k in range(a.shape[0]):
        if not mask[k].any():
            continue  # nothing to choose for this agent (finished / walled in): its action is immaterial
        if not mask[k, a[k]]:
            return False
    return True


def check_reaction(env: Any, s: Any, a: Any, s2: Any, ts: Any, masked_in: bool) -> List[str]:
    out: List[str] = []
    a = np.asarray(a).astype(int)
    p0 = np.asarray(s.positions).astype(int)
    p1 = np.asarray(s2.positions).astype(int)
    lg, _ = _legal(env, s)
    fin = _finished(s)
    need = np.asarray(s.nodes_to_connect).astype(int)
    vis = _visited(s)
    A = len(a)
    tie_possible = len(set(a.tolist())) < A
    expected_reward = 0.0
    any_illegal = False
    for k in range(A):
        if fin[k]:
            if p1[k] != p0[k]:
                out.append(f"finished-agent-moved: agent {k} {int(p0[k])} -> {int(p1[k])}")
            continue
        shared = any(j != k and a[j] == a[k] for j in range(A))
        if lg[k, a[k]]:
            if p1[k] == a[k]:
                new_conn = int(a[k]) in set(need[k].tolist()) and int(a[k]) not in vis[k]
                expected_reward += 10.0 if new_conn else -1.0
            elif p1[k] == p0[k] and shared:
                pass  # lost the tie-break
            elif masked_in:
                out.append(f"masked-in-choice-not-executed: agent {k} at {int(p0[k])} chose {int(a[k])} (edge exists, "
                           f"not another agent's utility node, nobody else chose it) but is at {int(p1[k])}")
            else:
                out.append(f"legal-choice-not-executed: agent {k} at {int(p0[k])} chose {int(a[k])} but is at "
                           f"{int(p1[k])}")
        else:
            any_illegal = True
            if p1[k] != p0[k]:
                out.append(f"invalid-choice-executed: agent {k} at {int(p0[k])} chose {int(a[k])} (no edge or a utility "
                           f"node used by another agent) and moved to {int(p1[k])}")
    # "An agent that only picks masked-in actions is never treated as having played an invalid move": with
    # every unfinished agent's choice legal and no two agents choosing the same node, the summed reward
    # must not contain the invalid-choice penalty (each unfinished agent: 10 new connection / -1 otherwise).
    rf = getattr(env, "_reward_fn", None)
    default_reward = (type(rf).__name__ == "DenseRewardFn" and float(getattr(rf, "_reward_connected", 0)) == 10.0
                      and float(getattr(rf, "_reward_time_step", 0)) == -1.0
                      and float(getattr(rf, "_reward_noop", 0)) == -1.0)
    if masked_in and not out and not tie_possible and not any_illegal and default_reward:
        got = float(np.asarray(ts.reward))
        if abs(got - expected_reward) > 1e-4:
            out.append(f"masked-in-action-penalised: joint action {a.tolist()} from {p0.tolist()}: reward {got} but "
                       f"the rules give {expected_reward} (10 new connection, -1 no connection, 0 finished)")
    return out


# ------------------------------------------------------------------------------------------ C06
def check_constraints(env: Any, s: Any) -> List[str]:
    out: List[str] = []
    adj = np.asarray(s.adj_matrix).astype(int)
    types = np.asarray(s.node_types).astype(int)
    pos = np.asarray(s.positions).astype(int)
    need = np.asarray(s.nodes_to_connect).astype(int)
    routes = _routes(s)
    vis = _visited(s)
    A, N = len(pos), len(types)
    owner: Dict[int, int] = {}
    for k in range(A):
        for n in vis[k]:
            if not (0 <= n < N):
                out.append(f"route-node-out-of-range: agent {k} node {n}")
                continue
            if types[n] == UTILITY:
                if n in owner and owner[n] != k:
                    out.append(f"utility-node-shared: node {n} lies on the routes of agents {owner[n]} and {k}")
                owner[n] = k
    for k in range(A):
        r = routes[k]
        if not r:
            out.append(f"route-empty: agent {k}")
            continue
        if r[0] not in set(need[k].tolist()):
            out.append(f"route-start-not-own-node: agent {k} starts on {r[0]}, its nodes are {need[k].tolist()}")
        for x, y in zip(r[:-1], r[1:]):
            if not (0 <= x < N and 0 <= y < N) or adj[x, y] != 1:
                out.append(f"route-uses-missing-edge: agent {k} route {r} steps {x}->{y} without an edge")
                break
        last = r[-1]
        cn = np.asarray(s.connected_nodes)[k]
        full = bool((cn >= 0).all())
        if int(pos[k]) != last and not (full and 0 <= last < N and adj[last, int(pos[k])] == 1):
            out.append(f"position-not-route-end: agent {k} is on {int(pos[k])}, its route ends on {last}")
    return out


def check_complete(env: Any, s: Any, ts: Any) -> List[str]:
    out: List[str] = []
    fin = _finished(s)
    claimed = np.asarray(s.finished_agents, bool)
    need = np.asarray(s.nodes_to_connect).astype(int)
    vis = _visited(s)
    if claimed.all() and not fin.all():
        missing = {k: [int(n) for n in need[k] if int(n) not in vis[k]] for k in range(len(vis)) if not fin[k]}
        out.append(f"completed-with-unconnected-nodes: all agents are flagged finished but {missing} are on no route")
    if fin.all():
        # every group is connected: the routes are walks (check_constraints), so each visited set is a
        # connected subgraph containing all nodes of the group
        adj = np.asarray(s.adj_matrix).astype(int)
        for k in range(len(vis)):
            nodes = sorted(vis[k])
            seen = {nodes[0]}
            stack = [nodes[0]]
            while stack:
                x = stack.pop()
                for y in nodes:
                    if y not in seen and adj[x, y] == 1:
                        seen.add(y)
                        stack.append(y)
            if len(seen) != len(nodes):
                out.append(f"completed-group-not-connected: agent {k} visited {nodes}, which is not a connected subgraph")
    return out


# ------------------------------------------------------------------------------------------ C12
def check_obs(env: Any, s: Any, obs: Any) -> List[str]:
    out: List[str] = []
    types = np.asarray(s.node_types).astype(int)
    A = int(env.num_agents)
    N = len(types)
    vis = _visited(s)
    got = np.asarray(obs.node_types).astype(int)
    if got.shape != (N,):
        out.append(f"obs-node_types-shape: {got.shape}")
    else:
        bad = []
        for n in range(N):
            on = [k for k in range(A) if n in vis[k]]
            if on:
                allowed = {2 * k for k in on}
            elif types[n] == UTILITY:
                allowed = {-1}
            else:
                allowed = {2 * int(types[n]) + 1}
            if int(got[n]) not in allowed:
                bad.append((n, int(got[n]), sorted(allowed)))
        if bad:
            out.append(f"obs-node_types: (node, shown, expected) {bad[:6]} (routes {[sorted(v) for v in vis]}, "
                       f"types {types.tolist()})")
    if not np.array_equal(np.asarray(obs.adj_matrix), np.asarray(s.adj_matrix)):
        out.append("obs-adj_matrix: differs from the state")
    if not np.array_equal(np.asarray(obs.positions), np.asarray(s.positions)):
        out.append(f"obs-positions: {np.asarray(obs.positions).tolist()} vs state {np.asarray(s.positions).tolist()}")
    if int(obs.step_count) != int(s.step_count):
        out.append(f"obs-step_count: {int(obs.step_count)} vs state {int(s.step_count)}")
    m = np.asarray(obs.action_mask, bool)
    if not np.array_equal(m, np.asarray(s.action_mask, bool)):
        out.append("obs-action_mask: differs from state.action_mask")
    lg, care = _legal(env, s)
    if m.shape == lg.shape and ((m != lg) & care).any():
        idx = np.argwhere((m != lg) & care)[:4].tolist()
        out.append(f"obs-action_mask-vs-rules: shown mask differs from the legal set of unfinished agents at {idx}")
    return out
