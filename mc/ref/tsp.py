"""Reference model of TSP, written from docs/environments/tsp.md and the class docstring.

Rules: action = city index; legal <=> the city has not been visited.  A legal action appends the
city to the tour (position := city, trajectory[num_visited] := city, visited).  An illegal action
leaves the problem state untouched, ends the episode and gives -num_cities*sqrt(2).  The episode
ends when all cities are visited.  Dense reward: minus the distance from the previous city (0 for
the first city), plus minus the distance back to the first city on the closing step.  Sparse: minus
the closed tour length on the last (legal) step, 0 before.
State fields compared: position, visited_mask, trajectory, num_visited, coordinates (all of them).
"""
from __future__ import annotations

from typing import Any, List

import numpy as np


def _n(env: Any) -> int:
    return int(env.num_cities)


def _visited(s: Any) -> np.ndarray:
    """Visited set recomputed from the trajectory (raw array), not from visited_mask."""
    n = len(np.asarray(s.trajectory))
    k = int(s.num_visited)
    v = np.zeros(n, bool)
    v[np.asarray(s.trajectory)[:k]] = True
    return v


def _sparse(env: Any) -> bool:
    return type(env.reward_fn).__name__ == "SparseReward"


def _tour_len(coords: np.ndarray, order: np.ndarray, closed: bool) -> float:
    c = np.asarray(coords, np.float64)[np.asarray(order, int)]
    if len(c) < 2:
        return 0.0
    d = np.sqrt(((c[1:] - c[:-1]) ** 2).sum(axis=1)).sum()
    if closed:
        d += np.sqrt(((c[0] - c[-1]) ** 2).sum())
    return float(d)


# ---- C04
def legal(env: Any, s: Any) -> np.ndarray:
    return ~_visited(s)


def action_legal(env: Any, s: Any, a: Any) -> bool:
    return bool(legal(env, s)[int(a)])


def check_reaction(env: Any, s: Any, a: Any, s2: Any, ts: Any, masked_in: bool) -> List[str]:
    n = _n(env)
    penal = np.isclose(float(ts.reward), -n * np.sqrt(2), rtol=1e-5) and int(ts.step_type) == 2 \
        and int(s2.num_visited) == int(s.num_visited)
    if masked_in and penal:
        return [f"masked-in-action-punished: city {int(a)} is masked-in but the step took the invalid-action path"]
    if not masked_in and not penal:
        return [f"masked-out-action-accepted: city {int(a)} is masked-out but the step did not take the invalid-action path"]
    return []


# ---- C05
def check_illegal(env: Any, s: Any, a: Any, s2: Any, ts: Any) -> List[str]:
    out = []
    n = _n(env)
    if int(ts.step_type) != 2:
        out.append("illegal-action-not-terminal: revisiting a city must end the episode")
    if not np.isclose(float(ts.reward), -n * np.sqrt(2), rtol=1e-5):
        out.append(f"illegal-action-reward: got {float(ts.reward)}, documented penalty {-n * np.sqrt(2):.6f}")
    for f in ("position", "visited_mask", "trajectory", "num_visited", "coordinates"):
        if not np.array_equal(np.asarray(getattr(s, f)), np.asarray(getattr(s2, f))):
            out.append(f"illegal-action-changes-state: field {f} changed on an invalid action")
    return out


# ---- C06
def check_constraints(env: Any, s: Any) -> List[str]:
    out = []
    n = _n(env)
    k = int(s.num_visited)
    tr = np.asarray(s.trajectory)
    pref = tr[:k]
    if k < 0 or k > n:
        return [f"tour-length-out-of-range: num_visited={k}"]
    if len(set(pref.tolist())) != k or ((pref < 0) | (pref >= n)).any():
        out.append(f"city-visited-twice: trajectory prefix {pref.tolist()} is not a permutation prefix")
    if (tr[k:] != -1).any():
        out.append(f"trajectory-tail-filled: {tr.tolist()} with num_visited={k}")
    if not np.array_equal(np.asarray(s.visited_mask, bool), _visited(s)):
        out.append("visited-mask-disagrees-with-trajectory")
    if k > 0 and int(s.position) != int(pref[-1]):
        out.append(f"position-disagrees-with-trajectory: position {int(s.position)} last {int(pref[-1])}")
    return out


def check_complete(env: Any, s: Any, ts: Any) -> List[str]:
    n = _n(env)
    if sorted(np.asarray(s.trajectory).tolist()) != list(range(n)):
        return [f"incomplete-tour-at-termination: {np.asarray(s.trajectory).tolist()}"]
    return []


# ---- C08
def objective(env: Any, s: Any, ts: Any) -> float | None:
    n = _n(env)
    if int(s.num_visited) != n:
        return None
    return -_tour_len(s.coordinates, np.asarray(s.trajectory), closed=True)


# ---- C09
def check_step(env: Any, s: Any, a: Any, s2: Any, ts: Any) -> List[str]:
    out = []
    n = _n(env)
    a = int(a)
    ok = action_legal(env, s, a)
    k = int(s.num_visited)
    if not ok:
        return [p.replace("illegal-action", "step-illegal-action") for p in check_illegal(env, s, a, s2, ts)]
    exp_tr = np.asarray(s.trajectory).copy()
    exp_tr[k] = a
    exp_vis = np.asarray(s.visited_mask, bool).copy()
    exp_vis[a] = True
    exp = dict(position=a, trajectory=exp_tr, visited_mask=exp_vis, num_visited=k + 1,
               coordinates=np.asarray(s.coordinates))
    for f, v in exp.items():
        if not np.array_equal(np.asarray(getattr(s2, f)), np.asarray(v)):
            out.append(f"step-field-{f}: expected {np.asarray(v).tolist()} got {np.asarray(getattr(s2, f)).tolist()}")
    done = (k + 1 == n)
    if (int(ts.step_type) == 2) != done:
        out.append(f"step-termination: expected done={done} got step_type={int(ts.step_type)}")
    coords = np.asarray(s.coordinates, np.float64)
    if _sparse(env):
        r = -_tour_len(coords, exp_tr, closed=True) if done else 0.0
    else:
        r = 0.0 if k == 0 else -float(np.sqrt(((coords[a] - coords[int(s.position)]) ** 2).sum()))
        if done:
            r -= float(np.sqrt(((coords[a] - coords[int(exp_tr[0])]) ** 2).sum()))
    if not np.isclose(float(ts.reward), r, rtol=1e-5, atol=1e-6):
        out.append(f"step-reward: expected {r:.6f} got {float(ts.reward):.6f}")
    return out


# ---- C12
def check_obs(env: Any, s: Any, obs: Any) -> List[str]:
    out = []
    for f in ("coordinates", "position", "trajectory"):
        if not np.array_equal(np.asarray(getattr(obs, f)), np.asarray(getattr(s, f))):
            out.append(f"obs-{f}: observation field differs from the state")
    if not np.array_equal(np.asarray(obs.action_mask, bool), ~np.asarray(s.visited_mask, bool)):
        out.append("obs-action_mask: mask is not the complement of the visited set")
    return out
