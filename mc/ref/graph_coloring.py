"""Reference model of GraphColoring, written from docs/environments/graph_coloring.md and the class
docstring.

Rules.  Nodes are coloured in index order; the action is the colour (0..num_nodes-1) given to
`current_node_index`.  A colour is legal for the current node <=> no already-coloured neighbour of
that node carries it ("assign a color to each vertex ... in such a way that no two adjacent vertices
share the same color"; "The allowed color set for each node is updated after every action").  The
colour is written and the index advances to the next node (mod n).  An invalid action ends the
episode with reward -num_nodes ("the negative of the total number of colors"); when all nodes carry
a colour the episode ends with reward -(number of distinct colours used); otherwise MID, reward 0.
The mask shown with a state is the legal set of that state's current node under that state's
colouring.

Modelling decisions
* Legality is stated from the rules on (adj_matrix, colors, current_node_index), never from the
  cached `state.action_mask`.  On the originally pinned tree the cached mask was computed from the
  colouring BEFORE the current assignment (DESIGN.md section 5 #1; fixed in /repo by "fix:
  GraphColoring computes the next node's action mask from the updated colouring"), and `step` judges
  validity by that cached mask; that defect shows as C04 mask-admits-illegal-move, C05
  illegal-action-not-terminal / illegal-action-reward, C06 monochromatic-edge and C09
  step-field-action_mask / step-termination / step-reward.  Nothing is loosened for it.
* Docs do not promise an untouched state on an invalid action (the colour is written anyway); C05
  checks LAST and the -num_nodes reward only.
* Both causes on one step (invalid colour on the last node): invalid takes precedence (docstring:
  "If an invalid action is taken, the reward is the negative of the total number of colors").
* C08 objective: minus the number of distinct colours of a completely coloured final state.
* State fields compared by C09: colors, current_node_index, adj_matrix, action_mask (the legal set
  of the next node under the new colouring; compared only when the episode continues).  `key` is
  not modelled.
"""
from __future__ import annotations

from typing import Any, List, Optional

import numpy as np


def _n(env: Any) -> int:
    return int(env.num_nodes)


def _legal(adj: np.ndarray, colors: np.ndarray, node: int, n: int) -> np.ndarray:
    ok = np.ones(n, bool)
    for j in range(n):
        if j != node and bool(adj[node, j]) and int(colors[j]) >= 0:
            c = int(colors[j])
            if c < n:
                ok[c] = False
    return ok


# ---------------------------------------------------------------------------------- C04
def legal(env: Any, s: Any) -> np.ndarray:
    return _legal(np.asarray(s.adj_matrix), np.asarray(s.colors), int(s.current_node_index), _n(env))


def action_legal(env: Any, s: Any, a: Any) -> bool:
    return bool(legal(env, s)[int(a)])


def check_reaction(env: Any, s: Any, a: Any, s2: Any, ts: Any, masked_in: bool) -> List[str]:
    n = _n(env)
    penal = int(ts.step_type) == 2 and np.isclose(float(ts.reward), -float(n))
    # a complete proper colouring with n distinct colours also yields LAST / -n: not the invalid path
    complete = bool((np.asarray(s2.colors) >= 0).all())
    if masked_in and penal and not (complete and len(set(np.asarray(s2.colors).tolist())) == n):
        return [f"masked-in-action-punished: colour {int(a)} is masked-in but the step took the invalid-action path"]
    if not masked_in and not penal:
        return [f"masked-out-action-accepted: colour {int(a)} is masked-out but the step did not take the "
                "invalid-action path"]
    return []


# ---------------------------------------------------------------------------------- C05
def check_illegal(env: Any, s: Any, a: Any, s2: Any, ts: Any) -> List[str]:
    out = []
    n = _n(env)
    node = int(s.current_node_index)
    if int(ts.step_type) != 2:
        out.append(f"illegal-action-not-terminal: colour {int(a)} is carried by a neighbour of node {node}; the "
                   "episode must end")
    if not np.isclose(float(ts.reward), -float(n), rtol=1e-5):
        out.append(f"illegal-action-reward: got {float(ts.reward)}, documented penalty {-n}")
    return out


# ---------------------------------------------------------------------------------- C06
def _conflicts(s: Any) -> List[tuple]:
    adj = np.asarray(s.adj_matrix)
    col = np.asarray(s.colors)
    n = len(col)
    bad = []
    for i in range(n):
        for j in range(i + 1, n):
            if (bool(adj[i, j]) or bool(adj[j, i])) and int(col[i]) >= 0 and int(col[i]) == int(col[j]):
                bad.append((i, j, int(col[i])))
    return bad


def check_constraints(env: Any, s: Any) -> List[str]:
    bad = _conflicts(s)
    if bad:
        return [f"monochromatic-edge: adjacent nodes share a colour (node, node, colour) {bad[:4]}; colours "
                f"{np.asarray(s.colors).tolist()}"]
    return []


def check_complete(env: Any, s: Any, ts: Any) -> List[str]:
    out = []
    col = np.asarray(s.colors)
    n = _n(env)
    if ((col < 0) | (col >= n)).any():
        out.append(f"incomplete-colouring-at-termination: colours {col.tolist()}")
    return out


# ---------------------------------------------------------------------------------- C08
def objective(env: Any, s: Any, ts: Any) -> Optional[float]:
    col = np.asarray(s.colors)
    if (col < 0).any():
        return None
    return -float(len(set(col.tolist())))


# ---------------------------------------------------------------------------------- C09
def check_step(env: Any, s: Any, a: Any, s2: Any, ts: Any) -> List[str]:
    out = []
    n = _n(env)
    a = int(a)
    node = int(s.current_node_index)
    adj = np.asarray(s.adj_matrix)
    ok = bool(_legal(adj, np.asarray(s.colors), node, n)[a])
    exp_col = np.asarray(s.colors).copy()
    exp_col[node] = a
    nxt = (node + 1) % n
    if not np.array_equal(np.asarray(s2.colors), exp_col):
        out.append(f"step-field-colors: expected {exp_col.tolist()} got {np.asarray(s2.colors).tolist()}")
    if int(s2.current_node_index) != nxt:
        out.append(f"step-field-current_node_index: expected {nxt} got {int(s2.current_node_index)}")
    if not np.array_equal(np.asarray(s2.adj_matrix), adj):
        out.append("step-field-adj_matrix: the graph changed during the episode")
    complete = bool((exp_col >= 0).all())
    if not ok:
        done, r = True, -float(n)
    elif complete:
        done, r = True, -float(len(set(exp_col.tolist())))
    else:
        done, r = False, 0.0
    what = "legal" if ok else "illegal (a coloured neighbour carries it)"
    if (int(ts.step_type) == 2) != done:
        out.append(f"step-termination: colour {a} for node {node} is {what}, all coloured={complete}: expected "
                   f"done={done}, got step_type={int(ts.step_type)}")
    if not np.isclose(float(ts.reward), r, rtol=1e-5, atol=1e-6):
        out.append(f"step-reward: colour {a} for node {node} is {what}, all coloured={complete}: expected {r} "
                   f"got {float(ts.reward)}")
    if not done and int(ts.step_type) != 2:
        exp_mask = _legal(adj, exp_col, nxt, n)
        if not np.array_equal(np.asarray(s2.action_mask, bool), exp_mask):
            out.append(f"step-field-action_mask: legal colours of node {nxt} under {exp_col.tolist()} are "
                       f"{exp_mask.tolist()}, state holds {np.asarray(s2.action_mask).tolist()}")
    return out


# ---------------------------------------------------------------------------------- C12
def check_obs(env: Any, s: Any, obs: Any) -> List[str]:
    out = []
    for f in ("adj_matrix", "colors", "current_node_index", "action_mask"):
        if not np.array_equal(np.asarray(getattr(obs, f)), np.asarray(getattr(s, f))):
            out.append(f"obs-{f}: observation field differs from the state")
    return out
