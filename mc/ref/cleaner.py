"""Reference model of Cleaner, written from docs/environments/cleaner.md, the class docstring, the
`step`/`reset` docstrings and DESIGN.md Appendix C.

Rules: `grid[row, col]` is 0 dirty, 1 clean, 2 wall; `agents_locations[i] = (row, col)` with (0, 0) the
top left tile; several agents may share a tile.  Per-agent actions 0 up (row-1), 1 right (col+1),
2 down (row+1), 3 left (col-1).  An agent's action is legal iff the destination tile is inside the
grid and is not a wall.  In a step every agent whose action is legal moves to its destination, an
agent whose action is illegal "does not move" (docs: "the agent's position remains unchanged"), and
every tile occupied by an agent after the moves becomes clean.  Reward (shared) = number of tiles
cleaned during the step - penalty_per_timestep.  LAST iff some agent's action was illegal, or no
dirty tile is left, or step_count >= time_limit.  At reset all agents stand on the top left tile,
which is clean, all other non-wall tiles are dirty.  The observation copies grid, agents_locations,
action_mask and step_count from the state.

Modelling decisions
* Legality is recomputed from `grid` and `agents_locations`; the cached `state.action_mask` is not
  trusted.  For an agent that is *outside* the grid (impossible by the rules; reported by C07) the
  rules define no legal set, so C04 does not judge its mask row (care = False).
* Illegal joint action (C05/C09): the docs only promise that the offending agent does not move and
  that the episode terminates; the agents with legal actions move and clean as usual (DESIGN.md C05:
  "tiles cleaned by the other agents minus the step penalty").
* C08: potential = #clean tiles - penalty * step_count (exact on every edge); objective of a terminal
  state = (#clean tiles - 1) - penalty * step_count, the one clean tile at reset being the start tile
  ("All the tiles except upper left are dirty", reset docstring).
* `key`, the cached `state.action_mask`, `extras` and `discount` are not compared in C09.
"""
from __future__ import annotations

from typing import Any, List, Tuple

import numpy as np

DIRTY, CLEAN, WALL = 0, 1, 2
MOVES = np.array([[-1, 0], [0, 1], [1, 0], [0, -1]], np.int64)  # up, right, down, left
NAMES = ("up", "right", "down", "left")


def _shape(env: Any) -> Tuple[int, int]:
    return int(env.num_rows), int(env.num_cols)


def _inside(env: Any, r: int, c: int) -> bool:
    R, C = _shape(env)
    return 0 <= r < R and 0 <= c < C


def _free(env: Any, grid: np.ndarray, r: int, c: int) -> bool:
    return _inside(env, r, c) and int(grid[r, c]) != WALL


def _locs(s: Any) -> np.ndarray:
    return np.asarray(s.agents_locations).astype(np.int64).reshape(-1, 2)


def _legal_rows(env: Any, grid: np.ndarray, locs: np.ndarray) -> np.ndarray:
    out = np.zeros((len(locs), 4), bool)
    for i, (r, c) in enumerate(locs):
        for k in range(4):
            out[i, k] = _free(env, grid, int(r + MOVES[k, 0]), int(c + MOVES[k, 1]))
    return out


def _penalty(env: Any) -> float:
    return float(env.penalty_per_timestep)


# ---- C04
def legal(env: Any, s: Any) -> Tuple[np.ndarray, np.ndarray]:
    grid, locs = np.asarray(s.grid), _locs(s)
    lg = _legal_rows(env, grid, locs)
    care = np.zeros_like(lg)
    for i, (r, c) in enumerate(locs):
        care[i, :] = _inside(env, int(r), int(c))
    return lg, care


def _agent_legal(env: Any, s: Any, a: Any) -> np.ndarray:
    lg = _legal_rows(env, np.asarray(s.grid), _locs(s))
    a = np.asarray(a).astype(int).reshape(-1)
    return np.array([lg[i, a[i]] for i in range(len(a))], bool)


def action_legal(env: Any, s: Any, a: Any) -> bool:
    return bool(_agent_legal(env, s, a).all())


def mask_allows(env: Any, mask: np.ndarray, a: Any) -> bool:
    a = np.asarray(a).astype(int).reshape(-1)
    return bool(all(mask[i, a[i]] for i in range(len(a))))


def check_reaction(env: Any, s: Any, a: Any, s2: Any, ts: Any, masked_in: bool) -> List[str]:
    a = np.asarray(a).astype(int).reshape(-1)
    locs, locs2 = _locs(s), _locs(s2)
    moved = np.array([tuple(locs2[i]) == tuple(locs[i] + MOVES[a[i]]) for i in range(len(a))])
    if masked_in:
        if not moved.all():
            return [f"masked-in-action-rejected: joint action {a.tolist()} is masked-in for every agent but agents "
                    f"{np.nonzero(~moved)[0].tolist()} did not move ({locs.tolist()} -> {locs2.tolist()})"]
        return []
    if moved.all():
        return [f"masked-out-action-accepted: joint action {a.tolist()} has a masked-out entry but every agent moved "
                f"({locs.tolist()} -> {locs2.tolist()})"]
    if int(ts.step_type) != 2:
        return [f"masked-out-action-not-terminal: joint action {a.tolist()} has a masked-out entry but the step is "
                "not LAST"]
    return []


# ---- shared prediction
def _predict(env: Any, s: Any, a: Any):
    grid = np.asarray(s.grid).copy()
    locs = _locs(s)
    a = np.asarray(a).astype(int).reshape(-1)
    ok = _agent_legal(env, s, a)
    new = locs.copy()
    for i in range(len(a)):
        if ok[i]:
            new[i] = locs[i] + MOVES[a[i]]
    cleaned = 0
    for r, c in new:
        r, c = int(r), int(c)
        if _inside(env, r, c):
            if int(grid[r, c]) == DIRTY:
                cleaned += 1
            if int(grid[r, c]) != WALL:
                grid[r, c] = CLEAN
    k = int(s.step_count) + 1
    done = (not ok.all()) or not (grid == DIRTY).any() or k >= int(env.time_limit)
    return ok, new, grid, k, cleaned - _penalty(env), done


# ---- C05
def check_illegal(env: Any, s: Any, a: Any, s2: Any, ts: Any) -> List[str]:
    out = []
    ok, new, grid, k, reward, done = _predict(env, s, a)
    locs, locs2 = _locs(s), _locs(s2)
    if int(ts.step_type) != 2:
        out.append(f"illegal-action-not-terminal: agents {np.nonzero(~ok)[0].tolist()} chose a blocked move "
                   f"({np.asarray(a).tolist()} from {locs.tolist()}) but the step is not LAST")
    for i in np.nonzero(~ok)[0]:
        if tuple(locs2[i]) != tuple(locs[i]):
            out.append(f"illegal-action-moves-agent: agent {int(i)} chose the blocked move {NAMES[int(np.asarray(a).reshape(-1)[i])]} "
                       f"at {locs[i].tolist()} and ended at {locs2[i].tolist()}")
            break
    if not np.isclose(float(ts.reward), reward, rtol=1e-5, atol=1e-6):
        out.append(f"illegal-action-reward: got {float(ts.reward)}, documented tiles cleaned by the other agents "
                   f"minus the penalty = {reward}")
    walls, walls2 = np.asarray(s.grid) == WALL, np.asarray(s2.grid) == WALL
    if not np.array_equal(walls, walls2):
        out.append("illegal-action-changes-walls: wall tiles changed")
    return out


# ---- C07
def check_invariants(env: Any, s: Any) -> List[str]:
    out = []
    R, C = _shape(env)
    grid = np.asarray(s.grid)
    if grid.shape != (R, C):
        return [f"grid-shape: {grid.shape} vs ({R}, {C})"]
    if not np.isin(grid, (DIRTY, CLEAN, WALL)).all():
        out.append(f"grid-unknown-tile-code: values {np.unique(grid).tolist()}")
    locs = _locs(s)
    if len(locs) != int(env.num_agents):
        out.append(f"agent-count: {len(locs)} locations for {int(env.num_agents)} agents")
    for i, (r, c) in enumerate(locs):
        r, c = int(r), int(c)
        if not _inside(env, r, c):
            out.append(f"agent-out-of-bounds: agent {i} at {(r, c)} on a {R}x{C} grid")
        elif int(grid[r, c]) == WALL:
            out.append(f"agent-inside-wall: agent {i} at {(r, c)}")
        elif int(grid[r, c]) != CLEAN:
            out.append(f"occupied-tile-not-clean: agent {i} stands on tile {(r, c)} with code {int(grid[r, c])}")
    return out


def check_conservation(env: Any, s: Any, a: Any, s2: Any, ts: Any) -> List[str]:
    out = []
    g, g2 = np.asarray(s.grid), np.asarray(s2.grid)
    if g.shape != g2.shape:
        return [f"grid-shape-changed: {g.shape} -> {g2.shape}"]
    if not np.array_equal(g == WALL, g2 == WALL):
        out.append("walls-changed: the set of wall tiles changed during a step")
    if ((g == CLEAN) & (g2 != CLEAN)).any():
        out.append(f"clean-tile-lost: tiles {np.argwhere((g == CLEAN) & (g2 != CLEAN))[:3].tolist()} were clean")
    locs, locs2 = _locs(s), _locs(s2)
    newly = np.argwhere((g == DIRTY) & (g2 == CLEAN))
    occupied = {tuple(int(x) for x in p) for p in locs2}
    stray = [p.tolist() for p in newly if tuple(int(x) for x in p) not in occupied]
    if stray:
        out.append(f"tile-cleaned-without-agent: tiles {stray[:3]} became clean with agents at {locs2.tolist()}")
    jump = np.abs(locs2 - locs).sum(axis=1) > 1
    if jump.any():
        out.append(f"agent-jumped: {locs.tolist()} -> {locs2.tolist()}")
    if int(s2.step_count) != int(s.step_count) + 1:
        out.append(f"step-count-not-incremented: {int(s.step_count)} -> {int(s2.step_count)}")
    return out


# ---- C08
def _n_clean(s: Any) -> int:
    return int((np.asarray(s.grid) == CLEAN).sum())


def potential(env: Any, s: Any) -> float:
    return float(_n_clean(s)) - _penalty(env) * float(int(s.step_count))


def objective(env: Any, s: Any, ts: Any) -> float:
    return float(_n_clean(s) - 1) - _penalty(env) * float(int(s.step_count))


# ---- C09
def check_step(env: Any, s: Any, a: Any, s2: Any, ts: Any) -> List[str]:
    out = []
    ok, new, grid, k, reward, done = _predict(env, s, a)
    locs2 = _locs(s2)
    if not np.array_equal(locs2, new):
        out.append(f"step-field-agents_locations: expected {new.tolist()} got {locs2.tolist()} (from "
                   f"{_locs(s).tolist()}, action {np.asarray(a).tolist()}, legal {ok.tolist()})")
    if not np.array_equal(np.asarray(s2.grid), grid):
        d = np.argwhere(np.asarray(s2.grid) != grid)[:4].tolist()
        out.append(f"step-field-grid: differs from the prediction at {d}")
    if int(s2.step_count) != k:
        out.append(f"step-field-step_count: expected {k} got {int(s2.step_count)}")
    if (int(ts.step_type) == 2) != done:
        out.append(f"step-termination: expected done={done} (legal {ok.tolist()}, dirty left "
                   f"{int((grid == DIRTY).sum())}, step {k}/{int(env.time_limit)}) got step_type={int(ts.step_type)}")
    if not np.isclose(float(ts.reward), reward, rtol=1e-5, atol=1e-6):
        out.append(f"step-reward: expected {reward} got {float(ts.reward)}")
    return out


# ---- C12
def check_obs(env: Any, s: Any, obs: Any) -> List[str]:
    out = []
    if not np.array_equal(np.asarray(obs.grid), np.asarray(s.grid)):
        out.append("obs-grid: observation grid differs from the state")
    if not np.array_equal(np.asarray(obs.agents_locations), np.asarray(s.agents_locations)):
        out.append(f"obs-agents_locations: {np.asarray(obs.agents_locations).tolist()} vs state "
                   f"{np.asarray(s.agents_locations).tolist()}")
    if int(obs.step_count) != int(s.step_count):
        out.append(f"obs-step_count: {int(obs.step_count)} vs state {int(s.step_count)}")
    if not np.array_equal(np.asarray(obs.action_mask, bool), np.asarray(s.action_mask, bool)):
        out.append("obs-action_mask: observation mask differs from the mask kept in the state")
    return out
