"""Reference model of Game2048, written from docs/environments/game_2048.md and the class docstring.

Rules.  The board stores exponents (0 = empty, e>0 = tile of value 2**e).  Actions 0 up, 1 right,
2 down, 3 left: every line slides toward the wall of the chosen direction; two neighbouring equal
tiles (after sliding) merge once into e+1, nearest the wall first, a merged tile does not merge again
in the same move; the reward is the sum of the values 2**(e+1) of the tiles created by merges.  A
move is legal <=> it changes the board ("If the movement in that direction leaves the board
unchanged, the action is considered illegal").  After a legal move one empty cell receives a new
tile of exponent 1 or 2 (environment answer: position and value are read from s2 and checked to be
admissible); an illegal move is ignored (board and score unchanged, nothing spawned, episode goes
on).  The episode ends <=> no legal move exists on the new board.  `score` accumulates the rewards.

Modelling decisions
* `score`: the class docstring calls it "the sum of all tile values on the board", types.py "the
  current score of the game state"; the game's score (and docs "## Reward": "the cumulative reward
  ... is the sum of the values of all newly created tiles") is the accumulated merge reward, which
  is what C09 checks edge by edge (score' = score + predicted reward).
* C08 objective "sum of merged tiles" is recomputed WITHOUT using score or rewards: a tile 2**e
  assembled from 2-tiles only has generated (e-1)*2**e of merge reward; every spawned 4-tile (it
  was not created by a merge) lowers that by 4.  Along mask-respecting play every step spawns one
  tile, so with T = step_count the number of tiles ever spawned is T+1 (one at reset) and
  2*n2 + 4*n4 = sum of tile values (conservation), n2 + n4 = T+1  =>  n4 = S/2 - (T+1) and
  objective = sum_tiles (e-1)*2**e - 4*n4.  `potential` is the same formula on any state, so every
  legal edge is also checked for reward == potential(s2) - potential(s).
* C07: invariants of a continuing state: exponents >= 0, at least one tile, score >= 0, some move
  changes the board; conservation: tile-value sum +2/+4 (the spawned tile) on a legal move, +0 on
  an ignored one, and tile count = old - merges + 1.
* State fields compared by C09: board (up to the admissible new tile), score, step_count,
  action_mask (cached copy of the legal set of the new board).  `key` is not modelled.
* extras["highest_tile"] is not part of the documented observation and is not compared.
"""
from __future__ import annotations

from typing import Any, List, Optional, Tuple

import numpy as np


# ---------------------------------------------------------------------------------- rules
def _slide_line(line: List[int]) -> Tuple[List[int], int]:
    """Slide a line toward index 0.  Returns (new line, reward)."""
    tiles = [int(x) for x in line if int(x) != 0]
    out: List[int] = []
    reward = 0
    i = 0
    while i < len(tiles):
        if i + 1 < len(tiles) and tiles[i] == tiles[i + 1]:
            out.append(tiles[i] + 1)
            reward += 2 ** (tiles[i] + 1)
            i += 2
        else:
            out.append(tiles[i])
            i += 1
    out += [0] * (len(line) - len(out))
    return out, reward


def _move(board: np.ndarray, a: int) -> Tuple[np.ndarray, int]:
    """The board after sliding/merging in direction a (no new tile), and the merge reward."""
    b = np.asarray(board).astype(np.int64)
    n_r, n_c = b.shape
    new = np.zeros_like(b)
    total = 0
    if a == 0:  # up: each column toward row 0
        for c in range(n_c):
            line, r = _slide_line(list(b[:, c]))
            new[:, c] = line
            total += r
    elif a == 2:  # down: each column toward the last row
        for c in range(n_c):
            line, r = _slide_line(list(b[::-1, c]))
            new[::-1, c] = line
            total += r
    elif a == 3:  # left: each row toward column 0
        for r_ in range(n_r):
            line, r = _slide_line(list(b[r_, :]))
            new[r_, :] = line
            total += r
    elif a == 1:  # right: each row toward the last column
        for r_ in range(n_r):
            line, r = _slide_line(list(b[r_, ::-1]))
            new[r_, ::-1] = line
            total += r
    else:
        raise ValueError(f"action {a}")
    return new, total


def _legal_board(board: np.ndarray) -> np.ndarray:
    b = np.asarray(board).astype(np.int64)
    return np.array([not np.array_equal(_move(b, a)[0], b) for a in range(4)], bool)


def _tile_sum(board: np.ndarray) -> int:
    b = np.asarray(board).astype(np.int64)
    return int(sum(2 ** int(e) for e in b.ravel() if e > 0))


# ---------------------------------------------------------------------------------- C04
def legal(env: Any, s: Any) -> np.ndarray:
    return _legal_board(s.board)


def action_legal(env: Any, s: Any, a: Any) -> bool:
    b = np.asarray(s.board).astype(np.int64)
    return not np.array_equal(_move(b, int(a))[0], b)


def check_reaction(env: Any, s: Any, a: Any, s2: Any, ts: Any, masked_in: bool) -> List[str]:
    """Own reaction: an ignored move leaves the board as it was (nothing slides, nothing spawns); an
    accepted move spawns a tile, so the board changes."""
    ignored = np.array_equal(np.asarray(s.board), np.asarray(s2.board))
    if masked_in and ignored:
        return [f"masked-in-action-ignored: direction {int(a)} is masked-in but the board did not change"]
    if not masked_in and not ignored:
        return [f"masked-out-action-accepted: direction {int(a)} is masked-out but the board changed"]
    return []


# ---------------------------------------------------------------------------------- C05
def check_illegal(env: Any, s: Any, a: Any, s2: Any, ts: Any) -> List[str]:
    out = []
    if not np.array_equal(np.asarray(s.board), np.asarray(s2.board)):
        out.append(f"illegal-action-changes-board: move {int(a)} cannot move any tile, yet the board went from "
                   f"{np.asarray(s.board).tolist()} to {np.asarray(s2.board).tolist()} (a tile was moved/spawned)")
    if float(ts.reward) != 0.0:
        out.append(f"illegal-action-reward: ignored move rewarded {float(ts.reward)}")
    if float(s2.score) != float(s.score):
        out.append(f"illegal-action-changes-score: {float(s.score)} -> {float(s2.score)}")
    # the parent is a state from which the episode continues, so it has a legal move; an ignored
    # move leaves it so: the episode must go on
    if int(ts.step_type) == 2 and _legal_board(s.board).any():
        out.append("illegal-action-terminates: an ignored move ended the episode although legal moves remain")
    return out


# ---------------------------------------------------------------------------------- C07
def check_invariants(env: Any, s: Any) -> List[str]:
    out = []
    b = np.asarray(s.board)
    n = int(env.board_size)
    if b.shape != (n, n):
        return [f"board-shape: {b.shape}"]
    if (b < 0).any():
        out.append(f"negative-exponent: {b.tolist()}")
    if not (b > 0).any():
        out.append("empty-board: a 2048 position always holds at least one tile")
    if float(s.score) < 0:
        out.append(f"negative-score: {float(s.score)}")
    if not _legal_board(b).any():
        out.append(f"continuing-state-without-legal-move: no move changes {b.tolist()} but the episode goes on")
    return out


def check_conservation(env: Any, s: Any, a: Any, s2: Any, ts: Any) -> List[str]:
    """Sum of tile values: unchanged by slide/merge; a legal move adds the spawned tile (2 or 4), an
    illegal one nothing."""
    d = _tile_sum(s2.board) - _tile_sum(s.board)
    if action_legal(env, s, a):
        if d not in (2, 4):
            return [f"tile-sum-not-conserved: legal move {int(a)} changed the tile-value sum by {d} "
                    "(expected +2 or +4: the spawned tile)"]
        n0 = int((np.asarray(s.board) > 0).sum())
        n1 = int((np.asarray(s2.board) > 0).sum())
        new, _r = _move(s.board, int(a))
        merges = n0 - int((new > 0).sum())
        if n1 != n0 - merges + 1:
            return [f"tile-count: {n0} tiles, {merges} merges, one spawn, but {n1} tiles after the move"]
    elif d != 0:
        return [f"tile-sum-not-conserved: ignored move {int(a)} changed the tile-value sum by {d}"]
    return []


# ---------------------------------------------------------------------------------- C08
def potential(env: Any, s: Any) -> Optional[float]:
    b = np.asarray(s.board).astype(np.int64)
    total = _tile_sum(b)
    built = sum((int(e) - 1) * 2 ** int(e) for e in b.ravel() if e > 0)
    spawned = int(s.step_count) + 1
    n4 = total / 2.0 - spawned
    return float(built - 4.0 * n4)


def objective(env: Any, s: Any, ts: Any) -> Optional[float]:
    return potential(env, s)


# ---------------------------------------------------------------------------------- C09
def _check_spawn(pred: np.ndarray, got: np.ndarray) -> List[str]:
    diff = np.argwhere(pred != got)
    if len(diff) != 1:
        return [f"step-board: after slide/merge the rules give {pred.tolist()}, the successor is {got.tolist()} "
                f"({len(diff)} cells differ; exactly one new tile is expected)"]
    r, c = diff[0]
    if pred[r, c] != 0:
        return [f"step-new-tile-on-occupied-cell: cell ({r},{c}) held {int(pred[r, c])} and now holds {int(got[r, c])}"]
    if int(got[r, c]) not in (1, 2):
        return [f"step-new-tile-value: new tile exponent {int(got[r, c])} at ({r},{c}) is not 1 or 2"]
    return []


def check_step(env: Any, s: Any, a: Any, s2: Any, ts: Any) -> List[str]:
    out = []
    a = int(a)
    b = np.asarray(s.board).astype(np.int64)
    b2 = np.asarray(s2.board).astype(np.int64)
    pred, r = _move(b, a)
    is_legal = not np.array_equal(pred, b)
    if is_legal:
        out += _check_spawn(pred, b2)
    else:
        r = 0
        if not np.array_equal(b2, b):
            out.append(f"step-ignored-move-changes-board: {b.tolist()} -> {b2.tolist()} on move {a}")
    if not np.isclose(float(ts.reward), float(r), rtol=1e-5, atol=1e-6):
        out.append(f"step-reward: merges of move {a} on {b.tolist()} are worth {r}, got {float(ts.reward)}")
    if not np.isclose(float(s2.score), float(s.score) + float(r), rtol=1e-5, atol=1e-6):
        out.append(f"step-field-score: expected {float(s.score) + r} got {float(s2.score)}")
    if int(s2.step_count) != int(s.step_count) + 1:
        out.append(f"step-field-step_count: expected {int(s.step_count) + 1} got {int(s2.step_count)}")
    leg2 = _legal_board(b2)
    if not np.array_equal(np.asarray(s2.action_mask, bool), leg2):
        out.append(f"step-field-action_mask: cached mask {np.asarray(s2.action_mask).tolist()} vs legal moves "
                   f"of the new board {leg2.tolist()}")
    done = not leg2.any()
    if (int(ts.step_type) == 2) != done:
        out.append(f"step-termination: expected done={done} (legal moves of the new board {leg2.tolist()}) "
                   f"got step_type={int(ts.step_type)}")
    return out


# ---------------------------------------------------------------------------------- C12
def check_obs(env: Any, s: Any, obs: Any) -> List[str]:
    out = []
    if not np.array_equal(np.asarray(obs.board), np.asarray(s.board)):
        out.append("obs-board: observation board differs from the state board")
    if not np.array_equal(np.asarray(obs.action_mask), np.asarray(s.action_mask)):
        out.append("obs-action_mask: observation mask differs from the state's mask")
    if not np.array_equal(np.asarray(obs.action_mask, bool), _legal_board(s.board)):
        out.append("obs-action_mask-vs-board: observation mask is not the set of moves that change the board")
    return out
