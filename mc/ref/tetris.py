"""Reference model of Tetris, written from docs/environments/tetris.md, the class docstring of
jumanji.environments.packing.tetris.env.Tetris and DESIGN.md Appendix A / C.

Rules.  The board is a num_rows x num_cols grid of empty / filled cells.  One of the seven
tetrominoes (I, S, Z, O, T, L, J) is offered at every step.  An action is (rotation 0..3, column x):
the piece is turned `rotation` quarter turns, pushed into the top-left corner of its 4x4 box, the
box's left column is put on column x and the piece falls straight down from above the grid until
it rests on the floor or on a filled cell.  The action is legal <=> the piece fits horizontally
and comes to rest entirely inside the grid ("episode termination: if the tetromino cannot be
placed anymore (i.e., it hits the top of the grid)").  After a legal drop every full row
disappears and the rows above it move down; the reward is (0, 40, 100, 300, 1200)[rows cleared].
Then the environment answers with the next piece (index 0..6, read from s2 and checked for
admissibility); the observation shows that piece in rotation 0, the occupancy of the grid, the
mask of the legal (rotation, column) pairs for it and the step count.  The episode ends (LAST)
<=> the action was illegal (reward 0), or the next piece has no legal placement, or
step_count >= time_limit.  `score` accumulates the rewards.

Modelling decisions
* Action order: docs/environments/tetris.md says "the first integer value corresponds to the
  selected X-position ... the second the rotation", the class docstring, the action spec
  ([4, num_cols]) and the documented mask layout (4, num_cols) say (rotation, x).  The mask layout
  is unambiguous, so (rotation, x) is used.
* The seven base shapes and their index order (0 I, 1 S, 2 Z, 3 O, 4 T, 5 L, 6 J; rotation 0 as
  drawn in `_BASE`) are a convention of the library; the rotated shapes are *derived* here
  (k clockwise quarter turns, pushed to the top-left), not copied.
* Only occupancy is compared (`grid_padded > 0`); the colour ids stored in the grid and the fields
  `y_position`, `grid_padded_old`, `old_tetromino_rotated` are viewer conveniences (DESIGN.md 3.2)
  and are not compared.  `key` is not modelled.
* An illegal action ends the episode with reward 0; the docs promise nothing about the board after
  it (the implementation writes the piece somewhere), so nothing but step type, reward and score is
  compared on illegal edges, and the observation of such a terminal state is only compared with
  the rules (mask) when no cell lies outside the visible grid.
* `full_lines` ("saves the full lines in the last step") is compared with the rows the reference
  found full before clearing; `x_position` with the chosen column (legal actions only).
"""
from __future__ import annotations

from typing import Any, Dict, List, Optional, Tuple

import numpy as np

REWARDS = (0, 40, 100, 300, 1200)

# rotation 0 of the seven pieces, in the library's index order
_BASE = (
    ("I", ("#...", "#...", "#...", "#...")),
    ("S", (".##.", "##..", "....", "....")),
    ("Z", ("##..", ".##.", "....", "....")),
    ("O", ("##..", "##..", "....", "....")),
    ("T", ("###.", ".#..", "....", "....")),
    ("L", ("#...", "#...", "##..", "....")),
    ("J", (".#..", ".#..", "##..", "....")),
)


def _top_left(p: np.ndarray) -> np.ndarray:
    cells = np.argwhere(p > 0)
    r0, c0 = cells.min(axis=0)
    out = np.zeros((4, 4), np.int64)
    for r, c in cells:
        out[r - r0, c - c0] = 1
    return out


def _build_pieces() -> np.ndarray:
    out = np.zeros((7, 4, 4, 4), np.int64)
    for i, (_name, rows) in enumerate(_BASE):
        base = np.array([[1 if ch == "#" else 0 for ch in row] for row in rows], np.int64)
        for k in range(4):
            out[i, k] = _top_left(np.rot90(base, -k))  # k clockwise quarter turns
    return out


PIECES = _build_pieces()
_CELLS = [[[(int(r), int(c)) for r, c in np.argwhere(PIECES[i, k] > 0)] for k in range(4)] for i in range(7)]


# ------------------------------------------------------------------------------------ rules
def _dims(env: Any) -> Tuple[int, int]:
    return int(env.num_rows), int(env.num_cols)


def _occ(env: Any, s: Any) -> np.ndarray:
    R, C = _dims(env)
    return np.asarray(s.grid_padded)[:R, :C] > 0


def _outside(env: Any, s: Any) -> int:
    """Number of filled cells of the padded array that lie outside the visible grid."""
    R, C = _dims(env)
    g = np.asarray(s.grid_padded) > 0
    return int(g.sum() - g[:R, :C].sum())


def _drop(occ: np.ndarray, cells: List[Tuple[int, int]], x: int) -> Optional[int]:
    """Row offset y at which the piece comes to rest, or None when the placement is illegal."""
    R, C = occ.shape
    if x < 0 or x + max(c for _r, c in cells) >= C:
        return None

    def fits(y: int) -> bool:
        for r, c in cells:
            rr = y + r
            if rr >= R:
                return False
            if rr >= 0 and occ[rr, x + c]:
                return False
        return True

    y = -4  # the whole 4x4 box is above the grid
    while fits(y + 1):
        y += 1
    if any(y + r < 0 for r, _c in cells):
        return None  # rests (partly) above the top of the grid
    return y


def _place(occ: np.ndarray, cells: List[Tuple[int, int]], x: int) -> Optional[Tuple[np.ndarray, np.ndarray]]:
    """(grid after the drop and line clearing, rows that were full) or None if illegal."""
    y = _drop(occ, cells, x)
    if y is None:
        return None
    g = occ.copy()
    for r, c in cells:
        g[y + r, x + c] = True
    full = g.all(axis=1)
    k = int(full.sum())
    new = np.concatenate([np.zeros((k, g.shape[1]), bool), g[~full]], axis=0)
    return new, full


def _legal_grid(occ: np.ndarray, piece: int) -> np.ndarray:
    R, C = occ.shape
    out = np.zeros((4, C), bool)
    if not 0 <= piece < 7:
        return out
    for k in range(4):
        for x in range(C):
            out[k, x] = _drop(occ, _CELLS[piece][k], x) is not None
    return out


# ------------------------------------------------------------------------------------ C04
def legal(env: Any, s: Any) -> np.ndarray:
    return _legal_grid(_occ(env, s), int(s.tetromino_index))


def action_legal(env: Any, s: Any, a: Any) -> bool:
    k, x = int(a[0]), int(a[1])
    p = int(s.tetromino_index)
    if not 0 <= p < 7:
        return False
    return _drop(_occ(env, s), _CELLS[p][k], x) is not None


def mask_allows(env: Any, mask: np.ndarray, a: Any) -> bool:
    return bool(mask[int(a[0]), int(a[1])])


def check_reaction(env: Any, s: Any, a: Any, s2: Any, ts: Any, masked_in: bool) -> List[str]:
    """Invalid-action path = the episode ends with reward 0 for no other reason."""
    last = int(ts.step_type) == 2
    if not masked_in:
        if not last or float(ts.reward) != 0.0:
            return [f"masked-out-action-accepted: action {np.asarray(a).tolist()} is masked-out but the step gave "
                    f"step_type={int(ts.step_type)} reward={float(ts.reward)}"]
        return []
    if last:
        other = int(s2.step_count) >= int(env.time_limit) or not legal(env, s2).any()
        if not other:
            return [f"masked-in-action-punished: action {np.asarray(a).tolist()} is masked-in, the time limit is "
                    "not reached and the next piece can be placed, yet the episode ended"]
    return []


# ------------------------------------------------------------------------------------ C05
def check_illegal(env: Any, s: Any, a: Any, s2: Any, ts: Any) -> List[str]:
    out = []
    if int(ts.step_type) != 2:
        out.append(f"illegal-action-not-terminal: placement {np.asarray(a).tolist()} of piece "
                   f"{int(s.tetromino_index)} cannot come to rest inside the grid, yet the episode continues")
    if float(ts.reward) != 0.0:
        out.append(f"illegal-action-reward: got {float(ts.reward)}, an invalid placement earns 0")
    if not np.isclose(float(s2.score), float(s.score)):
        out.append(f"illegal-action-changes-score: {float(s.score)} -> {float(s2.score)}")
    return out


# ------------------------------------------------------------------------------------ C07
def check_invariants(env: Any, s: Any) -> List[str]:
    out = []
    R, C = _dims(env)
    g = np.asarray(s.grid_padded)
    if g.shape != (R + 3, C + 3):
        return [f"grid-shape: {g.shape}"]
    if (g < 0).any():
        out.append("negative-cell: the grid holds a negative value")
    n_out = _outside(env, s)
    if n_out:
        out.append(f"cells-outside-grid: {n_out} filled cells lie in the padding outside the {R}x{C} grid")
    occ = g[:R, :C] > 0
    if occ.all(axis=1).any():
        out.append(f"full-row-not-cleared: rows {np.nonzero(occ.all(axis=1))[0].tolist()} are full in a state from "
                   "which the episode continues")
    p = int(s.tetromino_index)
    if not 0 <= p < 7:
        out.append(f"piece-index-out-of-range: {p}")
    elif not np.array_equal(np.asarray(s.new_tetromino) > 0, PIECES[p, 0] > 0):
        out.append(f"piece-table-disagrees: new_tetromino is not piece {p} in rotation 0")
    return out


def check_conservation(env: Any, s: Any, a: Any, s2: Any, ts: Any) -> List[str]:
    """Filled cells: +4 for the piece, minus num_cols for every cleared row (non-terminal edges are
    legal placements)."""
    R, C = _dims(env)
    n0, n1 = int(_occ(env, s).sum()), int(_occ(env, s2).sum())
    p = int(s.tetromino_index)
    res = _place(_occ(env, s), _CELLS[p][int(a[0])], int(a[1])) if 0 <= p < 7 else None
    if res is None:
        return [f"continues-after-illegal-placement: action {np.asarray(a).tolist()} is illegal but the episode goes on"]
    k = int(res[1].sum())
    if n1 != n0 + 4 - C * k:
        return [f"cell-count-not-conserved: {n0} cells + 4 - {C}*{k} cleared rows = {n0 + 4 - C * k}, the grid "
                f"holds {n1}"]
    return []


# ------------------------------------------------------------------------------------ C09
def check_step(env: Any, s: Any, a: Any, s2: Any, ts: Any) -> List[str]:
    out: List[str] = []
    R, C = _dims(env)
    k, x = int(a[0]), int(a[1])
    p = int(s.tetromino_index)
    occ = _occ(env, s)
    res = _place(occ, _CELLS[p][k], x) if 0 <= p < 7 else None
    if res is None:
        return [q.replace("illegal-action", "step-illegal-action") for q in check_illegal(env, s, a, s2, ts)]
    new, full = res
    occ2 = _occ(env, s2)
    if not np.array_equal(occ2, new):
        out.append(f"step-grid: piece {p} rotation {k} column {x} on {occ.astype(int).tolist()} must give "
                   f"{new.astype(int).tolist()}, got {occ2.astype(int).tolist()}")
    if _outside(env, s2):
        out.append("step-cells-outside-grid: a legal placement left filled cells outside the visible grid")
    cleared = int(full.sum())
    r = float(REWARDS[cleared])
    if not np.isclose(float(ts.reward), r):
        out.append(f"step-reward: {cleared} rows cleared are worth {r}, got {float(ts.reward)}")
    if not np.isclose(float(s2.score), float(s.score) + r):
        out.append(f"step-field-score: expected {float(s.score) + r} got {float(s2.score)}")
    if not np.isclose(float(s2.reward), r):
        out.append(f"step-field-reward: expected {r} got {float(s2.reward)}")
    if int(s2.step_count) != int(s.step_count) + 1:
        out.append(f"step-field-step_count: expected {int(s.step_count) + 1} got {int(s2.step_count)}")
    if int(s2.x_position) != x:
        out.append(f"step-field-x_position: expected {x} got {int(s2.x_position)}")
    fl = np.asarray(s2.full_lines, bool)
    if not np.array_equal(fl[:R], full) or fl[R:].any():
        out.append(f"step-field-full_lines: expected rows {np.nonzero(full)[0].tolist()} got "
                   f"{np.nonzero(fl)[0].tolist()}")
    if bool(s2.is_reset):
        out.append("step-field-is_reset: still True after a step")
    # environment answer: the next piece
    p2 = int(s2.tetromino_index)
    if not 0 <= p2 < 7:
        out.append(f"step-next-piece-index: {p2} is not one of the 7 tetrominoes")
        return out
    if not np.array_equal(np.asarray(s2.new_tetromino) > 0, PIECES[p2, 0] > 0):
        out.append(f"step-field-new_tetromino: not piece {p2} in rotation 0")
    leg2 = _legal_grid(new, p2)
    if not np.array_equal(np.asarray(s2.action_mask, bool), leg2):
        out.append(f"step-field-action_mask: cached mask {np.asarray(s2.action_mask).astype(int).tolist()} vs legal "
                   f"placements of piece {p2} on the new grid {leg2.astype(int).tolist()}")
    done = (not leg2.any()) or (int(s.step_count) + 1 >= int(env.time_limit))
    if (int(ts.step_type) == 2) != done:
        out.append(f"step-termination: expected done={done} (next piece placeable={bool(leg2.any())}, step "
                   f"{int(s.step_count) + 1} of {int(env.time_limit)}) got step_type={int(ts.step_type)}")
    return out


# ------------------------------------------------------------------------------------ C12
def check_obs(env: Any, s: Any, obs: Any) -> List[str]:
    out = []
    occ = _occ(env, s)
    g = np.asarray(obs.grid)
    if g.shape != occ.shape or not np.array_equal(g, occ.astype(g.dtype)):
        out.append("obs-grid: observation grid is not the 0/1 occupancy of the state's visible grid")
    p = int(s.tetromino_index)
    t = np.asarray(obs.tetromino)
    if not np.array_equal(t, np.asarray(s.new_tetromino)):
        out.append("obs-tetromino: observation piece differs from state.new_tetromino")
    if 0 <= p < 7 and not np.array_equal(t, PIECES[p, 0].astype(t.dtype)):
        out.append(f"obs-tetromino-vs-index: observation piece is not piece {p} in rotation 0")
    m = np.asarray(obs.action_mask, bool)
    if not np.array_equal(m, np.asarray(s.action_mask, bool)):
        out.append("obs-action_mask: observation mask differs from the state's mask")
    if _outside(env, s) == 0 and 0 <= p < 7 and not np.array_equal(m, _legal_grid(occ, p)):
        out.append("obs-action_mask-vs-grid: observation mask is not the set of legal placements of the shown piece "
                   "on the shown grid")
    if int(obs.step_count) != int(s.step_count):
        out.append(f"obs-step_count: observation shows {int(obs.step_count)}, the state is at step "
                   f"{int(s.step_count)}")
    return out
