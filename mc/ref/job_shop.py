"""Reference model of JobShop, written from docs/environments/job_shop.md, the class docstring of
jumanji.environments.packing.job_shop.env.JobShop and the field docs in types.py.

Rules.  num_jobs jobs, each an ordered list of operations (machine, duration); padded operations
carry machine -1.  Time advances by one per step; the state at `step_count = t` is "the beginning of
time slot t".  An operation scheduled at time t with duration d occupies the slots t, ..., t+d-1 of
its machine and of its job (interval [t, t+d)).  The action gives every machine a job id or
`num_jobs` (no-op).  Entry (m, j) is legal <=> machine m is idle (no operation of m occupies slot
t) and job j has an unscheduled operation and the first one needs machine m and no operation of job
j occupies slot t; the no-op is always legal.  A joint action is legal <=> every entry is (two
machines cannot both legally take the same job, its next operation names one machine).  A legal
action starts the chosen operations at time t (scheduled_times := t).  The episode ends (LAST)
<=> any entry was illegal, or nothing ran during slot t ("all machines are inactive at the same
time"; reward -num_jobs*max_num_ops*max_op_duration in both cases), or every operation has been
scheduled and has run to completion (reward -1 like every ordinary step).  The makespan of a
finished schedule is max(start + duration), which is also the number of steps taken.

All legality / successor statements are derived from the raw schedule (scheduled_times, durations,
machine ids) and the clock, NOT from machines_job_ids / machines_remaining_times / ops_mask, which
are themselves predicted and compared.

Modelling decisions
* "Simultaneously idle" is read as in DESIGN.md Appendix C: no machine worked during the time slot of
  the step just taken (every machine was available and got a no-op).
* The docs do not say what happens to the schedule on an illegal action (the implementation applies
  it anyway); only LAST and the penalty are compared on illegal edges (C05, C09).
* machines_job_ids is "the job currently being processed" with no-op <=> nothing; for a machine whose
  operation has just run its last slot (remaining time 0) the docs are silent on whether the id is
  still the job or already the no-op, so both are accepted there; a machine with time remaining must
  show its job, a machine that did not work in the last slot must show the no-op.
* C08: objective -makespan is defined for completed schedules only (None for the idle-deadlock
  ending); `potential` = -elapsed time - penalty*[the last slot was idle] additionally checks every
  legal edge, penalised ones included, against the documented reward.
* C12: every observation field is documented as "same as" the state field, so C12 compares copies;
  that the mask / machine fields are the right functions of the schedule is decided by C04 / C09
  (after an illegal action the schedule is undefined, so nothing more can be said there).
* `key` is not modelled.
"""
from __future__ import annotations

from typing import Any, List, Optional, Tuple

import numpy as np


# ------------------------------------------------------------------------------------ rules
def _penalty(env: Any) -> float:
    return float(int(env.num_jobs) * int(env.max_num_ops) * int(env.max_op_duration))


def _sched(s: Any) -> Tuple[np.ndarray, np.ndarray, np.ndarray, np.ndarray]:
    M = np.asarray(s.ops_machine_ids).astype(np.int64)
    D = np.asarray(s.ops_durations).astype(np.int64)
    T = np.asarray(s.scheduled_times).astype(np.int64)
    return M, D, T, M != -1


def _running(M: np.ndarray, D: np.ndarray, T: np.ndarray, real: np.ndarray, t: int) -> np.ndarray:
    """Operations occupying time slot t."""
    return real & (T >= 0) & (T <= t) & (t < T + D)


def _next_ops(T: np.ndarray, real: np.ndarray) -> List[Optional[int]]:
    out: List[Optional[int]] = []
    for j in range(T.shape[0]):
        idx = np.nonzero(real[j] & (T[j] < 0))[0]
        out.append(int(idx[0]) if len(idx) else None)
    return out


def _legal_from(env: Any, M: np.ndarray, D: np.ndarray, T: np.ndarray, real: np.ndarray, t: int) -> np.ndarray:
    nm, nj = int(env.num_machines), int(env.num_jobs)
    run = _running(M, D, T, real, t)
    busy_m = np.zeros(nm, bool)
    for m in M[run]:
        if 0 <= m < nm:
            busy_m[m] = True
    busy_j = run.any(axis=1)
    nxt = _next_ops(T, real)
    out = np.zeros((nm, nj + 1), bool)
    out[:, nj] = True
    for j in range(nj):
        k = nxt[j]
        if k is None or busy_j[j]:
            continue
        m = int(M[j, k])
        if 0 <= m < nm and not busy_m[m]:
            out[m, j] = True
    return out


def _apply(env: Any, s: Any, a: np.ndarray) -> np.ndarray:
    """scheduled_times after a LEGAL joint action."""
    M, D, T, real = _sched(s)
    t = int(s.step_count)
    T2 = T.copy()
    nxt = _next_ops(T, real)
    for m in range(int(env.num_machines)):
        j = int(a[m])
        if j < int(env.num_jobs):
            T2[j, nxt[j]] = t
    return T2


# ------------------------------------------------------------------------------------ C04
def legal(env: Any, s: Any) -> np.ndarray:
    M, D, T, real = _sched(s)
    return _legal_from(env, M, D, T, real, int(s.step_count))


def action_legal(env: Any, s: Any, a: Any) -> bool:
    leg = legal(env, s)
    a = np.asarray(a)
    return bool(all(leg[m, int(a[m])] for m in range(leg.shape[0])))


def mask_allows(env: Any, mask: np.ndarray, a: Any) -> bool:
    a = np.asarray(a)
    return bool(all(mask[m, int(a[m])] for m in range(mask.shape[0])))


def _slot_idle_after(env: Any, s: Any, a: np.ndarray) -> bool:
    """Nothing runs during the slot of this step: nothing was running and every entry is a no-op."""
    M, D, T, real = _sched(s)
    return bool((np.asarray(a) == int(env.num_jobs)).all()) and not _running(M, D, T, real, int(s.step_count)).any()


def check_reaction(env: Any, s: Any, a: Any, s2: Any, ts: Any, masked_in: bool) -> List[str]:
    pen = -_penalty(env)
    punished = int(ts.step_type) == 2 and np.isclose(float(ts.reward), pen)
    if not masked_in and not punished:
        return [f"masked-out-action-accepted: action {np.asarray(a).tolist()} has a masked-out entry but the step "
                f"gave step_type={int(ts.step_type)} reward={float(ts.reward)}"]
    if masked_in and punished and not _slot_idle_after(env, s, np.asarray(a)):
        return [f"masked-in-action-punished: action {np.asarray(a).tolist()} is masked-in for every machine and a "
                "machine works during this step, yet the step took the penalty path"]
    return []


# ------------------------------------------------------------------------------------ C05
def check_illegal(env: Any, s: Any, a: Any, s2: Any, ts: Any) -> List[str]:
    out = []
    if int(ts.step_type) != 2:
        out.append(f"illegal-action-not-terminal: action {np.asarray(a).tolist()} has an illegal entry, the episode "
                   "must end")
    if not np.isclose(float(ts.reward), -_penalty(env)):
        out.append(f"illegal-action-reward: got {float(ts.reward)}, documented penalty {-_penalty(env)}")
    return out


# ------------------------------------------------------------------------------------ C06
def _intervals_overlap(iv: List[Tuple[int, int, Any]]) -> Optional[Tuple[Any, Any]]:
    iv = sorted(iv, key=lambda x: (x[0], x[1]))
    for p, q in zip(iv, iv[1:]):
        if q[0] < p[1]:
            return p[2], q[2]
    return None


def check_constraints(env: Any, s: Any) -> List[str]:
    out = []
    M, D, T, real = _sched(s)
    t = int(s.step_count)
    nj, no = T.shape
    if ((T >= 0) & ~real).any():
        out.append("padding-op-scheduled: a padded operation has a scheduled time")
    if (T[real] >= t).any() and t >= 0:
        out.append(f"op-scheduled-in-the-future: a start time >= current time {t}")
    per_machine: dict = {}
    for j in range(nj):
        started = [k for k in range(no) if real[j, k] and T[j, k] >= 0]
        n_real = int(real[j].sum())
        if started != list(range(len(started))) or (started and started[-1] >= n_real):
            out.append(f"job-order-skipped: job {j} has operations {started} scheduled, not a prefix")
        for k in started:
            per_machine.setdefault(int(M[j, k]), []).append((int(T[j, k]), int(T[j, k] + D[j, k]), (j, k)))
        for k1, k2 in zip(started, started[1:]):
            if T[j, k2] < T[j, k1] + D[j, k1]:
                out.append(f"job-precedence-violated: job {j} op {k2} starts at {int(T[j, k2])} before op {k1} "
                           f"ends at {int(T[j, k1] + D[j, k1])}")
        ov = _intervals_overlap([(int(T[j, k]), int(T[j, k] + D[j, k]), k) for k in started])
        if ov is not None:
            out.append(f"job-ops-overlap: job {j} operations {ov[0]} and {ov[1]} run at the same time")
    for m, iv in per_machine.items():
        ov = _intervals_overlap(iv)
        if ov is not None:
            out.append(f"machine-ops-overlap: machine {m} runs (job, op) {ov[0]} and {ov[1]} at the same time")
    if not np.array_equal(np.asarray(s.ops_mask, bool), real & (T < 0)):
        out.append("ops-mask-disagrees-with-schedule: ops_mask is not 'real operation without a scheduled time'")
    return out


def _complete(M: np.ndarray, D: np.ndarray, T: np.ndarray, real: np.ndarray, t: int) -> bool:
    return bool((T[real] >= 0).all() and ((T + D)[real] <= t).all())


def check_complete(env: Any, s: Any, ts: Any) -> List[str]:
    M, D, T, real = _sched(s)
    t = int(s.step_count)
    if (T[real] >= 0).all():
        late = (T + D)[real] > t
        if late.any():
            return [f"terminated-before-last-op-finished: an operation ends at {int((T + D)[real].max())}, the "
                    f"episode ended at {t}"]
        return []
    # not complete: only the idle deadlock may end a mask-respecting episode
    if t >= 1 and not _running(M, D, T, real, t - 1).any():
        return []
    return [f"terminated-incomplete: {int((real & (T < 0)).sum())} operations unscheduled, a machine worked in the "
            "last slot, yet the episode ended"]


# ------------------------------------------------------------------------------------ C08
def _deadlock(s: Any) -> bool:
    M, D, T, real = _sched(s)
    t = int(s.step_count)
    return t >= 1 and not _running(M, D, T, real, t - 1).any()


def potential(env: Any, s: Any) -> float:
    return -float(int(s.step_count)) - (_penalty(env) - 1.0) * float(_deadlock(s))


def objective(env: Any, s: Any, ts: Any) -> Optional[float]:
    M, D, T, real = _sched(s)
    if not _complete(M, D, T, real, int(s.step_count)) or _deadlock(s):
        return None
    return -float((T + D)[real].max()) if real.any() else 0.0


# ------------------------------------------------------------------------------------ C09
def check_step(env: Any, s: Any, a: Any, s2: Any, ts: Any) -> List[str]:
    a = np.asarray(a)
    if not action_legal(env, s, a):
        return [q.replace("illegal-action", "step-illegal-action") for q in check_illegal(env, s, a, s2, ts)]
    out: List[str] = []
    nm, nj = int(env.num_machines), int(env.num_jobs)
    M, D, T, real = _sched(s)
    t = int(s.step_count)
    T2 = _apply(env, s, a)
    now = t + 1
    if not np.array_equal(np.asarray(s2.scheduled_times), T2):
        out.append(f"step-field-scheduled_times: expected {T2.tolist()} got {np.asarray(s2.scheduled_times).tolist()}")
    exp_mask = real & (T2 < 0)
    if not np.array_equal(np.asarray(s2.ops_mask, bool), exp_mask):
        out.append(f"step-field-ops_mask: expected {exp_mask.astype(int).tolist()} got "
                   f"{np.asarray(s2.ops_mask).astype(int).tolist()}")
    for f in ("ops_machine_ids", "ops_durations"):
        if not np.array_equal(np.asarray(getattr(s2, f)), np.asarray(getattr(s, f))):
            out.append(f"step-field-{f}: the instance changed")
    if int(s2.step_count) != now:
        out.append(f"step-field-step_count: expected {now} got {int(s2.step_count)}")
    # machines
    run_now = _running(M, D, T2, real, now)
    ran_last = _running(M, D, T2, real, t)
    rem = np.zeros(nm, np.int64)
    job_now = np.full(nm, -1)
    job_last = np.full(nm, -1)
    for j, k in np.argwhere(run_now):
        rem[M[j, k]] = T2[j, k] + D[j, k] - now
        job_now[M[j, k]] = j
    for j, k in np.argwhere(ran_last):
        job_last[M[j, k]] = j
    got_rem = np.asarray(s2.machines_remaining_times)
    if not np.array_equal(got_rem, rem):
        out.append(f"step-field-machines_remaining_times: expected {rem.tolist()} got {got_rem.tolist()}")
    got_ids = np.asarray(s2.machines_job_ids)
    for m in range(nm):
        g = int(got_ids[m])
        if job_now[m] >= 0:
            allowed = {int(job_now[m])}
        elif job_last[m] >= 0:
            allowed = {int(job_last[m]), nj}
        else:
            allowed = {nj}
        if g not in allowed:
            out.append(f"step-field-machines_job_ids: machine {m} shows {g}, expected one of {sorted(allowed)} "
                       f"(no-op = {nj})")
    leg2 = _legal_from(env, M, D, T2, real, now)
    if not np.array_equal(np.asarray(s2.action_mask, bool), leg2):
        out.append(f"step-field-action_mask: cached mask {np.asarray(s2.action_mask).astype(int).tolist()} vs legal "
                   f"set of the new state {leg2.astype(int).tolist()}")
    idle = not ran_last.any()
    finished = _complete(M, D, T2, real, now)
    done = idle or finished
    if (int(ts.step_type) == 2) != done:
        out.append(f"step-termination: expected done={done} (idle slot={idle}, schedule finished={finished}) got "
                   f"step_type={int(ts.step_type)}")
    r = -_penalty(env) if idle else -1.0
    if not np.isclose(float(ts.reward), r):
        out.append(f"step-reward: expected {r} got {float(ts.reward)}")
    return out


# ------------------------------------------------------------------------------------ C12
def check_obs(env: Any, s: Any, obs: Any) -> List[str]:
    out = []
    for f in ("ops_machine_ids", "ops_durations", "ops_mask", "machines_job_ids", "machines_remaining_times",
              "action_mask"):
        if not np.array_equal(np.asarray(getattr(obs, f)), np.asarray(getattr(s, f))):
            out.append(f"obs-{f}: observation field differs from the state")
    return out
