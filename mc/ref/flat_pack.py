"""Reference model of FlatPack, written from docs/environments/flat_pack.md and the class docstring
of jumanji.environments.packing.flat_pack.env.FlatPack (+ reward.py docstrings).

Rules.  A num_rows x num_cols grid (0 = empty) and num_blocks blocks, each a 3x3 array whose
non-zero cells all carry the block's own number.  Action = (block, rotation, row, col): the block is
turned `rotation` quarter turns and its 3x3 box is put with its top-left corner on (row, col)
(row <= num_rows-3, col <= num_cols-3, so the box is always inside the grid).  The action is legal
<=> the block has not been placed yet and every non-zero cell of the rotated block lands on an empty
cell.  A legal action writes the block's number into those cells and marks the block as placed; an
illegal action is ignored (nothing is placed, reward 0, the episode goes on).  Every action counts
as a step; the episode ends when `num_blocks` steps have been taken (this subsumes "all blocks have
been placed", which needs num_blocks legal steps).  CellDenseReward: number of non-zero cells of the
placed block / (num_rows*num_cols); BlockDenseReward: 1/num_blocks per placed block.

Modelling decisions
* Rotation direction is not stated in the docs ("number of 90 degree rotations"); utils.rotate_block
  turns clockwise, which is taken as the convention (rotation k = np.rot90(block, -k)).
* "placed" is recomputed from the grid (the block's number occurs on the grid); `placed_blocks` is
  checked against it (C06/C09) instead of being trusted.
* C08: the property names the covered fraction; that is the documented objective of the cell-dense
  reward.  For BlockDenseReward the documented objective is the fraction of blocks placed
  ("each placed block will receive a reward of 1/num_blocks"), recomputed as the number of distinct
  block numbers on the grid / num_blocks.  `potential` is the same quantity on any state, so every
  legal edge is checked too.  Other reward classes: no objective (not covered).
* The docs' third termination cause "the grid is filled" coincides with "all blocks placed" for the
  shipped generators (the blocks tile the grid) and is subsumed by the step limit.
* `key` is not modelled.
"""
from __future__ import annotations

from collections import OrderedDict
from typing import Any, List, Optional, Tuple

import numpy as np
from numpy.lib.stride_tricks import sliding_window_view


# ------------------------------------------------------------------------------------ rules
def _rot(block: np.ndarray, k: int) -> np.ndarray:
    return np.rot90(block, -int(k))  # k clockwise quarter turns


def _numbers(blocks: np.ndarray) -> np.ndarray:
    """The number carried by each block (max of its cells; 0 for an all-zero block)."""
    return np.asarray(blocks).reshape(len(blocks), -1).max(axis=1)


def _placed_from_grid(grid: np.ndarray, blocks: np.ndarray) -> np.ndarray:
    nums = _numbers(blocks)
    return np.isin(nums, np.unique(grid)) & (nums != 0)


_LEGAL_CACHE: "OrderedDict[Tuple[bytes, bytes], np.ndarray]" = OrderedDict()


def _legal_all(grid: np.ndarray, blocks: np.ndarray) -> np.ndarray:
    grid = np.asarray(grid)
    blocks = np.asarray(blocks)
    key = (grid.tobytes() + bytes(grid.shape), blocks.tobytes())
    hit = _LEGAL_CACHE.get(key)
    if hit is not None:
        _LEGAL_CACHE.move_to_end(key)
        return hit
    R, C = grid.shape
    nb = len(blocks)
    win = sliding_window_view(grid != 0, (3, 3))  # [R-2, C-2, 3, 3]
    placed = _placed_from_grid(grid, blocks)
    out = np.zeros((nb, 4, R - 2, C - 2), bool)
    for b in range(nb):
        if placed[b]:
            continue
        for k in range(4):
            shape = _rot(blocks[b], k) != 0
            out[b, k] = ~(win & shape).any(axis=(2, 3))
    _LEGAL_CACHE[key] = out
    if len(_LEGAL_CACHE) > 20000:
        _LEGAL_CACHE.popitem(last=False)
    return out


def _one_legal(grid: np.ndarray, blocks: np.ndarray, a: Any) -> Tuple[bool, np.ndarray]:
    """(legal?, rotated block) for a single action."""
    b, k, r, c = (int(v) for v in np.asarray(a))
    blk = _rot(np.asarray(blocks[b]), k)
    num = int(np.asarray(blocks[b]).max())
    if num != 0 and (grid == num).any():
        return False, blk
    window = grid[r:r + 3, c:c + 3]
    if window.shape != (3, 3):
        return False, blk
    return not ((window != 0) & (blk != 0)).any(), blk


def _reward_kind(env: Any) -> str:
    return type(env.reward_fn).__name__


def _reward_legal(env: Any, blk: np.ndarray) -> Optional[float]:
    kind = _reward_kind(env)
    if kind == "CellDenseReward":
        return float((blk != 0).sum()) / float(int(env.num_rows) * int(env.num_cols))
    if kind == "BlockDenseReward":
        return 1.0 / float(int(env.num_blocks))
    return None


# ------------------------------------------------------------------------------------ C04
def legal(env: Any, s: Any) -> np.ndarray:
    return _legal_all(np.asarray(s.grid), np.asarray(s.blocks))


def action_legal(env: Any, s: Any, a: Any) -> bool:
    return _one_legal(np.asarray(s.grid), np.asarray(s.blocks), a)[0]


def mask_allows(env: Any, mask: np.ndarray, a: Any) -> bool:
    return bool(mask[tuple(int(v) for v in np.asarray(a))])


def check_reaction(env: Any, s: Any, a: Any, s2: Any, ts: Any, masked_in: bool) -> List[str]:
    ignored = np.array_equal(np.asarray(s.grid), np.asarray(s2.grid))
    if masked_in and ignored:
        return [f"masked-in-action-ignored: action {np.asarray(a).tolist()} is masked-in but nothing was placed"]
    if not masked_in and not ignored:
        return [f"masked-out-action-accepted: action {np.asarray(a).tolist()} is masked-out but the grid changed"]
    return []


# ------------------------------------------------------------------------------------ C05
def _check_ignored(env: Any, s: Any, a: Any, s2: Any, ts: Any, prefix: str) -> List[str]:
    out = []
    for f in ("grid", "placed_blocks", "blocks"):
        if not np.array_equal(np.asarray(getattr(s, f)), np.asarray(getattr(s2, f))):
            out.append(f"{prefix}-changes-{f}: action {np.asarray(a).tolist()} is illegal and must be ignored, "
                       f"yet {f} changed")
    if float(ts.reward) != 0.0:
        out.append(f"{prefix}-reward: ignored action rewarded {float(ts.reward)}")
    limit = int(s.step_count) + 1 >= int(env.num_blocks)
    if int(ts.step_type) == 2 and not limit:
        out.append(f"{prefix}-terminates: the episode ended at step {int(s.step_count) + 1} of "
                   f"{int(env.num_blocks)} on an ignored action")
    return out


def check_illegal(env: Any, s: Any, a: Any, s2: Any, ts: Any) -> List[str]:
    return _check_ignored(env, s, a, s2, ts, "illegal-action")


# ------------------------------------------------------------------------------------ C06
def _norm_cells(mask: np.ndarray) -> Tuple[Tuple[int, int], ...]:
    cells = np.argwhere(mask)
    if not len(cells):
        return ()
    cells = cells - cells.min(axis=0)
    return tuple(sorted((int(r), int(c)) for r, c in cells))


def check_constraints(env: Any, s: Any) -> List[str]:
    out = []
    grid = np.asarray(s.grid)
    blocks = np.asarray(s.blocks)
    nb = int(env.num_blocks)
    if grid.shape != (int(env.num_rows), int(env.num_cols)):
        return [f"grid-shape: {grid.shape}"]
    nums = _numbers(blocks)
    known = set(int(v) for v in nums if v != 0)
    on_grid = set(int(v) for v in np.unique(grid) if v != 0)
    if not on_grid <= known:
        out.append(f"cell-covered-twice-or-foreign-number: the grid holds {sorted(on_grid - known)} which is no "
                   "block's number (overlapping blocks add their numbers)")
    placed = np.asarray(s.placed_blocks, bool)
    total = 0
    for b in range(nb):
        v = int(nums[b])
        here = grid == v if v != 0 else np.zeros_like(grid, bool)
        if placed[b] != bool(here.any()):
            out.append(f"placed-flag-disagrees-with-grid: block {b} (number {v}) placed={bool(placed[b])}, on the "
                       f"grid={bool(here.any())}")
        if not here.any():
            continue
        total += int((blocks[b] != 0).sum())
        want = {_norm_cells(_rot(blocks[b], k) != 0) for k in range(4)}
        if _norm_cells(here) not in want:
            out.append(f"block-shape-broken: the cells numbered {v} are not a rotation of block {b} "
                       "(a cell is covered twice or the block was written incompletely)")
    if not out and int((grid != 0).sum()) != total:
        out.append(f"covered-cell-count: {int((grid != 0).sum())} covered cells vs {total} cells of the placed blocks")
    return out


def check_complete(env: Any, s: Any, ts: Any) -> List[str]:
    out = []
    if not np.asarray(s.placed_blocks, bool).all():
        out.append(f"incomplete-at-termination: placed_blocks={np.asarray(s.placed_blocks).astype(int).tolist()} "
                   "after num_blocks legal steps")
    if (np.asarray(s.grid) == 0).any():
        out.append(f"grid-not-filled-at-termination: {int((np.asarray(s.grid) == 0).sum())} empty cells")
    return out


# ------------------------------------------------------------------------------------ C08
def potential(env: Any, s: Any) -> float:
    grid = np.asarray(s.grid)
    if _reward_kind(env) == "BlockDenseReward":
        return float(len([v for v in np.unique(grid) if v != 0])) / float(int(env.num_blocks))
    return float((grid != 0).sum()) / float(grid.size)


def objective(env: Any, s: Any, ts: Any) -> Optional[float]:
    if _reward_kind(env) not in ("CellDenseReward", "BlockDenseReward"):
        return None
    return potential(env, s)


def applies(pid: str, cfg: Any, env: Any) -> bool:
    if pid == "C08":
        # the objective is documented for the two shipped reward functions only
        return _reward_kind(env) in ("CellDenseReward", "BlockDenseReward")
    return True


# ------------------------------------------------------------------------------------ C09
def check_step(env: Any, s: Any, a: Any, s2: Any, ts: Any) -> List[str]:
    grid = np.asarray(s.grid)
    blocks = np.asarray(s.blocks)
    ok, blk = _one_legal(grid, blocks, a)
    out: List[str] = []
    if not ok:
        out += _check_ignored(env, s, a, s2, ts, "step-illegal-action")
        exp_grid = grid
    else:
        b, _k, r, c = (int(v) for v in np.asarray(a))
        exp_grid = grid.copy()
        exp_grid[r:r + 3, c:c + 3] += blk.astype(grid.dtype)
        exp_placed = np.asarray(s.placed_blocks, bool).copy()
        exp_placed[b] = True
        if not np.array_equal(np.asarray(s2.grid), exp_grid):
            out.append(f"step-field-grid: action {np.asarray(a).tolist()} must give {exp_grid.tolist()}, got "
                       f"{np.asarray(s2.grid).tolist()}")
        if not np.array_equal(np.asarray(s2.placed_blocks, bool), exp_placed):
            out.append(f"step-field-placed_blocks: expected {exp_placed.astype(int).tolist()} got "
                       f"{np.asarray(s2.placed_blocks).astype(int).tolist()}")
        if not np.array_equal(np.asarray(s2.blocks), blocks):
            out.append("step-field-blocks: the blocks changed")
        r_exp = _reward_legal(env, blk)
        if r_exp is not None and not np.isclose(float(ts.reward), r_exp, rtol=1e-5, atol=1e-6):
            out.append(f"step-reward: expected {r_exp:.6f} got {float(ts.reward):.6f}")
    if int(s2.step_count) != int(s.step_count) + 1:
        out.append(f"step-field-step_count: expected {int(s.step_count) + 1} got {int(s2.step_count)}")
    if int(s2.num_blocks) != int(s.num_blocks):
        out.append("step-field-num_blocks: changed")
    done = int(s.step_count) + 1 >= int(env.num_blocks)
    if (int(ts.step_type) == 2) != done:
        out.append(f"step-termination: expected done={done} at step {int(s.step_count) + 1} of "
                   f"{int(env.num_blocks)}, got step_type={int(ts.step_type)}")
    leg2 = _legal_all(exp_grid, blocks)
    m2 = np.asarray(s2.action_mask, bool)
    if m2.shape != leg2.shape or not np.array_equal(m2, leg2):
        out.append("step-field-action_mask: the cached mask of the successor is not the legal set of the new grid")
    return out


# ------------------------------------------------------------------------------------ C12
def check_obs(env: Any, s: Any, obs: Any) -> List[str]:
    out = []
    for f in ("grid", "blocks", "action_mask"):
        if not np.array_equal(np.asarray(getattr(obs, f)), np.asarray(getattr(s, f))):
            out.append(f"obs-{f}: observation field differs from the state")
    m = np.asarray(obs.action_mask, bool)
    leg = legal(env, s)
    if m.shape != leg.shape or not np.array_equal(m, leg):
        out.append("obs-action_mask-vs-grid: observation mask is not the set of placements allowed on the shown grid")
    return out
