"""Reference model of RubiksCube for C12 only (the moves themselves are decided under C17).

Documented observation (docs/environments/rubiks_cube.md, class docstring): `cube` - the sticker
array (6, n, n) of the state; `step_count` - the number of steps in the episode so far.  Both are
copies of their state counterparts.  Additionally the cube must have the documented shape and
colour range, and step_count must lie in 0..time_limit.
"""
from __future__ import annotations

from typing import Any, List

import numpy as np


def check_obs(env: Any, s: Any, obs: Any) -> List[str]:
    out = []
    cube = np.asarray(obs.cube)
    if cube.shape != np.asarray(s.cube).shape or not np.array_equal(cube, np.asarray(s.cube)):
        out.append("obs-cube: observation cube differs from the state cube")
    if int(obs.step_count) != int(s.step_count):
        out.append(f"obs-step_count: {int(obs.step_count)} vs state {int(s.step_count)}")
    n = int(env.generator.cube_size)
    if cube.shape != (6, n, n):
        out.append(f"obs-cube-shape: {cube.shape} vs (6,{n},{n})")
    elif ((cube < 0) | (cube > 5)).any():
        out.append("obs-cube-colours: sticker values outside 0..5")
    return out
