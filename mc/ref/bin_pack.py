"""Reference model of BinPack, written from docs/environments/bin_pack.md, the class docstring of
jumanji.environments.packing.bin_pack.env.BinPack, the reward docstrings and DESIGN.md Appendix C.

Rules.  One container (a box given by two corner points) and up to max_num_items items (x, y, z
lengths, no rotation).  The free room is described by Empty Maximal Spaces: boxes inside the
container that do not intersect any packed item and are not included in another EMS.  The agent is
shown the `obs_num_ems` largest EMSs (by volume); an action is (observed EMS slot, item).  It is
legal <=> the slot holds a valid EMS, the item exists (items_mask), is not packed yet and is not
longer than the EMS on any axis.  A legal action puts the item's lower corner on the EMS's
(x1, y1, z1), marks it as placed and updates the EMSs.  An illegal action changes nothing and ends
the episode.  The episode also ends when no legal action remains.  DenseReward: item volume /
container volume (0 if illegal); SparseReward: 0 before the end, volume utilisation of the container
on the last step (also after an illegal action: "still returned as the current utilization").
Observation: the obs_num_ems largest valid EMSs and all items, every coordinate / length divided by
the container's length on that axis when `normalize_dimensions`; masks copied; the action mask refers
to the observed slots.

Observed slot k is state EMS `sorted_ems_indexes[k]` ("EMS indexes that are sorted by decreasing
volume order"); that this ordering really is by decreasing volume and that the shown EMSs are the
largest ones is checked (C09 / C12) rather than assumed.

Modelling decisions
* EMS bookkeeping (C09).  Every valid EMS must lie inside the container, have positive volume and not
  intersect a packed item (documented).  Completeness ("the EMSs are ALL the maximal empty boxes")
  follows from the EMS formulation the docs name; it is demanded edge-locally: if the parent's EMS
  set is exactly the set of maximal empty boxes of its packing (recomputed by brute force over the
  coordinates of item faces) and the successor's complete set fits into the EMS buffer
  (max_num_ems), the successor's set must be exactly the maximal empty boxes of the new packing.
  When the buffer is too small the implementation overwrites a slot (DESIGN.md Appendix A: not
  covered by any listed property); from then on only soundness is checked.
* Ties / float32: the "largest EMSs" are compared as a multiset of exact (float64) volumes with a
  relative tolerance of 1e-6 (shown EMSs are first identified with state EMSs by their coordinates), and the ordering of sorted_ems_indexes is required to be non-increasing
  only up to 1e-6, so argsort ties and float32 rounding of volumes ~1e10 cannot raise an
  alarm.  Coordinates of observed slots whose ems_mask is False are not compared (unspecified).
* Termination "no items fit in any EMSs" is read over the action space, i.e. the observed EMSs (an
  item that only fits an unobserved EMS cannot be packed by any action).
* C06 checks the packing (boxes inside the container, pairwise disjoint, only existing items);
  EMS/item disjointness belongs to C09.  check_complete additionally requires that a mask-respecting
  episode only ends when no legal action is left.
* C08: objective = volume utilisation recomputed from items, items_placed and the container.  The
  edge-local potential is the utilisation for DenseReward and utilisation*[no legal action left] for
  SparseReward, so both reward functions telescope to the same objective (dense == sparse).
* extras: only `invalid_action` (documented in step()) is compared; `key` is not modelled.
"""
from __future__ import annotations

from collections import OrderedDict
from typing import Any, Dict, List, Optional, Set, Tuple

import numpy as np

Box = Tuple[int, int, int, int, int, int]  # x1, x2, y1, y2, z1, z2


# ------------------------------------------------------------------------------------ helpers
def _space_arrays(sp: Any) -> np.ndarray:
    """[n, 6] int64 (x1, x2, y1, y2, z1, z2)."""
    return np.stack([np.asarray(getattr(sp, f)).astype(np.int64).reshape(-1)
                     for f in ("x1", "x2", "y1", "y2", "z1", "z2")], axis=1)


def _container(s: Any) -> np.ndarray:
    return _space_arrays(s.container)[0]


def _items(s: Any) -> np.ndarray:
    it = s.items
    return np.stack([np.asarray(it.x_len), np.asarray(it.y_len), np.asarray(it.z_len)], axis=1).astype(np.int64)


def _locs(s: Any) -> np.ndarray:
    lo = s.items_location
    return np.stack([np.asarray(lo.x), np.asarray(lo.y), np.asarray(lo.z)], axis=1).astype(np.int64)


def _boxes(s: Any) -> np.ndarray:
    """[n_placed, 6] boxes of the packed items."""
    placed = np.asarray(s.items_placed, bool)
    dims, loc = _items(s)[placed], _locs(s)[placed]
    out = np.zeros((len(dims), 6), np.int64)
    out[:, 0::2] = loc
    out[:, 1::2] = loc + dims
    return out


def _vol(b: np.ndarray) -> np.ndarray:
    b = np.asarray(b, np.float64)
    return (b[..., 1] - b[..., 0]) * (b[..., 3] - b[..., 2]) * (b[..., 5] - b[..., 4])


def _utilisation(s: Any) -> float:
    placed = np.asarray(s.items_placed, bool)
    v = _items(s).astype(np.float64).prod(axis=1)
    return float(v[placed].sum() / _vol(_container(s)))


def _reward_kind(env: Any) -> str:
    return type(env.reward_fn).__name__


def _intersects(a: np.ndarray, b: np.ndarray) -> np.ndarray:
    """a [n,6], b [m,6] -> [n,m]: open boxes share a point."""
    lo = np.maximum(a[:, None, 0::2], b[None, :, 0::2])
    hi = np.minimum(a[:, None, 1::2], b[None, :, 1::2])
    return (lo < hi).all(axis=2)


_MES_CACHE: "OrderedDict[Tuple[bytes, bytes], Set[Box]]" = OrderedDict()


def _maximal_empty_spaces(cont: np.ndarray, boxes: np.ndarray) -> Set[Box]:
    """All maximal empty boxes of the container minus the packed boxes (integer coordinates).
    A maximal empty box has every face on a container wall or on the opposite face of an item, so the
    candidates are the products of those coordinates; a candidate is kept if it is empty and cannot
    grow by one unit in any of the six directions."""
    key = (cont.tobytes(), boxes[np.lexsort(boxes.T[::-1])].tobytes() if len(boxes) else b"")
    hit = _MES_CACHE.get(key)
    if hit is not None:
        return hit
    axes = []
    for ax in range(3):
        lo = sorted({int(cont[2 * ax])} | {int(v) for v in boxes[:, 2 * ax + 1]})
        hi = sorted({int(cont[2 * ax + 1])} | {int(v) for v in boxes[:, 2 * ax]})
        pairs = [(l, h) for l in lo for h in hi
                 if int(cont[2 * ax]) <= l < h <= int(cont[2 * ax + 1])]
        axes.append(np.array(pairs, np.int64).reshape(-1, 2))
    nx, ny, nz = (len(a) for a in axes)
    ix, iy, iz = np.meshgrid(np.arange(nx), np.arange(ny), np.arange(nz), indexing="ij")
    cand = np.concatenate([axes[0][ix.ravel()], axes[1][iy.ravel()], axes[2][iz.ravel()]], axis=1)
    if len(boxes):
        cand = cand[~_intersects(cand, boxes).any(axis=1)]
    keep = np.ones(len(cand), bool)
    for ax in range(3):
        for side in (0, 1):
            ext = cand.copy()
            if side == 0:
                ext[:, 2 * ax + 1] = cand[:, 2 * ax]
                ext[:, 2 * ax] = cand[:, 2 * ax] - 1
                at_wall = cand[:, 2 * ax] <= cont[2 * ax]
            else:
                ext[:, 2 * ax] = cand[:, 2 * ax + 1]
                ext[:, 2 * ax + 1] = cand[:, 2 * ax + 1] + 1
                at_wall = cand[:, 2 * ax + 1] >= cont[2 * ax + 1]
            blocked = at_wall | (_intersects(ext, boxes).any(axis=1) if len(boxes) else False)
            keep &= blocked
    out = {tuple(int(v) for v in row) for row in cand[keep]}
    _MES_CACHE[key] = out
    if len(_MES_CACHE) > 5000:
        _MES_CACHE.popitem(last=False)
    return out


def _valid_ems(s: Any) -> np.ndarray:
    return _space_arrays(s.ems)[np.asarray(s.ems_mask, bool)]


def _ems_set(s: Any) -> Set[Box]:
    return {tuple(int(v) for v in row) for row in _valid_ems(s)}


def _max_num_ems(s: Any) -> int:
    return int(np.asarray(s.ems_mask).shape[0])


# ------------------------------------------------------------------------------------ C04
def legal(env: Any, s: Any) -> np.ndarray:
    k = int(env.obs_num_ems)
    idx = np.asarray(s.sorted_ems_indexes)[:k]
    ems = _space_arrays(s.ems)[idx]
    ems_ok = np.asarray(s.ems_mask, bool)[idx]
    room = ems[:, 1::2] - ems[:, 0::2]  # [k, 3]
    dims = _items(s)  # [n, 3]
    fits = (dims[None, :, :] <= room[:, None, :]).all(axis=2)
    avail = np.asarray(s.items_mask, bool) & ~np.asarray(s.items_placed, bool)
    return fits & ems_ok[:, None] & avail[None, :]


def action_legal(env: Any, s: Any, a: Any) -> bool:
    return bool(legal(env, s)[int(a[0]), int(a[1])])


def mask_allows(env: Any, mask: np.ndarray, a: Any) -> bool:
    return bool(mask[int(a[0]), int(a[1])])


def _flag(ts: Any) -> Optional[bool]:
    ex = getattr(ts, "extras", None)
    if isinstance(ex, dict) and "invalid_action" in ex:
        return bool(np.asarray(ex["invalid_action"]))
    return None


def check_reaction(env: Any, s: Any, a: Any, s2: Any, ts: Any, masked_in: bool) -> List[str]:
    packed = int(np.asarray(s2.items_placed).sum()) - int(np.asarray(s.items_placed).sum())
    flag = _flag(ts)
    if masked_in and (packed != 1 or flag is True):
        return [f"masked-in-action-rejected: action {np.asarray(a).tolist()} is masked-in but {packed} items were "
                f"packed (invalid_action={flag})"]
    if not masked_in and (packed != 0 or flag is False or int(ts.step_type) != 2):
        return [f"masked-out-action-accepted: action {np.asarray(a).tolist()} is masked-out but {packed} items were "
                f"packed (invalid_action={flag}, step_type={int(ts.step_type)})"]
    return []


# ------------------------------------------------------------------------------------ C05
_PROBLEM_FIELDS = ("container", "ems", "ems_mask", "items", "items_mask", "items_placed", "items_location",
                   "action_mask", "sorted_ems_indexes")


def _leaves(x: Any) -> List[np.ndarray]:
    if hasattr(x, "_fields"):
        return [np.asarray(getattr(x, f)) for f in x._fields]
    if hasattr(x, "__dataclass_fields__"):
        return [np.asarray(getattr(x, f)) for f in x.__dataclass_fields__]
    return [np.asarray(x)]


def _check_rejected(env: Any, s: Any, a: Any, s2: Any, ts: Any, prefix: str) -> List[str]:
    out = []
    for f in _PROBLEM_FIELDS:
        la, lb = _leaves(getattr(s, f)), _leaves(getattr(s2, f))
        if len(la) != len(lb) or any(not np.array_equal(x, y) for x, y in zip(la, lb)):
            out.append(f"{prefix}-changes-{f}: action {np.asarray(a).tolist()} is invalid and must leave the state "
                       f"untouched, yet {f} changed")
    if int(ts.step_type) != 2:
        out.append(f"{prefix}-not-terminal: invalid action {np.asarray(a).tolist()} did not end the episode")
    kind = _reward_kind(env)
    want = 0.0 if kind == "DenseReward" else (_utilisation(s) if kind == "SparseReward" else None)
    if want is not None and not np.isclose(float(ts.reward), want, rtol=1e-5, atol=1e-6):
        out.append(f"{prefix}-reward: got {float(ts.reward):.6f}, documented {want:.6f} ({kind})")
    if _flag(ts) is False:
        out.append(f"{prefix}-not-flagged: extras['invalid_action'] is False")
    return out


def check_illegal(env: Any, s: Any, a: Any, s2: Any, ts: Any) -> List[str]:
    return _check_rejected(env, s, a, s2, ts, "illegal-action")


# ------------------------------------------------------------------------------------ C06
def check_constraints(env: Any, s: Any) -> List[str]:
    out = []
    placed = np.asarray(s.items_placed, bool)
    exists = np.asarray(s.items_mask, bool)
    if (placed & ~exists).any():
        out.append(f"padding-item-packed: items {np.nonzero(placed & ~exists)[0].tolist()} do not exist")
    cont = _container(s)
    boxes = _boxes(s)
    ids = np.nonzero(placed)[0]
    if len(boxes):
        if (boxes[:, 1::2] <= boxes[:, 0::2]).any():
            out.append("packed-item-without-volume: a packed item has a non-positive length")
        outside = (boxes[:, 0::2] < cont[0::2]).any(axis=1) | (boxes[:, 1::2] > cont[1::2]).any(axis=1)
        if outside.any():
            i = int(np.nonzero(outside)[0][0])
            out.append(f"item-outside-container: item {int(ids[i])} occupies {boxes[i].tolist()}, container "
                       f"{cont.tolist()}")
        inter = _intersects(boxes, boxes)
        np.fill_diagonal(inter, False)
        if inter.any():
            i, j = (int(v) for v in np.argwhere(inter)[0])
            out.append(f"items-overlap: items {int(ids[i])} {boxes[i].tolist()} and {int(ids[j])} "
                       f"{boxes[j].tolist()} intersect")
    return out


def check_complete(env: Any, s: Any, ts: Any) -> List[str]:
    out = check_constraints(env, s)
    if legal(env, s).any():
        out.append("terminated-with-legal-action-left: a mask-respecting episode ended although an item still fits "
                   "an observed EMS")
    return out


# ------------------------------------------------------------------------------------ C08
def potential(env: Any, s: Any) -> float:
    u = _utilisation(s)
    if _reward_kind(env) == "SparseReward":
        return u if not legal(env, s).any() else 0.0
    return u


def objective(env: Any, s: Any, ts: Any) -> Optional[float]:
    return _utilisation(s)


def applies(pid: str, cfg: Any, env: Any) -> bool:
    if pid == "C08":
        return _reward_kind(env) in ("DenseReward", "SparseReward")
    return True


# ------------------------------------------------------------------------------------ C09
def _check_ems_sound(s: Any, tag: str) -> List[str]:
    out = []
    ems = _valid_ems(s)
    if not len(ems):
        return out
    cont = _container(s)
    if (ems[:, 1::2] <= ems[:, 0::2]).any():
        out.append(f"{tag}-ems-empty: a valid EMS has no volume")
    if ((ems[:, 0::2] < cont[0::2]) | (ems[:, 1::2] > cont[1::2])).any():
        out.append(f"{tag}-ems-outside-container: a valid EMS sticks out of the container")
    boxes = _boxes(s)
    if len(boxes):
        inter = _intersects(ems, boxes)
        if inter.any():
            i, j = (int(v) for v in np.argwhere(inter)[0])
            out.append(f"{tag}-ems-intersects-item: EMS {ems[i].tolist()} intersects packed box {boxes[j].tolist()}")
    return out


def _check_sorted(env: Any, s: Any, tag: str) -> List[str]:
    idx = np.asarray(s.sorted_ems_indexes).astype(np.int64)
    n = _max_num_ems(s)
    if sorted(idx.tolist()) != list(range(n)):
        return [f"{tag}-sorted_ems_indexes-not-a-permutation: {idx.tolist()}"]
    v = _vol(_space_arrays(s.ems)) * np.asarray(s.ems_mask, bool)
    w = v[idx]
    bad = w[1:] > w[:-1] * (1 + 1e-6) + 1e-9
    if bad.any():
        i = int(np.nonzero(bad)[0][0])
        return [f"{tag}-sorted_ems_indexes-not-decreasing: position {i} has volume {w[i]:.0f}, position {i + 1} "
                f"{w[i + 1]:.0f}"]
    return []


def check_step(env: Any, s: Any, a: Any, s2: Any, ts: Any) -> List[str]:
    k, i = int(a[0]), int(a[1])
    if not action_legal(env, s, a):
        return _check_rejected(env, s, a, s2, ts, "step-illegal-action") + _check_sorted(env, s2, "step")
    out: List[str] = []
    e = _space_arrays(s.ems)[int(np.asarray(s.sorted_ems_indexes)[k])]
    exp_placed = np.asarray(s.items_placed, bool).copy()
    exp_placed[i] = True
    if not np.array_equal(np.asarray(s2.items_placed, bool), exp_placed):
        out.append(f"step-field-items_placed: expected {exp_placed.astype(int).tolist()} got "
                   f"{np.asarray(s2.items_placed).astype(int).tolist()}")
    exp_loc = _locs(s).copy()
    exp_loc[i] = e[0::2]
    got_loc = _locs(s2)
    pl = exp_placed
    if not np.array_equal(got_loc[pl], exp_loc[pl]):
        out.append(f"step-field-items_location: item {i} goes to the corner {e[0::2].tolist()} of EMS "
                   f"{e.tolist()}; locations of packed items expected {exp_loc[pl].tolist()} got "
                   f"{got_loc[pl].tolist()}")
    for f in ("container", "items", "items_mask"):
        la, lb = _leaves(getattr(s, f)), _leaves(getattr(s2, f))
        if any(not np.array_equal(x, y) for x, y in zip(la, lb)):
            out.append(f"step-field-{f}: the instance changed")
    # EMS bookkeeping
    out += _check_ems_sound(s2, "step")
    cont = _container(s)
    if not out:
        parent_complete = _ems_set(s) == _maximal_empty_spaces(cont, _boxes(s)) \
            and int(np.asarray(s.ems_mask).sum()) == len(_ems_set(s))
        if parent_complete:
            want = _maximal_empty_spaces(cont, _boxes(s2))
            if len(want) <= _max_num_ems(s2):
                got = _ems_set(s2)
                n_valid = int(np.asarray(s2.ems_mask).sum())
                if got != want or n_valid != len(got):
                    missing = sorted(want - got)[:3]
                    extra = sorted(got - want)[:3]
                    out.append(f"step-ems-set: after packing item {i} at {e[0::2].tolist()} the maximal empty "
                               f"spaces are {len(want)}, the state holds {n_valid} valid EMSs; missing {missing} "
                               f"not-maximal-or-duplicate {extra}")
    out += _check_sorted(env, s2, "step")
    leg2 = legal(env, s2)
    if not np.array_equal(np.asarray(s2.action_mask, bool), leg2):
        out.append("step-field-action_mask: the cached mask of the successor is not its legal set")
    done = not leg2.any()
    if (int(ts.step_type) == 2) != done:
        out.append(f"step-termination: expected done={done} (legal actions left: {int(leg2.sum())}) got "
                   f"step_type={int(ts.step_type)}")
    kind = _reward_kind(env)
    item_vol = float(_items(s)[i].astype(np.float64).prod())
    if kind == "DenseReward":
        r = item_vol / float(_vol(cont))
    elif kind == "SparseReward":
        r = (_utilisation(s) + item_vol / float(_vol(cont))) if done else 0.0
    else:
        r = None
    if r is not None and not np.isclose(float(ts.reward), r, rtol=1e-5, atol=1e-6):
        out.append(f"step-reward: expected {r:.6f} got {float(ts.reward):.6f} ({kind})")
    if _flag(ts) is True:
        out.append("step-flagged-invalid: extras['invalid_action'] is True on a legal action")
    return out


# ------------------------------------------------------------------------------------ C12
def check_obs(env: Any, s: Any, obs: Any) -> List[str]:
    out = []
    k = int(env.obs_num_ems)
    norm = bool(env.normalize_dimensions)
    cont = _container(s)
    length = (cont[1::2] - cont[0::2]).astype(np.float64)  # per axis
    idx = np.asarray(s.sorted_ems_indexes).astype(np.int64)[:k]
    st_ems = _space_arrays(s.ems)
    st_ok = np.asarray(s.ems_mask, bool)
    o_ok = np.asarray(obs.ems_mask, bool)
    if o_ok.shape != (k,):
        return [f"obs-ems_mask-shape: {o_ok.shape} for obs_num_ems={k}"]
    # which EMSs are shown: the largest valid ones (multiset of volumes, tolerant to ties)
    vols = np.sort(_vol(st_ems[st_ok]))[::-1]
    n_show = min(k, len(vols))
    if int(o_ok.sum()) != n_show:
        out.append(f"obs-ems-count: {int(o_ok.sum())} valid EMSs shown, the state has {len(vols)} valid EMSs and "
                   f"{k} slots")
    o_coords = np.stack([np.asarray(getattr(obs.ems, f), np.float64) for f in ("x1", "x2", "y1", "y2", "z1", "z2")],
                        axis=1)
    scale = np.repeat(length, 2) if norm else np.ones(6)
    # identify every shown EMS with a valid EMS of the state by its coordinates (independently of
    # sorted_ems_indexes) and compare the multiset of their exact volumes with the largest ones
    st_valid = st_ems[st_ok]
    st_shown = st_valid.astype(np.float64) / scale
    used = np.zeros(len(st_valid), bool)
    matched_vol = []
    for j in np.nonzero(o_ok)[0]:
        close = np.isclose(st_shown, o_coords[j][None, :], rtol=1e-5, atol=1e-6).all(axis=1) & ~used
        if not close.any():
            out.append(f"obs-ems-not-in-state: slot {int(j)} shows {o_coords[j].tolist()} which is no valid EMS of "
                       "the state" + (" (divided by the container lengths)" if norm else ""))
            break
        c = int(np.nonzero(close)[0][0])
        used[c] = True
        matched_vol.append(float(_vol(st_valid[c])))
    else:
        shown = np.sort(np.array(matched_vol))[::-1]
        if len(shown) == n_show and not np.allclose(shown, vols[:n_show], rtol=1e-6, atol=0.0):
            out.append(f"obs-ems-not-the-largest: volumes shown {shown.tolist()} vs the {n_show} largest of the "
                       f"state {vols[:n_show].tolist()}")
    # every shown EMS is a valid EMS of the state, on the slot the action mask refers to
    if not np.array_equal(o_ok, st_ok[idx]):
        out.append("obs-ems_mask: observed slot validity differs from the state EMS it refers to "
                   "(sorted_ems_indexes)")
    else:
        want = st_ems[idx].astype(np.float64) / scale
        d = ~np.isclose(o_coords, want, rtol=1e-5, atol=1e-6).all(axis=1) & o_ok
        if d.any():
            j = int(np.nonzero(d)[0][0])
            out.append(f"obs-ems-coordinates: slot {j} shows {o_coords[j].tolist()}, state EMS "
                       f"{st_ems[idx][j].tolist()} / container lengths gives {want[j].tolist()}"
                       if norm else
                       f"obs-ems-coordinates: slot {j} shows {o_coords[j].tolist()}, state EMS {st_ems[idx][j].tolist()}")
    # items
    dims = _items(s).astype(np.float64)
    o_items = np.stack([np.asarray(obs.items.x_len, np.float64), np.asarray(obs.items.y_len, np.float64),
                        np.asarray(obs.items.z_len, np.float64)], axis=1)
    want_items = dims / length if norm else dims
    if o_items.shape != want_items.shape or not np.allclose(o_items, want_items, rtol=1e-5, atol=1e-6):
        out.append("obs-items: item sizes are not the state's sizes" + (" divided per axis by the container lengths"
                                                                      if norm else ""))
    for f in ("items_mask", "items_placed", "action_mask"):
        if not np.array_equal(np.asarray(getattr(obs, f)), np.asarray(getattr(s, f))):
            out.append(f"obs-{f}: observation field differs from the state")
    leg = legal(env, s)
    m = np.asarray(obs.action_mask, bool)
    if m.shape != leg.shape or not np.array_equal(m, leg):
        out.append("obs-action_mask-vs-shown: the mask is not 'shown EMS valid, item present and unpacked, item fits'")
    return out
