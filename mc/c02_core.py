"""C02 worker: purity of reset/step and commutation with jit / vmap / scan for ONE configuration.

Reference values ("the graph") are what `mc.engine.Explorer` computes: `jit(vmap(reset))` over the
key window and `jit(vmap_states(vmap_actions(step)))` over the explored states.  Everything else is
re-execution of recorded transitions under another program transformation, or of the same calls
after another call history / on another instance, and must reproduce the graph.

Public entry points
  check_config(...)   pool task (one per configuration)          -> result dict for Reporter.add_model
  replay_case(doc)    re-run one recorded comparison, plain Python -> 1 if it still differs
"""
from __future__ import annotations

import hashlib
import itertools
import re
import time
from typing import Any, Callable, Dict, List, Optional, Sequence, Tuple

from mc import boot  # noqa: F401  (must precede jax)

import jax
import jax.numpy as jnp
import numpy as np

from mc import catalog
from mc.engine import Batch, Explorer, Monitor, leaf_diff, row_bytes, t_concat, t_index, t_len, to_np
from mc.report import Violation

PID = "C02"
tmap = jax.tree_util.tree_map

KEY_WINDOW = [0, 1, 2, 3]
VMAP_STEP_BATCHES = (1, 2, 7)
VMAP_RESET_BATCHES = (1, 2, 4)
SCAN_PREFIXES = (1, 2, 5)
CALLS = ("reset(k0)", "reset(k1)", "step(s0,a0)", "step(s0,a1)", "step(s1,a0)")
# Unloaded design-time measurements (second eager call, 2 XLA threads; notes/probes/timing.py and the C02 build):
# eager step >= ~0.5 s on the tiny configuration: never more than the minimum number of eager calls (2 steps,
# 1 reset) in the quick tier
SLOW_EAGER = ("bin_pack", "pac_man", "robot_warehouse", "rubiks_cube", "mmst")
# eager step or reset >= 0.3 s per call (BinPack 3.4/2.0, RubiksCube 1.5/1.0, RobotWarehouse 1.2/0.6, MMST 0.6/2.3,
# PacMan 0.5, Game2048 0.44, FlatPack reset 0.9, LBF reset 0.33; Connector() reset 3.4): histories are run in the
# reduced form.  A static table, not a run-time measurement, so that what is enumerated does not depend on load.
SLOW_HISTORY = ("bin_pack", "pac_man", "robot_warehouse", "rubiks_cube", "mmst", "game_2048", "flat_pack", "lbf")
SLOW_HISTORY_DEFAULT = SLOW_HISTORY + ("connector",)

BOUNDS = {
    "quick": dict(max_states=300, n_T=200, path_len=8, n_paths=20, eager_step_s=8.0, eager_reset_s=8.0,
                  hist_len=2, max_actions=1024, scan_shapes=7, max_eager=24),
    "thorough": dict(max_states=1500, n_T=600, path_len=12, n_paths=40, eager_step_s=60.0, eager_reset_s=60.0,
                     hist_len=3, max_actions=1024, scan_shapes=16, max_eager=120),
}
DEFAULT_MAX_ACTIONS = 64  # default-size configurations: evenly spaced sub-alphabet when |A| is larger


# ---------------------------------------------------------------------------------------------
# small helpers
# ---------------------------------------------------------------------------------------------
def canon(tree: Any) -> Any:
    """numpy pytree with every leaf an ndarray (Python scalars become what jnp.asarray makes of them)."""
    return to_np(tmap(jnp.asarray, tree))


def as_jnp(tree: Any) -> Any:
    return tmap(jnp.asarray, tree)


def prng(k: int) -> Any:
    return jax.random.PRNGKey(int(k))


def action_set(env: Any, max_actions: int) -> Tuple[np.ndarray, int]:
    """The whole action alphabet, or (when it has more than `max_actions` members) `max_actions`
    members evenly spaced in lexicographic order, first and last included.  -> (actions, |alphabet|)"""
    from jumanji import specs

    spec = env.action_spec
    dt = np.asarray(spec.generate_value()).dtype
    if isinstance(spec, specs.DiscreteArray):
        lo, hi, shape = np.zeros((), np.int64), np.asarray(spec.num_values - 1, np.int64), ()
    elif isinstance(spec, specs.MultiDiscreteArray):
        nv = np.asarray(spec.num_values)
        lo, hi, shape = np.zeros(nv.shape, np.int64), nv.astype(np.int64) - 1, nv.shape
    else:
        shape = tuple(spec.shape)
        lo = np.broadcast_to(np.asarray(spec.minimum), shape).astype(np.int64)
        hi = np.broadcast_to(np.asarray(spec.maximum), shape).astype(np.int64)
    radix = [int(h - l + 1) for l, h in zip(np.ravel(lo), np.ravel(hi))]
    total = 1
    for r in radix:
        total *= r
    if total <= max_actions:
        idx = list(range(total))
    else:
        idx = sorted({(i * (total - 1)) // (max_actions - 1) for i in range(max_actions)})
    out = np.zeros((len(idx), len(radix)), np.int64)
    for n, i in enumerate(idx):
        for c in range(len(radix) - 1, -1, -1):
            i, out[n, c] = divmod(i, radix[c])
    out = out + np.ravel(lo)[None, :]
    return out.astype(dt).reshape((len(idx),) + tuple(shape)), total


_HEX = re.compile(r"0x[0-9a-fA-F]+")


def traced_program(fn: Callable, *args: Any) -> Tuple[str, List[np.ndarray], Any]:
    """Trace `fn` from scratch (fresh lambda => no tracing cache) -> (jaxpr text, constants, effects)."""
    closed = jax.make_jaxpr(lambda *a: fn(*a))(*args)
    consts = [np.asarray(c) for c in closed.consts]
    return _HEX.sub("0x", str(closed.jaxpr)), consts, closed.effects


def same_program(p: Tuple[str, List[np.ndarray], Any], q: Tuple[str, List[np.ndarray], Any]) -> bool:
    if p[0] != q[0] or len(p[1]) != len(q[1]):
        return False
    for a, b in zip(p[1], q[1]):
        if a.shape != b.shape or a.dtype != b.dtype or not np.array_equal(a, b, equal_nan=a.dtype.kind == "f"):
            return False
    return True


class ArgGuard:
    """Snapshot of argument pytrees: structure, identity of every leaf object, copy of the values."""

    def __init__(self, args: Tuple[Any, ...]):
        self.args = args
        self.leaves, self.treedef = jax.tree_util.tree_flatten(args)  # keeps the leaf objects alive
        self.values = [np.array(jax.device_get(x), copy=True) for x in self.leaves]

    def changes(self) -> List[str]:
        leaves, treedef = jax.tree_util.tree_flatten(self.args)
        if treedef != self.treedef:
            return [f"argument tree structure changed: {self.treedef} -> {treedef}"]
        paths = [jax.tree_util.keystr(p) for p, _ in jax.tree_util.tree_flatten_with_path(self.args)[0]]
        out = []
        for p, old, new, val in zip(paths, self.leaves, leaves, self.values):
            if new is not old:
                out.append(f"args{p}: leaf object replaced (field re-assigned on the caller's object)")
                continue
            now = np.asarray(jax.device_get(new))
            if now.shape != val.shape or now.dtype != val.dtype or not np.array_equal(
                    now, val, equal_nan=val.dtype.kind == "f"):
                out.append(f"args{p}: value changed")
        return out


def guarded(fn: Callable, *args: Any) -> Tuple[Any, List[str]]:
    g = ArgGuard(args)
    out = fn(*args)
    out = jax.block_until_ready(out)
    return out, g.changes()


def exact_diff(a: Any, b: Any) -> List[str]:
    return leaf_diff(a, b, rtol=0.0, atol=0.0)


class Held:
    """Result objects returned by earlier eager calls, each with a host snapshot taken right after the call.
    `changed()` re-reads the very objects: a later call must not have altered any of them (aliasing of mutable
    containers between results / with Python-side state shows as a value change here)."""

    def __init__(self) -> None:
        self.items: List[Tuple[str, Any, Any]] = []

    def add(self, label: str, out: Any) -> Any:
        snap = canon(out)
        self.items.append((label, out, snap))
        return snap

    def changed(self, skip_last: bool = False) -> Optional[Tuple[int, str, List[str]]]:
        items = self.items[:-1] if skip_last else self.items
        for j, (label, obj, snap) in enumerate(items):
            d = exact_diff(snap, canon(obj))
            if d:
                return j, label, d
        return None


def seeded_order(n: int, seed: int, salt: str) -> List[int]:
    """A permutation of range(n) rotated by VERIF_SEED (only decides WHICH cases get the eager run)."""
    return sorted(range(n), key=lambda i: hashlib.sha1(f"{seed}:{salt}:{i}".encode()).digest())


# ---------------------------------------------------------------------------------------------
# the explorer's execution mode, usable without running an exploration (replay, path walking)
# ---------------------------------------------------------------------------------------------
class GraphExec:
    def __init__(self, env: Any, actions: np.ndarray, ex: Optional[Explorer] = None):
        self.env = env
        self.actions = np.asarray(actions)
        self.ex = ex or Explorer(env, "graph", PID, keys=[], actions=self.actions, eager_max_paths=0)
        self._cache: Dict[bytes, Tuple[Any, Any]] = {}

    def roots(self, keys: Sequence[int]) -> Tuple[Any, Any]:
        st, ts = self.ex._reset_b(jnp.stack([prng(k) for k in keys]))
        return to_np(st), to_np(ts)

    def children(self, state_row: Any) -> Tuple[Any, Any]:
        """all successors of one state: leaves [nA, ...]"""
        batch = tmap(lambda x: np.asarray(x)[None], state_row)
        key = row_bytes(batch)[0].tobytes()
        hit = self._cache.get(key)
        if hit is None:
            s2, ts2 = self.ex._expand(batch)
            hit = (t_index(s2, 0), t_index(ts2, 0))
            if len(self._cache) < 64:
                self._cache[key] = hit
        return hit

    def walk(self, state_row: Any, acts: Sequence[int]) -> List[Tuple[Any, Any]]:
        out = []
        s = state_row
        for a in acts:
            s2, ts2 = self.children(s)
            s, ts = t_index(s2, int(a)), t_index(ts2, int(a))
            out.append((s, ts))
        return out


# ---------------------------------------------------------------------------------------------
# monitor: records transitions of the exploration (bounded buffer, BFS order)
# ---------------------------------------------------------------------------------------------
class Recorder(Monitor):
    name = "c02-recorder"

    def __init__(self, per_parent: int = 16, max_edges: int = 4000, max_bytes: float = 64e6):
        self.per_parent, self.max_edges, self.max_bytes = per_parent, max_edges, max_bytes
        self.n_parents = 0
        self.n_edges_seen = 0
        self.buf: List[Tuple[Any, np.ndarray, np.ndarray, Any, Any]] = []
        self.n_rec = 0
        self.bytes = 0.0
        self.full = False

    def on_edges(self, parents: Batch, actions: np.ndarray, children: Batch, enabled: np.ndarray) -> None:
        m, nA = enabled.shape
        self.n_edges_seen += int(enabled.sum())
        if self.full:
            self.n_parents += m
            return
        k = min(nA, self.per_parent)
        step = max(1, nA // k)
        ii, aa = [], []
        for i in range(m):
            g = self.n_parents + i
            for j in range(k):
                a = (g % step + j * step) % nA
                if enabled[i, a]:
                    ii.append(i)
                    aa.append(a)
        self.n_parents += m
        if not ii:
            return
        ii, aa = np.array(ii), np.array(aa)
        par = t_index(parents.state, ii)
        cs = tmap(lambda x: x[ii, aa], children.state)
        cts = tmap(lambda x: x[ii, aa], children.ts)
        self.buf.append((par, parents.ids[ii].astype(np.int64), aa.astype(np.int64), cs, cts))
        self.n_rec += len(ii)
        self.bytes += sum(x.nbytes for x in jax.tree_util.tree_leaves((par, cs, cts)))
        if self.n_rec >= self.max_edges or self.bytes >= self.max_bytes:
            self.full = True

    def transitions(self) -> Optional[Dict[str, Any]]:
        if not self.buf:
            return None
        return dict(
            parent=t_concat([b[0] for b in self.buf]),
            node=np.concatenate([b[1] for b in self.buf]),
            act=np.concatenate([b[2] for b in self.buf]),
            child=t_concat([b[3] for b in self.buf]),
            ts=t_concat([b[4] for b in self.buf]),
        )


# ---------------------------------------------------------------------------------------------
# the check of one configuration
# ---------------------------------------------------------------------------------------------
class Ctx:
    def __init__(self, model: str, family: str, ctor: str, max_actions: int):
        self.model, self.family, self.ctor, self.max_actions = model, family, ctor, max_actions
        self.violations: List[Violation] = []
        self.n_by_sig: Dict[str, int] = {}
        self.vac: Dict[str, int] = {}

    def count(self, k: str, n: int = 1) -> None:
        self.vac[k] = self.vac.get(k, 0) + int(n)

    def violation(self, what: str, message: str, doc: Dict[str, Any]) -> None:
        sig = f"{self.family}:{what}"
        n = self.n_by_sig.get(sig, 0)
        self.n_by_sig[sig] = n + 1
        if n >= 3:
            return
        d = dict(doc)
        d.update(model=self.model, ctor=self.ctor, max_actions=self.max_actions, property=PID, signature=sig)
        self.violations.append(Violation(PID, self.model, sig, message, d))


def _make(ctor: str) -> Any:
    return eval(ctor, catalog.namespace())  # noqa: S307 - our own constructor strings


def _member(T: Dict[str, Any], i: int, actions: np.ndarray) -> Dict[str, Any]:
    return {"key": int(T["key"][i]), "path": [int(a) for a in T["path"][i]],
            "path_actions": [np.asarray(actions[a]).tolist() for a in T["path"][i]],
            "action_index": int(T["act"][i]), "action": np.asarray(actions[int(T["act"][i])]).tolist()}


def _first_bad_member(exp: Any, got: Any, n: int) -> int:
    for j in range(n):
        if leaf_diff(t_index(exp, j), t_index(got, j)):
            return j
    return 0


def check_config(cfg_name: str, family: str, ctor: str, kind: str, tier: str, seed: int) -> Dict[str, Any]:
    max_actions = BOUNDS[tier]["max_actions"] if kind != "default" else DEFAULT_MAX_ACTIONS
    cx = Ctx(cfg_name, family, ctor, max_actions)
    try:
        return _check_config_guarded(cx, cfg_name, family, ctor, kind, tier, seed)
    finally:
        _release_memory()  # pool workers are re-used: do not let compiled executables pile up across tasks


def _release_memory() -> None:
    import gc

    jax.clear_caches()
    gc.collect()


def _check_config_guarded(cx: "Ctx", cfg_name: str, family: str, ctor: str, kind: str, tier: str, seed: int) -> Dict[str, Any]:
    try:
        return _check_config(cx, cfg_name, family, ctor, kind, tier, seed)
    except jax.errors.UnexpectedTracerError as e:
        # a traced value was kept in Python-side state (self / module global) by one trace and read by a later
        # one: reset/step are not functions of their arguments alone.  Nothing else can be compared then.
        cx.violation("python-state-leaks-tracer", "a tracer stored outside the function by one trace of reset/step was "
                     f"used by a later trace: {str(e)[:400]}", {"kind": "tracer-leak"})
        return {"model": cfg_name, "family": family, "kind": kind, "ctor": ctor, "states": 0, "transitions": 0,
                "validated": 0, "vacuity": dict(cx.vac), "violations": cx.violations, "aborted": "UnexpectedTracerError"}


def _check_config(cx: "Ctx", cfg_name: str, family: str, ctor: str, kind: str, tier: str, seed: int) -> Dict[str, Any]:
    t_start = time.time()
    B = BOUNDS[tier]
    max_actions = cx.max_actions
    timing: Dict[str, float] = {}

    # two instances built before anything is driven: `env` is driven first, `twin` only at the end
    env = _make(ctor)
    twin = _make(ctor)
    actions, alphabet_size = action_set(env, max_actions)
    nA = len(actions)

    # ------------------------------------------------------------------ exploration (graph mode)
    t0 = time.time()
    rec = Recorder(per_parent=max(16, -(-B["n_T"] // len(KEY_WINDOW))))
    ex = Explorer(env, cfg_name, PID, keys=KEY_WINDOW, actions=actions, monitors=[rec],
                  max_depth=64, max_states=B["max_states"], seed=seed, ctor=ctor, eager_max_paths=0,
                  time_budget_s=150.0 if tier == "quick" else 400.0,
                  chunk_rows=(32 if tier == "quick" else 128) * nA)  # few padded batch shapes => few compilations
    res = ex.run()
    gx = GraphExec(env, actions, ex)
    root_s, root_ts = ex._root_state, ex._root_ts
    timing["explore_s"] = round(time.time() - t0, 2)

    # -- T: strided selection of the recorded BFS transitions
    allT = rec.transitions()
    parts_parent, parts_child, parts_ts = [], [], []
    T_key: List[int] = []
    T_path: List[List[int]] = []
    T_act: List[int] = []
    if allT is not None:
        n_all = len(allT["act"])
        n_sel = min(B["n_T"], n_all)
        sel = np.unique(np.round(np.linspace(0, n_all - 1, n_sel)).astype(np.int64))
        parts_parent.append(t_index(allT["parent"], sel))
        parts_child.append(t_index(allT["child"], sel))
        parts_ts.append(t_index(allT["ts"], sel))
        for i in sel:
            root, acts = ex.path_to(int(allT["node"][i]))
            T_key.append(KEY_WINDOW[root])
            T_path.append(acts)
            T_act.append(int(allT["act"][i]))
    n_bfs_T = len(T_act)

    # -- paths: root-to-leaf paths of the BFS tree (<= path_len steps) + two survive-greedy paths per key
    n_nodes = len(ex.parent)
    has_child = np.zeros(n_nodes, bool)
    for p in ex.parent:
        if p >= 0:
            has_child[p] = True
    leaves = [n for n in range(n_nodes) if not has_child[n] and 1 <= ex.depth[n] <= B["path_len"]]
    half = B["n_paths"] // 2
    deep_first = sorted(leaves, key=lambda n: (-ex.depth[n], n))[:half]
    in_deep = set(deep_first)
    chosen = deep_first + [n for n in leaves if n not in in_deep][: B["n_paths"] - len(deep_first)]
    paths: List[Dict[str, Any]] = []
    seen_paths = set()
    for n in chosen:
        root, acts = ex.path_to(n)
        sig = (root, tuple(acts))
        if sig not in seen_paths:
            seen_paths.add(sig)
            paths.append({"key": KEY_WINDOW[root], "root": root, "acts": acts, "origin": "bfs-leaf"})
    for root in range(len(KEY_WINDOW)):
        for pol in ("first", "last"):
            s = t_index(root_s, root)
            acts = []
            for _ in range(B["path_len"]):
                s2, ts2 = gx.children(s)
                alive = np.nonzero(np.asarray(ts2.step_type) != 2)[0]
                a = int(alive[0] if pol == "first" else alive[-1]) if len(alive) else (0 if pol == "first" else nA - 1)
                acts.append(a)
                if not len(alive):
                    break
                s = t_index(s2, a)
            sig = (root, tuple(acts))
            if sig not in seen_paths:
                seen_paths.add(sig)
                paths.append({"key": KEY_WINDOW[root], "root": root, "acts": acts, "origin": f"greedy-{pol}"})
    for p in paths:  # graph values along the path
        nodes = gx.walk(t_index(root_s, p["root"]), p["acts"])
        p["states"] = [t_index(root_s, p["root"])] + [n[0] for n in nodes]
        p["ts"] = [n[1] for n in nodes]
        for d, a in enumerate(p["acts"]):
            parts_parent.append(tmap(lambda x: x[None], p["states"][d]))
            parts_child.append(tmap(lambda x: x[None], p["states"][d + 1]))
            parts_ts.append(tmap(lambda x: x[None], p["ts"][d]))
            T_key.append(p["key"])
            T_path.append(list(p["acts"][:d]))
            T_act.append(int(a))
    if not T_act:
        return {"model": cfg_name, "error": "no transition recorded", "states": 0, "transitions": 0}
    T = dict(parent=t_concat(parts_parent), child=t_concat(parts_child), ts=t_concat(parts_ts),
             key=np.array(T_key), path=T_path, act=np.array(T_act))
    N = len(T["act"])
    A_j = [jnp.asarray(a) for a in actions]
    distinct_states = len({r.tobytes() for r in row_bytes(T["parent"])} | {r.tobytes() for r in row_bytes(T["child"])})
    timing["collect_s"] = round(time.time() - t0 - timing["explore_s"], 2)

    # ------------------------------------------------------------------ auxiliary: no jaxpr effects
    s0_np = t_index(root_s, 0)
    for fn_name, fn, args in (("reset", env.reset, (prng(0),)), ("step", env.step, (as_jnp(s0_np), A_j[0]))):
        prog = traced_program(fn, *args)
        cx.count("n_effect_checks")
        if prog[2]:
            cx.violation("jaxpr-has-effects", f"jax.make_jaxpr(env.{fn_name}) has effects {prog[2]}",
                         {"kind": "effects", "fn": fn_name})

    # ------------------------------------------------------------------ (1a) jit(step) per call
    t0 = time.time()
    step_j = jax.jit(env.step)
    for i in range(N):
        got = canon(step_j(t_index(T["parent"], i), A_j[int(T["act"][i])]))
        d = leaf_diff((t_index(T["child"], i), t_index(T["ts"], i)), got)
        cx.count("n_jit")
        if d:
            cx.violation("step:jit-vs-graph-differs", f"jit(env.step) per call differs from jit(vmap(vmap(step))): {d[:4]}",
                         {"kind": "step-mode", "mode": "jit", "members": [_member(T, i, actions)], "failing": 0})
    timing["jit_s"] = round(time.time() - t0, 2)

    # ------------------------------------------------------------------ (1b) vmap(step), batch 1/2/7
    t0 = time.time()
    step_v = jax.jit(jax.vmap(env.step))
    A_np = np.asarray(actions)
    for b in VMAP_STEP_BATCHES:
        for start in range(0, N, b):
            idx = np.array([(start + j) % N for j in range(b)])
            got = canon(step_v(t_index(T["parent"], idx), A_np[T["act"][idx]]))
            exp = (t_index(T["child"], idx), t_index(T["ts"], idx))
            d = leaf_diff(exp, got)
            cx.count("n_vmap", b)
            cx.count(f"n_vmap{b}", b)
            if d:
                j = _first_bad_member(exp, got, b)
                cx.violation(f"step:vmap{b}-differs", f"vmap(env.step) with batch size {b} differs from the graph "
                             f"(member {j}): {d[:4]}",
                             {"kind": "step-mode", "mode": "vmap", "batch": b,
                              "members": [_member(T, int(i), actions) for i in idx], "failing": j})
    timing["vmap_s"] = round(time.time() - t0, 2)

    # ------------------------------------------------------------------ (1c) lax.scan along paths
    t0 = time.time()

    def _scan(s: Any, acts: Any) -> Any:
        def body(c: Any, a: Any) -> Any:
            c2, ts = env.step(c, a)
            return c2, (c2, ts)

        return jax.lax.scan(body, s, acts)

    scan_j = jax.jit(_scan)
    fulls = sorted({len(p["acts"]) for p in paths}, reverse=True)
    allowed = sorted(set(SCAN_PREFIXES) | set(fulls[: max(1, B["scan_shapes"] - len(SCAN_PREFIXES))]))
    scan_lengths_used = set()
    for pi, p in enumerate(paths):
        L = len(p["acts"])
        lens = sorted({l for l in SCAN_PREFIXES if l <= L} | {max(l for l in allowed if l <= L)})
        for l in lens:
            acts = A_np[np.array(p["acts"][:l])]
            doc = {"kind": "scan", "key": p["key"], "path": [int(a) for a in p["acts"]],
                   "path_actions": [np.asarray(actions[a]).tolist() for a in p["acts"]], "length": l}
            try:
                final, (ss, tss) = scan_j(p["states"][0], acts)
            except Exception as e:  # noqa: BLE001
                cx.violation("scan-raises", f"lax.scan(env.step) of length {l} raised {type(e).__name__}: {str(e)[:300]}", doc)
                continue
            final, ss, tss = canon(final), canon(ss), canon(tss)
            scan_lengths_used.add(l)
            cx.count("n_scan")
            cx.count("n_scan_steps", l)
            if l == L:
                cx.count("n_scan_full")
            bad = None
            for t in range(l):
                d = leaf_diff((p["states"][t + 1], p["ts"][t]), (t_index(ss, t), t_index(tss, t)))
                if d:
                    bad = (t, d)
                    break
            if bad is None:
                d = leaf_diff(p["states"][l], final)
                if d:
                    bad = (l - 1, ["final carry: " + x for x in d])
            if bad:
                tag = "full" if (l == L and l not in SCAN_PREFIXES) else str(l)
                cx.violation(f"scan{tag}-differs", f"lax.scan(env.step) of length {l} differs from the graph at step "
                             f"{bad[0] + 1}: {bad[1][:4]}", dict(doc, step=bad[0]))
    timing["scan_s"] = round(time.time() - t0, 2)

    # ------------------------------------------------------------------ (1c') default-integer-dtype actions
    # A policy's `argmax` / `randint` yields int32 actions; where the action spec declares another integer dtype
    # (MultiCVRP: int16) the same action values in int32 must give the same transition, leave every state leaf's
    # dtype as it was (a type-stable carry) and roll out under lax.scan like the spec-typed ones.
    if A_np.dtype.kind in "iu" and A_np.dtype != np.int32:
        A32 = A_np.astype(np.int32)
        for pi, p in enumerate(paths[:6]):
            L = min(len(p["acts"]), 5)
            acts32 = A32[np.array(p["acts"][:L])]
            doc = {"kind": "scan", "key": p["key"], "path": [int(a) for a in p["acts"]], "action_dtype": "int32",
                   "path_actions": [np.asarray(actions[a]).tolist() for a in p["acts"]], "length": L}
            got1 = canon(step_j(p["states"][0], jnp.asarray(acts32[0])))
            d = leaf_diff((p["states"][1], p["ts"][0]), got1)
            cx.count("n_int32_action_steps")
            if d:
                cx.violation("step:int32-actions-differ", f"env.step with the same action values as int32 (spec dtype {A_np.dtype}) "
                             f"differs (values or leaf dtypes): {d[:4]}", dict(doc, length=1))
                continue
            try:
                final, (ss, tss) = scan_j(p["states"][0], acts32)
            except Exception as e:  # noqa: BLE001
                cx.violation("scan-raises", f"lax.scan(env.step) over int32 actions (spec dtype {A_np.dtype}) raised "
                             f"{type(e).__name__}: {str(e)[:300]}", doc)
                continue
            ss, tss = canon(ss), canon(tss)
            cx.count("n_int32_action_scans")
            for t in range(L):
                d = leaf_diff((p["states"][t + 1], p["ts"][t]), (t_index(ss, t), t_index(tss, t)))
                if d:
                    cx.violation("scan-int32-actions-differ", f"lax.scan(env.step) over int32 actions differs from the graph at "
                                 f"step {t + 1}: {d[:4]}", dict(doc, step=t))
                    break

    # ------------------------------------------------------------------ (1d)+(3) eager step, arguments intact
    t0 = time.time()
    order = seeded_order(N, seed, "eager-step")
    # stratify: the first two eager calls are a transition out of a reset state and one of the deepest ones
    depth_of = [len(pth) for pth in T["path"]]
    shallow = next(i for i in order if depth_of[i] == min(depth_of))
    deep = next((i for i in order if depth_of[i] == max(depth_of) and T["key"][i] != T["key"][shallow]),
                next(i for i in order if depth_of[i] == max(depth_of)))  # preferably of another episode (key)
    order = [shallow, deep] + [i for i in order if i not in (shallow, deep)]
    slow = family in SLOW_EAGER
    eager_cost: List[float] = []
    n_eager_step = 0
    held_steps, held_docs = Held(), []
    for i in order:
        if n_eager_step >= 2:
            if tier == "quick" and slow:
                break
            if time.time() - t0 > B["eager_step_s"] or n_eager_step >= B["max_eager"]:
                break
        tc = time.time()
        s_in, a_in = as_jnp(t_index(T["parent"], i)), A_j[int(T["act"][i])]
        out, mut = guarded(env.step, s_in, a_in)
        eager_cost.append(time.time() - tc)
        got = held_steps.add(f"step #{n_eager_step + 1}", out)
        held_docs.append(_member(T, i, actions))
        d = leaf_diff((t_index(T["child"], i), t_index(T["ts"], i)), got)
        n_eager_step += 1
        cx.count("n_eager")
        cx.count("n_argument_checks")
        doc = {"kind": "step-mode", "mode": "eager", "members": [_member(T, i, actions)], "failing": 0}
        if d:
            cx.violation("step:eager-vs-jit-differs", f"un-jitted env.step differs from the jitted graph: {d[:4]}", doc)
        if mut:
            cx.violation("argument-mutated", f"env.step modified its arguments: {mut[:4]}", doc)
    ch = held_steps.changed()
    cx.count("n_held_rechecks", len(held_steps.items))
    if ch:
        cx.violation("earlier-result-changed-by-later-call", f"the result object of eager {ch[1]} no longer has the values it "
                     f"had when it was returned, after later eager steps on the same env: {ch[2][:4]}",
                     {"kind": "step-held", "members": held_docs, "failing": ch[0]})
    timing["eager_step_s"] = round(time.time() - t0, 2)
    step_eager_s = min(eager_cost) if eager_cost else None

    # ------------------------------------------------------------------ (1e) native eager episodes
    t0 = time.time()
    native = native_episodes(cx, env, gx, actions, slow, tier)
    timing["native_s"] = round(time.time() - t0, 2)

    # ------------------------------------------------------------------ reset: jit / vmap / eager
    t0 = time.time()
    reset_j = jax.jit(env.reset)
    reset_v = jax.jit(jax.vmap(env.reset))
    for r, k in enumerate(KEY_WINDOW):
        d = leaf_diff((t_index(root_s, r), t_index(root_ts, r)), canon(reset_j(prng(k))))
        cx.count("n_reset_jit")
        if d:
            cx.violation("reset:jit-vs-graph-differs", f"jit(env.reset) differs from jit(vmap(reset)) over the key window: {d[:4]}",
                         {"kind": "reset-mode", "mode": "jit", "keys": [k], "failing": 0})
    for b in VMAP_RESET_BATCHES:
        for start in range(0, len(KEY_WINDOW), b):
            idx = np.arange(start, start + b) % len(KEY_WINDOW)
            got = canon(reset_v(jnp.stack([prng(KEY_WINDOW[i]) for i in idx])))
            exp = (t_index(root_s, idx), t_index(root_ts, idx))
            d = leaf_diff(exp, got)
            cx.count("n_reset_vmap", b)
            if d:
                cx.violation(f"reset:vmap{b}-differs", f"vmap(env.reset) with batch size {b} differs: {d[:4]}",
                             {"kind": "reset-mode", "mode": "vmap", "batch": b, "keys": [KEY_WINDOW[i] for i in idx],
                              "failing": _first_bad_member(exp, got, b)})
    # eager `[env.reset(k) for k in keys]` on the one object: every result is compared when returned AND all of them
    # again, still held, after the last reset, with vmap(reset)(keys) (the graph roots)
    reset_cost: List[float] = []
    eager_reset_note = None
    held_resets = Held()
    for r, k in enumerate(KEY_WINDOW):
        tc = time.time()
        out, mut = guarded(env.reset, prng(k))
        reset_cost.append(time.time() - tc)
        got = held_resets.add(f"reset({k})", out)
        d = leaf_diff((t_index(root_s, r), t_index(root_ts, r)), got)
        cx.count("n_reset_eager")
        cx.count("n_argument_checks")
        doc = {"kind": "reset-mode", "mode": "eager", "keys": [k], "failing": 0}
        if d:
            cx.violation("reset:eager-vs-jit-differs", f"un-jitted env.reset differs from the jitted graph: {d[:4]}", doc)
        if mut:
            cx.violation("argument-mutated", f"env.reset modified its argument: {mut[:4]}", doc)
        if reset_cost[-1] > 20.0 and r + 1 < len(KEY_WINDOW):
            eager_reset_note = (f"eager reset({k}) took {reset_cost[-1]:.0f}s (> 20 s): the remaining "
                                f"{len(KEY_WINDOW) - r - 1} eager resets of the key window were skipped")
            break
    n_held = len(held_resets.items)
    ch = held_resets.changed()
    held_vs_vmap = leaf_diff((t_index(root_s, slice(0, n_held)), t_index(root_ts, slice(0, n_held))),
                             tmap(lambda *v: np.stack(v), *[canon(o) for _, o, _ in held_resets.items]))
    cx.count("n_held_rechecks", n_held)
    cx.count("n_reset_list_vs_vmap", n_held if n_held > 1 else 0)
    if ch or held_vs_vmap:
        what = (f"the object returned by eager {ch[1]} changed after later resets: {ch[2][:4]}" if ch else
                f"differs: {held_vs_vmap[:4]}")
        cx.violation("earlier-result-changed-by-later-call" if ch else "reset:eager-list-vs-vmap-differs",
                     f"[env.reset(k) for k in {KEY_WINDOW[:n_held]}] held until the end vs vmap(reset)(keys): {what}",
                     {"kind": "reset-mode", "mode": "eager-held", "keys": KEY_WINDOW[:n_held], "failing": ch[0] if ch else 0})
    timing["reset_s"] = round(time.time() - t0, 2)
    n_eager_reset = len(reset_cost)
    reset_eager_s = min(reset_cost) if reset_cost else None

    # ------------------------------------------------------------------ (2)+(3) call histories, instances
    t0 = time.time()
    hist = run_histories(cx, env, twin, gx, ctor, actions, root_s, root_ts, tier,
                         eager_cheap=family not in (SLOW_HISTORY_DEFAULT if kind == "default" else SLOW_HISTORY),
                         env_jit={"reset": reset_j, "step": step_j})
    timing["history_s"] = round(time.time() - t0, 2)

    n_compared = sum(cx.vac.get(k, 0) for k in ("n_jit", "n_vmap", "n_scan_steps", "n_eager", "n_reset_jit",
                                                "n_reset_vmap", "n_reset_eager", "n_history_calls",
                                                "n_trace_probes", "n_instance_calls"))
    validated = cx.vac.get("n_eager", 0) + cx.vac.get("n_reset_eager", 0) + cx.vac.get("n_history_eager_calls", 0)
    i_mid = N // 2
    samples = [
        {"model": cfg_name, "what": "transition re-executed under jit, vmap{1,2,7}" + (", eager" if n_eager_step else ""),
         **_member(T, i_mid, actions)},
        {"model": cfg_name, "what": "path scanned", "key": paths[0]["key"], "actions": [int(a) for a in paths[0]["acts"]],
         "origin": paths[0]["origin"]},
    ]
    out = {
        "model": cfg_name, "family": family, "kind": kind, "ctor": ctor,
        "states": distinct_states + hist["n_histories"],
        "transitions": n_compared,
        "validated": validated,
        "closed": bool(res["closed"]), "cap": res["cap"],
        "explored_states": res["states"], "explored_transitions": res["transitions"], "explored_depth": res["max_depth"],
        "alphabet_size": alphabet_size, "n_actions_used": nA,
        "T_size": N, "T_bfs": n_bfs_T, "T_distinct_states": distinct_states,
        "n_paths": len(paths), "path_lengths": sorted({len(p["acts"]) for p in paths}),
        "scan_lengths": sorted(scan_lengths_used),
        "modes": {k: cx.vac.get(k, 0) for k in ("n_jit", "n_vmap", "n_scan", "n_scan_steps", "n_eager", "n_reset_jit",
                                                "n_reset_vmap", "n_reset_eager", "n_histories", "n_history_calls",
                                                "n_history_eager_calls", "n_trace_probes", "n_argument_checks",
                                                "n_instance_calls", "n_held_rechecks", "n_reset_list_vs_vmap",
                                                "n_native_resets", "n_native_steps")},
        "native_episodes": native,
        "history_mode": hist["mode"], "history_alphabet": hist["alphabet"], "instance_check": hist["instances"],
        "eager_step_s": None if step_eager_s is None else round(step_eager_s, 3),
        "eager_reset_s": None if reset_eager_s is None else round(reset_eager_s, 3),
        "timing": timing, "total_s": round(time.time() - t_start, 2),
        "vacuity": dict(cx.vac), "violations": cx.violations, "violation_counts": dict(cx.n_by_sig),
        "samples": samples + hist["samples"],
    }
    if eager_reset_note:
        out["eager_reset_note"] = eager_reset_note
    return out


# ---------------------------------------------------------------------------------------------
# native eager episodes: the objects returned by un-jitted reset / step are handed on untouched
# ---------------------------------------------------------------------------------------------
NATIVE_WINDOW = list(range(16))
# (root classes, root fan-out, chain length) — static per tier / cost class, never measured at run time
NATIVE_BOUNDS = {
    ("quick", False): (8, 16, 6), ("quick", True): (1, 2, 2),
    ("thorough", False): (16, 64, 12), ("thorough", True): (3, 6, 4),
}


def root_classes(root_s: Any) -> List[int]:
    """Index of the first root of every class of reset states that agree on all integer / bool leaves other than
    the PRNG key (e.g. the 7 first Tetris pieces; instances with continuous data are all in different classes
    only through their integer leaves, so they mostly collapse): a deterministic way of spreading a few
    expensive eager episodes over structurally different starts."""
    flat = jax.tree_util.tree_flatten_with_path(root_s)[0]
    cols = [np.asarray(x).reshape(len(x), -1).astype(np.int64) for p, x in flat
            if np.asarray(x).dtype.kind in "iub" and "key" not in jax.tree_util.keystr(p).lower()]
    seen: Dict[bytes, int] = {}
    n = t_len(root_s)
    for i in range(n):
        k = b"|".join(c[i].tobytes() for c in cols)
        seen.setdefault(k, i)
    return sorted(seen.values())


def native_episodes(cx: "Ctx", env: Any, gx: GraphExec, actions: np.ndarray, slow: bool, tier: str) -> Dict[str, Any]:
    """`s, ts = env.reset(key)` and `s, ts = env.step(s, a)` as a user's plain Python loop runs them: every state
    handed to step is the very object the previous eager call returned (Python-scalar / weakly typed leaves
    included), never a re-packed array copy.  From each selected reset state the root fan-out (all actions up
    to the bound, evenly spaced beyond it) is stepped eagerly, then the first-surviving-action chain is followed;
    every result must equal the graph value (`jit(vmap(vmap(step)))` on the canonical form of the same state)."""
    n_cls, fan, chain = NATIVE_BOUNDS[(tier, slow)]
    nA = len(actions)
    rs, _ = gx.roots(NATIVE_WINDOW)
    firsts = root_classes(rs)[:n_cls]
    a_idx = list(range(nA)) if nA <= fan else sorted({(i * (nA - 1)) // (fan - 1) for i in range(fan)})
    A_j = [jnp.asarray(a) for a in actions]
    n_steps = 0
    used_keys = []
    for r in firsts:
        k = NATIVE_WINDOW[r]
        used_keys.append(k)
        s_nat, ts_nat = env.reset(prng(k))
        d = leaf_diff(t_index(rs, r), canon(s_nat))
        cx.count("n_native_resets")
        if d:
            cx.violation("reset:eager-vs-jit-differs", f"un-jitted env.reset(PRNGKey({k})) differs from jit(vmap(reset)): {d[:4]}",
                         {"kind": "native", "key": k, "actions": [], "failing": -1})
            continue
        ch_s, ch_ts = gx.children(t_index(rs, r))
        first_alive = None
        for a in a_idx:
            out, mut = guarded(env.step, s_nat, A_j[a])
            n_steps += 1
            got = canon(out)
            d = leaf_diff((t_index(ch_s, a), t_index(ch_ts, a)), got)
            doc = {"kind": "native", "key": k, "actions": [int(a)], "failing": 0,
                   "path_actions": [np.asarray(actions[a]).tolist()]}
            if d:
                cx.violation("step:eager-vs-jit-differs", "env.step(*env.reset(key)[:1], a) run as plain Python (the state object "
                             f"returned by the eager reset passed on untouched) differs from the jitted graph: {d[:4]}", doc)
            if mut:
                cx.violation("argument-mutated", f"env.step modified its arguments: {mut[:4]}", doc)
            if first_alive is None and int(np.asarray(got[1].step_type)) != 2:
                first_alive = (a, out)
        # chain: keep passing the native objects on
        path = []
        cur = first_alive
        while cur is not None and len(path) < chain:
            a, (s_nat, ts_nat) = cur
            path.append(int(a))
            s_can = canon(s_nat)
            ch_s, ch_ts = gx.children(s_can)
            alive = np.nonzero(np.asarray(ch_ts.step_type) != 2)[0]
            a2 = int(alive[0]) if len(alive) else 0
            out, mut = guarded(env.step, s_nat, A_j[a2])
            n_steps += 1
            got = canon(out)
            d = leaf_diff((t_index(ch_s, a2), t_index(ch_ts, a2)), got)
            doc = {"kind": "native", "key": k, "actions": path + [a2], "failing": len(path),
                   "path_actions": [np.asarray(actions[x]).tolist() for x in path + [a2]]}
            if d:
                cx.violation("step:eager-vs-jit-differs", f"plain Python episode (native objects handed on) differs from the jitted "
                             f"graph at step {len(path) + 1}: {d[:4]}", doc)
                break
            if mut:
                cx.violation("argument-mutated", f"env.step modified its arguments: {mut[:4]}", doc)
            cur = (a2, out) if len(alive) else None
    cx.count("n_native_steps", n_steps)
    cx.count("n_eager", n_steps)
    cx.count("n_argument_checks", n_steps)
    return {"keys": used_keys, "root_fanout": len(a_idx), "steps": n_steps}


# ---------------------------------------------------------------------------------------------
# call histories on one object; instance independence
# ---------------------------------------------------------------------------------------------
def pick_alphabet(gx: GraphExec, root_s: Any) -> Tuple[int, int]:
    """a0: first action whose successor of s0 is not terminal (so that s1 is a live state) else 0;
    a1: the last such action different from a0, else the next action index."""
    nA = len(gx.actions)
    _, ts2 = gx.children(t_index(root_s, 0))
    alive = [int(a) for a in np.nonzero(np.asarray(ts2.step_type) != 2)[0]]
    a0 = alive[0] if alive else 0
    rest = [a for a in alive if a != a0]
    a1 = rest[-1] if rest else (a0 + 1) % nA
    return a0, a1


class CallSet:
    """The five calls of the history alphabet with their (re-used) argument objects."""

    def __init__(self, k0: int, k1: int, s0: Any, s1: Any, a0: Any, a1: Any):
        self.k0, self.k1 = prng(k0), prng(k1)
        self.s0, self.s1 = as_jnp(s0), as_jnp(s1)
        self.a0, self.a1 = jnp.asarray(a0), jnp.asarray(a1)

    def args(self, name: str) -> Tuple[str, Tuple[Any, ...]]:
        return {
            "reset(k0)": ("reset", (self.k0,)),
            "reset(k1)": ("reset", (self.k1,)),
            "step(s0,a0)": ("step", (self.s0, self.a0)),
            "step(s0,a1)": ("step", (self.s0, self.a1)),
            "step(s1,a0)": ("step", (self.s1, self.a0)),
        }[name]


def expected_on(envx: Any, calls: CallSet) -> Dict[str, Any]:
    """The five results under jit on instance `envx` (one jit wrapper per function)."""
    f = {"reset": jax.jit(lambda k: envx.reset(k)), "step": jax.jit(lambda s, a: envx.step(s, a))}
    out = {}
    for name in CALLS:
        fn, args = calls.args(name)
        out[name] = canon(f[fn](*args))
    return out


def probe_after_history(envh: Any, calls: CallSet, fresh_prog: Dict[str, Any], expected: Dict[str, Any],
                        fns: Sequence[str] = ("reset", "step")) -> Tuple[int, Optional[Tuple[str, List[str]]]]:
    """trace-under-jit-after-history: trace reset/step of `envh` from scratch now.  If the traced
    program (jaxpr text + constants) is the one a fresh instance gives, results are equal for every
    input; otherwise compile it and compare the alphabet's results with the fresh-instance results.
    -> (number of probes, None | (call name, differences))"""
    n = 0
    for fn in fns:
        names = [c for c in CALLS if c.startswith(fn)]
        _, args = calls.args(names[0])
        n += 1
        try:
            prog = traced_program(getattr(envh, fn), *args)
        except Exception as e:  # noqa: BLE001 - e.g. UnexpectedTracerError: a tracer was kept on the object
            return n, (names[0], [f"tracing after the history raised {type(e).__name__}: {str(e)[:300]}"])
        if same_program(prog, fresh_prog[fn]):
            continue
        f = jax.jit(lambda *a: getattr(envh, fn)(*a))  # noqa: B023
        for name in names:
            d = leaf_diff(expected[name], canon(f(*calls.args(name)[1])))
            if d:
                return n, (name, d)
    return n, None


def run_history(envh: Any, seq: Sequence[str], calls: CallSet, expected: Dict[str, Any]
                ) -> Tuple[int, Optional[Tuple[int, str, List[str]]]]:
    """Run `seq` eagerly on the single object `envh`; every result object is kept and, after each later call and
    at the end, must still hold the values it had when returned.  -> (calls made, None | (index, what, details))"""
    held = Held()
    for n, name in enumerate(seq):
        fn, args = calls.args(name)
        try:
            out, mut = guarded(getattr(envh, fn), *args)
        except Exception as e:  # noqa: BLE001
            return n + 1, (n, "history-dependent-result", [f"call raised {type(e).__name__}: {str(e)[:300]}"])
        if mut:
            return n + 1, (n, "argument-mutated", mut)
        got = held.add(f"#{n + 1} {name}", out)
        d = leaf_diff(expected[name], got)
        if d:
            return n + 1, (n, "history-dependent-result", d)
        ch = held.changed(skip_last=True)
        if ch:
            return n + 1, (n, "earlier-result-changed-by-later-call",
                           [f"result object of call {ch[1]} changed after call #{n + 1} {name}"] + ch[2])
    return len(seq), None


def classify_history_failure(ctor: str, name: str, calls: CallSet, expected: Dict[str, Any]) -> str:
    """A call in an eager history differs from the jit result of a fresh instance: if the very same eager call
    on a new object with an empty history differs too, the history is not the cause (eager != jit)."""
    fn, args = calls.args(name)
    try:
        alone = canon(getattr(_make(ctor), fn)(*args))
    except Exception:  # noqa: BLE001
        return "history-dependent-result"
    return f"{fn}:eager-vs-jit-differs" if leaf_diff(expected[name], alone) else "history-dependent-result"


_HOW = {"argument-mutated": "modified its arguments",
        "earlier-result-changed-by-later-call": "altered a result object returned by an earlier call"}


def run_histories(cx: Ctx, env: Any, twin: Any, gx: GraphExec, ctor: str, actions: np.ndarray, root_s: Any,
                  root_ts: Any, tier: str, eager_cheap: bool, env_jit: Dict[str, Any]) -> Dict[str, Any]:
    L = BOUNDS[tier]["hist_len"]
    a0, a1 = pick_alphabet(gx, root_s)
    k0, k1 = KEY_WINDOW[0], KEY_WINDOW[1]
    s0 = t_index(root_s, 0)
    ch_s, ch_ts = gx.children(s0)  # graph values on the driven instance `env`
    s1 = t_index(ch_s, a0)
    ch1_s, ch1_ts = gx.children(s1)
    graph = {
        "reset(k0)": (t_index(root_s, 0), t_index(root_ts, 0)),
        "reset(k1)": (t_index(root_s, 1), t_index(root_ts, 1)),
        "step(s0,a0)": (t_index(ch_s, a0), t_index(ch_ts, a0)),
        "step(s0,a1)": (t_index(ch_s, a1), t_index(ch_ts, a1)),
        "step(s1,a0)": (t_index(ch1_s, a0), t_index(ch1_ts, a0)),
    }
    calls = CallSet(k0, k1, s0, s1, actions[a0], actions[a1])
    base = {"keys": [k0, k1], "a0_index": a0, "a1_index": a1, "a0": np.asarray(actions[a0]).tolist(),
            "a1": np.asarray(actions[a1]).tolist()}

    # -- instance independence: `late` is constructed after `env` has been driven (exploration, part 1);
    #    `twin` was constructed together with `env` and has not been touched yet.
    late = _make(ctor)
    fresh_prog = {"reset": traced_program(late.reset, calls.k0), "step": traced_program(late.step, calls.s0, calls.a0)}
    # quick tier: when the program traced on the other instance is identical (jaxpr text + constants) to the one
    # traced on the driven instance, its results are those of the driven instance's jit wrappers (already
    # compiled in part 1) - no further compilation; otherwise, and always in the thorough tier, compile and run.
    env_prog = None
    env_res = None
    if tier == "quick":
        env_prog = {"reset": traced_program(env.reset, calls.k0), "step": traced_program(env.step, calls.s0, calls.a0)}
        env_res = {name: canon(env_jit[calls.args(name)[0]](*calls.args(name)[1])) for name in CALLS}
    expected = None
    inst_how = {}
    for which, inst in (("constructed-after-another-was-driven", late), ("twin-constructed-before", twin)):
        prog = fresh_prog if inst is late else {"reset": traced_program(inst.reset, calls.k0),
                                                "step": traced_program(inst.step, calls.s0, calls.a0)}
        if env_prog is not None and all(same_program(prog[f], env_prog[f]) for f in ("reset", "step")):
            inst_res = env_res
            inst_how[which] = "identical traced program"
            cx.count("n_instance_by_program")
        else:
            inst_res = expected_on(inst, calls)
            inst_how[which] = "compiled and compared"
            cx.count("n_instance_by_value")
        if inst is late:
            expected = inst_res
        for name in CALLS:
            d = leaf_diff(graph[name], inst_res[name])
            cx.count("n_instance_calls")
            if d:
                cx.violation("instance-dependent-result", f"{name} on a second instance ({which}) differs from the "
                             f"first, driven instance: {d[:4]}", dict(base, kind="instance", which=which, call=name))

    # -- histories
    maximal = list(itertools.product(CALLS, repeat=L))
    n_hist = sum(len(CALLS) ** l for l in range(1, L + 1))
    mode = "eager" if eager_cheap else ("eager, length<=2" if tier == "thorough" else "eager-reset-pairs+first-step+trace-probe")
    samples: List[Any] = []
    if eager_cheap or tier == "thorough":
        if not eager_cheap:
            maximal = list(itertools.product(CALLS, repeat=2))
            n_hist = len(CALLS) + len(CALLS) ** 2
        for n_obj, seq in enumerate(maximal):
            if n_obj and n_obj % 25 == 0:
                _release_memory()  # every object compiles its own eager closures; bound the worker's memory
            envh = _make(ctor)
            n_calls, bad = run_history(envh, seq, calls, expected)
            cx.count("n_history_calls", n_calls)
            cx.count("n_history_eager_calls", n_calls)
            cx.count("n_argument_checks", n_calls)
            cx.count("n_held_rechecks", max(0, n_calls - 1))
            if bad:
                i, what, d = bad
                if what == "history-dependent-result":
                    what = classify_history_failure(ctor, seq[i], calls, expected)
                cx.violation(what, f"call #{i + 1} {seq[i]} after history {list(seq[:i])} on one object (eager) "
                             f"{_HOW.get(what, 'differs from the same call on a fresh instance')}: {d[:4]}",
                             dict(base, kind="history", mode="eager", history=list(seq[: i + 1]), failing=i))
                continue
            n_p, badp = probe_after_history(envh, calls, fresh_prog, expected)
            cx.count("n_trace_probes", n_p)
            if badp:
                cx.violation("history-dependent-result", f"{badp[0]} traced under a fresh jax.jit after the eager history "
                             f"{list(seq)} differs from a fresh instance: {badp[1][:4]}",
                             dict(base, kind="history", mode="trace-after-history", history=list(seq), probe=badp[0]))
        samples.append({"model": cx.model, "what": "history on one object", "mode": mode, "history": list(maximal[len(maximal) // 3]), **base})
    else:
        # slow eager (quick tier): the two reset pairs (no eager step needed) and one object per first step call are
        # run eagerly (compared, earlier results re-checked, arguments checked); then reset and step are traced from
        # scratch on that object: the traced program after the first call decides the remaining (c1, c2)
        n_hist = len(CALLS) + len(CALLS) ** 2
        firsts = [(CALLS[0], CALLS[1]), (CALLS[1], CALLS[0])] + [(c,) for c in CALLS[2:]]
        for seq in firsts:
            envh = _make(ctor)
            n_calls, bad = run_history(envh, seq, calls, expected)
            cx.count("n_history_calls", n_calls)
            cx.count("n_history_eager_calls", n_calls)
            cx.count("n_argument_checks", n_calls)
            cx.count("n_held_rechecks", max(0, n_calls - 1))
            if bad:
                i, what, d = bad
                if what == "history-dependent-result":
                    what = classify_history_failure(ctor, seq[i], calls, expected)
                cx.violation(what, f"call #{i + 1} {seq[i]} after history {list(seq[:i])} on one object (eager) "
                             f"{_HOW.get(what, 'differs from the same call on a fresh instance')}: {d[:4]}",
                             dict(base, kind="history", mode="eager", history=list(seq[: i + 1]), failing=i))
                continue
            n_p, badp = probe_after_history(envh, calls, fresh_prog, expected)
            cx.count("n_trace_probes", n_p)
            cx.count("n_history_calls", len(CALLS) - (len(seq) - 1))
            if badp:
                cx.violation("history-dependent-result", f"{badp[0]} traced under a fresh jax.jit after the eager history "
                             f"{list(seq)} on the same object differs from a fresh instance: {badp[1][:4]}",
                             dict(base, kind="history", mode="trace-after-history", history=list(seq), probe=badp[0]))
        samples.append({"model": cx.model, "what": "history on one object", "mode": mode, "history": list(firsts[0]), **base})
    cx.count("n_histories", n_hist)
    return {"n_histories": n_hist, "mode": mode, "alphabet": base, "samples": samples, "instances": inst_how}


# ---------------------------------------------------------------------------------------------
# replay of one recorded comparison
# ---------------------------------------------------------------------------------------------
def _show(tag: str, d: List[str]) -> int:
    print(f"  {tag}: " + ("identical" if not d else f"DIFFERS {d[:6]}"))
    return 1 if d else 0


def replay_case(doc: Dict[str, Any]) -> int:
    r = doc.get("replay", doc)
    ctor, kind = r["ctor"], r["kind"]
    print(f"replay C02 {r.get('signature')}: {kind} on {ctor}")
    env = _make(ctor)
    if kind == "tracer-leak":
        k0 = prng(0)
        try:
            for _ in range(2):  # two independent traces of each function on one object
                s0, _ts = jax.jit(lambda k: env.reset(k))(k0)
            a = jnp.asarray(action_set(env, r["max_actions"])[0][0])
            for _ in range(2):
                jax.jit(lambda s, a: env.step(s, a))(s0, a)
            for b in (1, 2):
                jax.jit(jax.vmap(lambda s, a: env.step(s, a)))(tmap(lambda x: jnp.stack([jnp.asarray(x)] * b), s0), jnp.stack([a] * b))
        except jax.errors.UnexpectedTracerError as e:
            print(f"  second trace on the same object raised UnexpectedTracerError: {str(e)[:300]}")
            return 1
        print("  repeated tracing works")
        return 0
    if kind == "effects":
        args = (prng(0),) if r["fn"] == "reset" else None
        if args is None:
            s, _ = jax.jit(env.reset)(prng(0))
            args = (s, jnp.asarray(action_set(env, r["max_actions"])[0][0]))
        eff = traced_program(getattr(env, r["fn"]), *args)[2]
        print(f"  effects of env.{r['fn']}: {eff}")
        return 1 if eff else 0
    actions, _ = action_set(env, r["max_actions"])
    gx = GraphExec(env, actions)
    root_s, root_ts = gx.roots(KEY_WINDOW)
    A_np = np.asarray(actions)
    if kind == "reset-mode":
        # the whole reset section in the order of the check (a failure caused by process-global Python state
        # depends on the calls made before; the recorded comparison is marked with "*")
        rc = 0
        reset_j, reset_v = jax.jit(env.reset), jax.jit(jax.vmap(env.reset))

        def mark(mode: str, keys: List[int]) -> str:
            return "* " if (r["mode"] == mode and list(r["keys"]) == list(keys)) else "  "

        for i, k in enumerate(KEY_WINDOW):
            rc |= _show(f"{mark('jit', [k])}jit(reset)({k})",
                        leaf_diff((t_index(root_s, i), t_index(root_ts, i)), canon(reset_j(prng(k)))))
        for b in VMAP_RESET_BATCHES:
            for start in range(0, len(KEY_WINDOW), b):
                idx = np.arange(start, start + b) % len(KEY_WINDOW)
                keys = [KEY_WINDOW[i] for i in idx]
                got = canon(reset_v(jnp.stack([prng(k) for k in keys])))
                rc |= _show(f"{mark('vmap', keys)}vmap(reset) batch {keys}",
                            leaf_diff((t_index(root_s, idx), t_index(root_ts, idx)), got))
        held = Held()
        ekeys = r["keys"] if r["mode"].startswith("eager") else KEY_WINDOW[:1]
        for k in ekeys:
            i = KEY_WINDOW.index(k)
            out, mut = guarded(env.reset, prng(k))
            got = held.add(f"reset({k})", out)
            rc |= _show(f"{mark('eager', [k])}eager reset({k})", leaf_diff((t_index(root_s, i), t_index(root_ts, i)), got))
            rc |= _show("  arguments", mut)
        ch = held.changed()
        rc |= _show(f"{mark('eager-held', list(ekeys))}results of the eager resets {list(ekeys)} still unchanged at the end",
                    [] if ch is None else [f"object returned by {ch[1]} changed"] + ch[2])
        return rc
    if kind == "native":
        rs, _ = gx.roots([r["key"]])
        s_nat, _ts = env.reset(prng(r["key"]))
        rc = _show(f"eager reset({r['key']})", leaf_diff(t_index(rs, 0), canon(s_nat)))
        for n, a in enumerate(r["actions"]):
            ch_s, ch_ts = gx.children(canon(s_nat))
            out, mut = guarded(env.step, s_nat, jnp.asarray(A_np[a]))
            rc |= _show(f"plain Python step {n + 1} (action index {a})", leaf_diff((t_index(ch_s, a), t_index(ch_ts, a)), canon(out)))
            rc |= _show("  arguments", mut)
            s_nat = out[0]
        return rc
    if kind == "step-held":
        held = Held()
        rc = 0
        for n, m in enumerate(r["members"]):
            st = t_index(root_s, KEY_WINDOW.index(m["key"]))
            for a in m["path"]:
                st = t_index(gx.children(st)[0], a)
            cs, cts = gx.children(st)
            out, mut = guarded(env.step, as_jnp(st), jnp.asarray(A_np[m["action_index"]]))
            got = held.add(f"step #{n + 1}", out)
            rc |= _show(f"eager step #{n + 1}", leaf_diff((t_index(cs, m["action_index"]), t_index(cts, m["action_index"])), got))
        ch = held.changed()
        return rc | _show("earlier results unchanged at the end", [] if ch is None else [f"object returned by {ch[1]} changed"] + ch[2])
    if kind == "step-mode":
        par, act, exp_s, exp_ts = [], [], [], []
        for m in r["members"]:
            s = t_index(root_s, KEY_WINDOW.index(m["key"]))
            for a in m["path"]:
                s = t_index(gx.children(s)[0], a)
            cs, cts = gx.children(s)
            par.append(s)
            act.append(m["action_index"])
            exp_s.append(t_index(cs, m["action_index"]))
            exp_ts.append(t_index(cts, m["action_index"]))
        stack = lambda xs: tmap(lambda *v: np.stack(v), *xs)  # noqa: E731
        if r["mode"] == "vmap":
            got = canon(jax.jit(jax.vmap(env.step))(stack(par), A_np[np.array(act)]))
            return _show(f"vmap(step) batch {len(par)}", leaf_diff((stack(exp_s), stack(exp_ts)), got))
        if r["mode"] == "jit":
            got = canon(jax.jit(env.step)(par[0], jnp.asarray(A_np[act[0]])))
            return _show("jit(step)", leaf_diff((exp_s[0], exp_ts[0]), got))
        out, mut = guarded(env.step, as_jnp(par[0]), jnp.asarray(A_np[act[0]]))
        return _show("eager step", leaf_diff((exp_s[0], exp_ts[0]), canon(out))) | _show("arguments", mut)
    if kind == "scan":
        root = t_index(root_s, KEY_WINDOW.index(r["key"]))
        nodes = gx.walk(root, r["path"][: r["length"]])

        def _scan(s: Any, acts: Any) -> Any:
            def body(c: Any, a: Any) -> Any:
                c2, ts = env.step(c, a)
                return c2, (c2, ts)

            return jax.lax.scan(body, s, acts)

        acts_r = A_np[np.array(r["path"][: r["length"]])]
        if r.get("action_dtype"):
            acts_r = acts_r.astype(r["action_dtype"])
        try:
            final, (ss, tss) = jax.jit(_scan)(root, acts_r)
        except Exception as e:  # noqa: BLE001
            print(f"  scan raised {type(e).__name__}: {str(e)[:300]}")
            return 1
        ss, tss = canon(ss), canon(tss)
        rc = 0
        for t, (s, ts) in enumerate(nodes):
            rc |= _show(f"scan[{r['length']}] step {t + 1}", leaf_diff((s, ts), (t_index(ss, t), t_index(tss, t))))
        return rc | _show("final carry", leaf_diff(nodes[-1][0], canon(final)))
    # instance / history: rebuild the alphabet on the first (driven) instance
    a0, a1 = r["a0_index"], r["a1_index"]
    s0 = t_index(root_s, 0)
    ch_s, ch_ts = gx.children(s0)
    s1 = t_index(ch_s, a0)
    ch1_s, ch1_ts = gx.children(s1)
    calls = CallSet(r["keys"][0], r["keys"][1], s0, s1, actions[a0], actions[a1])
    if kind == "instance":
        graph = {"reset(k0)": (t_index(root_s, 0), t_index(root_ts, 0)), "reset(k1)": (t_index(root_s, 1), t_index(root_ts, 1)),
                 "step(s0,a0)": (t_index(ch_s, a0), t_index(ch_ts, a0)), "step(s0,a1)": (t_index(ch_s, a1), t_index(ch_ts, a1)),
                 "step(s1,a0)": (t_index(ch1_s, a0), t_index(ch1_ts, a0))}
        second = _make(ctor)  # constructed after `env` has been driven
        res = expected_on(second, calls)
        return _show(f"{r['call']} on a second instance", leaf_diff(graph[r["call"]], res[r["call"]]))
    if kind == "history":
        fresh = _make(ctor)
        fresh_prog = {"reset": traced_program(fresh.reset, calls.k0), "step": traced_program(fresh.step, calls.s0, calls.a0)}
        expected = expected_on(fresh, calls)
        envh = _make(ctor)
        n, bad = run_history(envh, r["history"], calls, expected)
        if bad:
            print(f"  eager history {r['history']}: call #{bad[0] + 1} -> {bad[1]}: {bad[2][:6]}")
            return 1
        print(f"  eager history {r['history']}: every call equals the fresh-instance result")
        if r["mode"] == "trace-after-history":
            _, badp = probe_after_history(envh, calls, fresh_prog, expected)
            if badp:
                print(f"  {badp[0]} traced after the history DIFFERS: {badp[1][:6]}")
                return 1
            print("  programs traced after the history equal the fresh-instance programs")
        return 0
    raise ValueError(f"unknown replay kind {kind}")
