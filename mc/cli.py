"""./check <ID> [--tier quick|thorough] [--replay path]"""
from __future__ import annotations

import argparse
import importlib
import json
import os
import sys

from mc import boot


def main(argv=None) -> int:
    ap = argparse.ArgumentParser(prog="check")
    ap.add_argument("property_id")
    ap.add_argument("--tier", default=None, choices=["quick", "thorough"])
    ap.add_argument("--replay", default=None)
    args = ap.parse_args(argv)
    if args.tier:
        os.environ["VERIF_TIER"] = args.tier
    tier, seed = boot.tier(), boot.seed()
    boot.assert_repo()
    pid = args.property_id.upper()
    mod = importlib.import_module(f"mc.checks.{pid.lower()}")
    if args.replay:
        doc = json.load(open(args.replay))
        return int(mod.replay(doc))
    return int(mod.main(tier, seed))


if __name__ == "__main__":
    sys.exit(main())
