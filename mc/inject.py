"""Instance injection through the public Generator extension points (tiny instance families)."""
from __future__ import annotations

import itertools
from typing import Any

from mc import boot  # noqa: F401

import numpy as np


def sudoku_near_complete(k: int = 4, cells=((0, 0), (0, 1), (1, 0), (4, 4), (4, 5), (8, 8))) -> Any:
    """DatabaseGenerator over the solved sample board with every k-subset of `cells` blanked."""
    from jumanji.environments.logic.sudoku.constants import SOLVED_BOARD_SAMPLE
    from jumanji.environments.logic.sudoku.generator import DatabaseGenerator

    boards = []
    for sub in itertools.combinations(cells, k):
        b = np.array(SOLVED_BOARD_SAMPLE).copy()
        for r, c in sub:
            b[r, c] = 0
        boards.append(b)
    return DatabaseGenerator(np.stack(boards))
