"""Instance injection through the public Generator extension points (tiny instance families)."""
from __future__ import annotations

import itertools
from typing import Any

from mc import boot  # noqa: F401

import numpy as np


def sudoku_near_complete(k: int = 4, cells=((0, 0), (0, 1), (1, 0), (4, 4), (4, 5), (8, 8))) -> Any:
    """DatabaseGenerator over the solved sample board with every k-subset of `cells` blanked."""
    from jumanji.environments.logic.sudoku.constants import SOLVED_BOARD_SAMPLE
    from jumanji.environments.logic.sudoku.generator import DatabaseGenerator

    boards = []
    for sub in itertools.combinations(cells, k):
        b = np.array(SOLVED_BOARD_SAMPLE).copy()
        for r, c in sub:
            b[r, c] = 0
        boards.append(b)
    return DatabaseGenerator(np.stack(boards))


def sudoku_boards_int32(k: int = 2, cells=((0, 0), (0, 1), (4, 4), (8, 8))) -> Any:
    """A caller-owned puzzle database (int32 NumPy array, 0 = empty, 1..9 = digits): the solved sample with
    every k-subset of `cells` blanked.  A new array object on every call."""
    from jumanji.environments.logic.sudoku.constants import SOLVED_BOARD_SAMPLE

    boards = []
    for sub in itertools.combinations(cells, k):
        b = np.array(SOLVED_BOARD_SAMPLE).copy()
        for r, c in sub:
            b[r, c] = 0
        boards.append(b)
    return np.ascontiguousarray(np.stack(boards), dtype=np.int32)


def sudoku_dead_ends(cases=((0, 0, 3), (4, 4, 5), (8, 8, 7), (2, 6, 1))) -> Any:
    """Boards on which a locally legal but wrong digit exists: on the solved sample, for a cell A=(r,c)
    and a digit y != solution[A], blank A and the cells holding y in A's row, column and box."""
    from jumanji.environments.logic.sudoku.constants import SOLVED_BOARD_SAMPLE
    from jumanji.environments.logic.sudoku.generator import DatabaseGenerator

    sol = np.array(SOLVED_BOARD_SAMPLE)
    boards = []
    for r, c, y in cases:
        assert sol[r, c] != y
        b = sol.copy()
        b[r, c] = 0
        br, bc = 3 * (r // 3), 3 * (c // 3)
        for rr in range(9):
            for cc in range(9):
                if sol[rr, cc] == y and (rr == r or cc == c or (br <= rr < br + 3 and bc <= cc < bc + 3)):
                    b[rr, cc] = 0
        boards.append(b)
    return DatabaseGenerator(np.stack(boards))


# a small, non-square (9 rows x 11 columns), fully enclosed PacMan maze with the markers the generator needs:
# 4 ghosts G, 4 initial ghost targets T, 4 scatter targets S, power-ups O, the player P
PACMAN_SMALL = [
    "XXXXXXXXXXX",
    "XS   X   SX",
    "X XX X XX X",
    "XO T   T OX",
    "X XXGGGXX X",
    "XO  TGT  OX",
    "X XX X XX X",
    "XS   P   SX",
    "XXXXXXXXXXX",
]

SOKOBAN_OPEN_LEVELS = (
    # no outer wall ring ('*' = box standing on a target): pushes off the top / left edge, box into box
    ("  $  .    ",
     " $@$$     ",
     "  .       ",
     "          ",
     "          ",
     "     .    ",
     "          ",
     "          ",
     "          ",
     ".         "),
    # pushes off the bottom / right edge
    ("         .",
     "          ",
     "          ",
     "          ",
     "    .     ",
     "          ",
     "          ",
     "       .  ",
     "     $$@$ ",
     "    .  $  "),
    # a box on a target blocks a pushed box; a box is pushed onto / off a target next to the border
    (" .        ",
     " @$*      ",
     " $        ",
     " .  $     ",
     "          ",
     "     .    ",
     "          ",
     "          ",
     "          ",
     "          "),
)


def sokoban_open_levels(levels=SOKOBAN_OPEN_LEVELS) -> Any:
    """Sokoban generator over hand-written 10x10 levels WITHOUT an outer ring of walls (the shipped levels all have
    one, so the in-grid test of a box destination is never exercised by them)."""
    import jax.numpy as jnp

    from jumanji.environments.routing.sokoban.generator import Generator
    from jumanji.environments.routing.sokoban.types import State

    fmap = {"#": 1, ".": 2, "*": 2, "+": 2}
    vmap_ = {"@": 3, "+": 3, "$": 4, "*": 4}
    fixed = jnp.asarray([[[fmap.get(c, 0) for c in row] for row in lv] for lv in levels], jnp.uint8)
    var = jnp.asarray([[[vmap_.get(c, 0) for c in row] for row in lv] for lv in levels], jnp.uint8)
    for lv in levels:
        txt = "".join(lv)
        assert len(lv) == 10 and all(len(r) == 10 for r in lv)
        assert txt.count("$") + txt.count("*") == 4 and txt.count(".") + txt.count("*") + txt.count("+") == 4
        assert txt.count("@") + txt.count("+") == 1

    class OpenLevels(Generator):
        n_instances = len(levels)

        def __call__(self, key: Any) -> Any:
            i = _pick(key, len(levels))
            v = var[i]
            return State(key=key, fixed_grid=fixed[i], variable_grid=v, agent_location=self.get_agent_coordinates(v),
                         step_count=jnp.array(0, jnp.int32))

    return OpenLevels()


def _pick(key: Any, n: int) -> Any:
    import jax

    return jax.random.randint(key, (), 0, n)


def all_graphs(num_nodes: int = 4) -> Any:
    """Generator whose range is ALL undirected loop-free graphs on `num_nodes` nodes (64 for 4)."""
    import jax.numpy as jnp

    from jumanji.environments.logic.graph_coloring.generator import Generator

    pairs = [(i, j) for i in range(num_nodes) for j in range(i + 1, num_nodes)]
    table = np.zeros((2 ** len(pairs), num_nodes, num_nodes), bool)
    for g in range(2 ** len(pairs)):
        for b, (i, j) in enumerate(pairs):
            if (g >> b) & 1:
                table[g, i, j] = table[g, j, i] = True
    tab = jnp.asarray(table)

    class AllGraphs(Generator):
        n_instances = len(table)

        @property
        def num_nodes(self) -> int:
            return num_nodes

        def __call__(self, key: Any) -> Any:
            return tab[_pick(key, len(table))]

    return AllGraphs()


def all_mines(num_rows: int = 3, num_cols: int = 3, num_mines: int = 2) -> Any:
    """Generator whose range is ALL placements of `num_mines` distinct mines (36 for 3x3, 2 mines)."""
    import jax.numpy as jnp

    from jumanji.environments.logic.minesweeper.generator import Generator

    combos = np.array(list(itertools.combinations(range(num_rows * num_cols), num_mines)), np.int32)
    tab = jnp.asarray(combos)

    class AllMines(Generator):
        n_instances = len(combos)

        def generate_flat_mine_locations(self, key: Any) -> Any:
            return tab[_pick(key, len(combos))]

    return AllMines(num_rows, num_cols, num_mines)


def knapsack_grid(num_items: int = 3, total_budget: float = 1.0, alphabet=(0.2, 0.5, 0.9)) -> Any:
    """Generator whose range is all weight vectors over `alphabet`^num_items (values = reversed weights)."""
    import jax.numpy as jnp

    from jumanji.environments.packing.knapsack.generator import Generator
    from jumanji.environments.packing.knapsack.types import State

    ws = np.array(list(itertools.product(alphabet, repeat=num_items)), np.float32)
    tabw = jnp.asarray(ws)
    tabv = jnp.asarray(ws[:, ::-1].copy())

    class Grid(Generator):
        n_instances = len(ws)

        def __call__(self, key: Any) -> Any:
            import jax

            key, sub = jax.random.split(key)
            i = _pick(sub, len(ws))
            return State(weights=tabw[i], values=tabv[i], packed_items=jnp.zeros(num_items, bool),
                         remaining_budget=jnp.array(total_budget, float), key=key)

    return Grid(num_items, total_budget)


def distinct_instance_keys(env: Any, fields, want: int, max_keys: int = 8192):
    """Deterministic walk over reset keys 0,1,2,...: the first key producing each distinct instance
    (identified by the listed state fields). Returns (keys, n_distinct)."""
    import jax
    import jax.numpy as jnp

    reset = jax.jit(jax.vmap(env.reset))
    seen = {}
    k0 = 0
    while k0 < max_keys and len(seen) < want:
        ks = list(range(k0, k0 + 256))
        st, _ = reset(jnp.stack([jax.random.PRNGKey(k) for k in ks]))
        parts = [np.asarray(getattr(st, f)).reshape(len(ks), -1) for f in fields]
        rows = np.concatenate([p.astype(np.float64) for p in parts], axis=1)
        for i, k in enumerate(ks):
            b = rows[i].tobytes()
            if b not in seen:
                seen[b] = k
        k0 += 256
    return sorted(seen.values()), len(seen)
