"""C10 infrastructure: the fixed key window, batched generation, instance hashing, the per-task driver.

One *task* = one shipped generator (or random `reset`) at one size.  The task produces the instances
for the whole key window `PRNGKey(0..K-1)` (plus explicit regression keys) with `jit(vmap(producer))`,
pulls them to the host and evaluates a NumPy validator (written from the docs/docstrings, see
`mc/c10_val_*.py`) on **every** instance of the window.  Nothing is sampled: the window is fixed and
independent of `VERIF_SEED`; the seed only rotates which few keys are additionally re-generated through
the plain un-jitted call and compared leaf by leaf with the batched result.
"""
from __future__ import annotations

import hashlib
import importlib
import time
from collections import Counter
from typing import Any, Callable, Dict, List, Optional, Sequence, Tuple

from mc import boot  # noqa: F401

import numpy as np

PID = "C10"
CHUNK = 512
MAX_STORED_PER_SIG = 2  # violations kept per signature and task (all are counted)

Problem = Tuple[str, str]  # (what-fails suffix of the signature, message)


def window(tier: str) -> int:
    return 64 if tier == "quick" else 2048


# ------------------------------------------------------------------------------------------------
# producers: how an instance is obtained from the object built by the constructor expression
# ------------------------------------------------------------------------------------------------
def producer(mode: str, obj: Any) -> Callable[[Any], Any]:
    if mode == "call":  # generator(key) -> State (or adjacency matrix for GraphColoring)
        return lambda key: obj(key)
    if mode == "reset":  # env.reset(key) -> (state, timestep); both are validated
        def _reset(key: Any) -> Any:
            state, ts = obj.reset(key)
            return {"state": state, "observation": ts.observation, "step_type": ts.step_type}

        return _reset
    if mode == "binpack_pair":  # instance + the advertised solution for the same key
        return lambda key: {"state": obj(key), "solution": obj.generate_solution(key)}
    if mode == "connector_pair":
        # RandomWalkGenerator: the state of __call__(key) together with generate_board's
        # (solved board, agents, training board) for the board key __call__ derives from `key`
        # (second half of jax.random.split(key)); the validator verifies that the two agree before it
        # uses the solved board as a witness, so the pairing is checked, not assumed.
        import jax

        def _pair(key: Any) -> Any:
            solved, agents, grid = obj.generate_board(jax.random.split(key)[1])
            return {"state": obj(key), "board": {"solved_grid": solved, "agents": agents, "grid": grid}}

        return _pair
    raise KeyError(mode)


def make_keys(ids: Sequence[int]) -> Any:
    import jax
    import jax.numpy as jnp

    return jax.vmap(jax.random.PRNGKey)(jnp.asarray(list(ids), jnp.int32))


def batch_generate(fn: Callable[[Any], Any], ids: Sequence[int]) -> Tuple[Any, Optional[str]]:
    """Instances for all key ids as a NumPy pytree with leading axis len(ids).  Returns (tree, fallback)
    where fallback is None for jit(vmap) or a reason string when the Python loop had to be used."""
    import jax

    ids = list(ids)
    n = len(ids)
    try:
        jf = jax.jit(jax.vmap(fn))
        outs = []
        size = min(CHUNK, n)
        for s in range(0, n, size):
            part = ids[s:s + size]
            pad = size - len(part)
            out = jf(make_keys(part + [0] * pad))
            out = jax.tree_util.tree_map(lambda x: np.asarray(x)[: len(part)], out)
            outs.append(out)
        tree = jax.tree_util.tree_map(lambda *xs: np.concatenate(xs, axis=0), *outs)
        return tree, None
    except Exception as e:  # noqa: BLE001 - not jittable / vmappable: plain loop
        reason = f"{type(e).__name__}: {str(e)[:200]}"
        rows = [jax.tree_util.tree_map(np.asarray, fn(jax.random.PRNGKey(int(k)))) for k in ids]
        tree = jax.tree_util.tree_map(lambda *xs: np.stack(xs, axis=0), *rows)
        return tree, reason


def row(tree: Any, i: int) -> Any:
    import jax

    return jax.tree_util.tree_map(lambda x: x[i], tree)


def _path_names(path: Any) -> List[str]:
    out = []
    for k in path:
        for attr in ("name", "key", "idx"):
            if hasattr(k, attr):
                out.append(str(getattr(k, attr)))
                break
        else:
            out.append(str(k))
    return out


def essence_rows(tree: Any, n: int, exclude: Sequence[str] = ("key",)) -> List[bytes]:
    """Per-row digest of the instance-defining leaves (every leaf except PRNG-key fields, which differ
    for every reset key by construction and say nothing about the instance)."""
    import jax

    leaves = jax.tree_util.tree_flatten_with_path(tree)[0]
    parts = []
    for path, leaf in leaves:
        names = _path_names(path)
        if names and names[-1] in exclude:
            continue
        a = np.ascontiguousarray(np.asarray(leaf)).reshape(n, -1)
        parts.append(a.view(np.uint8).reshape(n, -1))
    if not parts:
        return [b""] * n
    cat = np.concatenate(parts, axis=1)
    return [hashlib.blake2b(cat[i].tobytes(), digest_size=12).digest() for i in range(n)]


def compare_trees(a: Any, b: Any) -> Optional[str]:
    """Leaf-by-leaf comparison (ints/bools exact, floats rtol=1e-5 atol=1e-6). None if equal."""
    import jax

    la = jax.tree_util.tree_flatten_with_path(a)[0]
    lb = jax.tree_util.tree_flatten_with_path(b)[0]
    if len(la) != len(lb):
        return f"different number of leaves: {len(la)} vs {len(lb)}"
    for (pa, xa), (pb, xb) in zip(la, lb):
        xa, xb = np.asarray(xa), np.asarray(xb)
        name = ".".join(_path_names(pa))
        if xa.shape != xb.shape:
            return f"{name}: shape {xa.shape} vs {xb.shape}"
        if np.issubdtype(xa.dtype, np.floating) or np.issubdtype(xb.dtype, np.floating):
            if not np.allclose(xa, xb, rtol=1e-5, atol=1e-6, equal_nan=True):
                return f"{name}: float leaves differ"
        elif not np.array_equal(xa, xb):
            return f"{name}: {xa.tolist() if xa.size < 20 else '...'} vs {xb.tolist() if xb.size < 20 else '...'}"
    return None


# ------------------------------------------------------------------------------------------------
# task specification
# ------------------------------------------------------------------------------------------------
def spec(model: str, ctor: str, validator: str, sig: str, params: Optional[Dict[str, Any]] = None, *,
         mode: str = "call", random: bool = True, singleton: str = "", small: bool = False,
         extra_keys: Sequence[int] = (), k_quick: Optional[int] = None, k_thorough: Optional[int] = None,
         quick: bool = True, family: str = "", prepare: str = "", key_lo: int = 0,
         thorough: bool = True) -> Dict[str, Any]:
    """model: display name; ctor: expression in catalog.namespace(); validator: name in VALIDATORS;
    sig: signature prefix '<family>.<GeneratorClass>'; random: generator is random by design (key
    dependence is required) unless `singleton` explains why its instance space has one element;
    small: report distinct instances / saturation; extra_keys: regression keys added in both tiers."""
    return dict(model=model, ctor=ctor, validator=validator, sig=sig, params=dict(params or {}), mode=mode,
                random=random, singleton=singleton, small=small, extra_keys=list(extra_keys),
                k_quick=k_quick, k_thorough=k_thorough, quick=quick, thorough=thorough, key_lo=key_lo,
                family=family or sig.split(".")[0], prepare=prepare)


def validators() -> Dict[str, Callable[..., List[Problem]]]:
    out: Dict[str, Callable[..., List[Problem]]] = {}
    for m in ("mc.c10_val_grid", "mc.c10_val_puzzle", "mc.c10_val_num"):
        out.update(getattr(importlib.import_module(m), "VALIDATORS"))
    return out


def build(sp: Dict[str, Any], ctx: Dict[str, Any]) -> Any:
    from mc import catalog

    ns = dict(catalog.namespace())
    if sp.get("prepare"):
        mod, fn = sp["prepare"].rsplit(".", 1)
        ns.update(getattr(importlib.import_module(mod), fn)(sp, ctx))
    return eval(sp["ctor"], ns)  # noqa: S307 - our own constructor strings


def _violation(sp: Dict[str, Any], what: str, msg: str, key: Optional[int], extra: Optional[Dict[str, Any]] = None) -> Any:
    from mc.report import Violation

    sig = f"{sp['sig']}:{what}"
    rp = {"property": PID, "model": sp["model"], "spec": {k: sp[k] for k in
                                                          ("model", "ctor", "validator", "sig", "params", "mode",
                                                           "prepare", "family")},
          "key": key, "signature": sig}
    if extra:
        rp.update(extra)
    where = f"PRNGKey({key})" if key is not None else "(constant instance)"
    return Violation(PID, sp["model"], sig, f"{sp['ctor']} at {where}: {msg}", rp)


def run_task(sp: Dict[str, Any], tier: str, seed: int) -> Dict[str, Any]:
    import jax

    t0 = time.time()
    ctx: Dict[str, Any] = {"count": Counter(), "cache": {}, "tier": tier, "facts": {}}
    cleanup = []
    ctx["cleanup"] = cleanup
    try:
        obj = build(sp, ctx)
        ctx["obj"] = obj
        fn = producer(sp["mode"], obj)
        K = sp["k_quick"] if tier == "quick" else sp["k_thorough"]
        K = K or window(tier)
        lo = int(sp.get("key_lo", 0))
        ids = list(range(lo, lo + K)) + [k for k in sp["extra_keys"] if not lo <= k < lo + K]
        n = len(ids)
        tree, fallback = batch_generate(fn, ids)
        if fallback is not None and n > 16:  # not jittable: the loop above already ran over all ids
            ctx["facts"]["fallback"] = fallback
        t_gen = time.time() - t0

        val = validators()[sp["validator"]]
        viol: List[Any] = []
        n_by_sig: Counter = Counter()
        first_bad: Dict[str, int] = {}
        for i, k in enumerate(ids):
            inst = row(tree, i)
            for what, msg in val(inst, sp["params"], ctx):
                n_by_sig[what] += 1
                first_bad.setdefault(what, k)
                if n_by_sig[what] <= MAX_STORED_PER_SIG:
                    viol.append(_violation(sp, what, msg, k))
        # --- distinct instances, saturation, key dependence (window only, regression keys excluded)
        dig = essence_rows(tree, n)
        win = dig[:K]
        distinct = len(set(dig))
        facts: Dict[str, Any] = dict(ctx["facts"])
        facts["distinct_instances"] = distinct
        if sp["small"]:
            half = K // 2
            first = set(win[:half])
            new2 = len(set(win[half:]) - first)
            facts["distinct_in_window"] = len(set(win))
            facts["new_in_second_half"] = new2
            facts["saturated"] = new2 == 0
        if sp["random"]:
            if sp["singleton"]:
                facts["key_dependence"] = f"not applicable: {sp['singleton']}"
                if len(set(win)) != 1:
                    facts["key_dependence"] += " (yet several distinct instances were seen)"
            else:
                ctx["count"]["key_dependence_checked"] += 1
                if len(set(win)) <= 1:
                    viol.append(_violation(sp, "constant-function-of-key",
                                           f"all {K} instances of the window PRNGKey({lo}..{lo + K - 1}) are identical "
                                           "(ignoring the PRNG key stored in the state)", 0,
                                           {"kind": "key-dependence", "window": K}))
        else:
            facts["key_dependence"] = "constant by design"
            if len(set(win)) != 1:
                facts["constant_generator_varies"] = len(set(win))
        # --- eager re-generation of a few keys through the plain un-jitted call
        # costly un-jitted generators get one key fewer; decided by the task, never by the clock
        heavy = sp["mode"] in ("connector_pair", "binpack_pair") or sp["family"] in ("mmst", "rubiks_cube")
        n_eager = (2 if tier == "quick" else 3) - (1 if heavy else 0)
        picks = sorted({ids[(seed * 7 + j * max(1, K // max(1, n_eager)) + 1) % K] for j in range(n_eager)})
        validated = 0
        err = None
        for k in picks:
            eager = jax.tree_util.tree_map(np.asarray, fn(jax.random.PRNGKey(int(k))))
            diff = compare_trees(row(tree, ids.index(k)), eager)
            if diff is not None:
                err = f"jit(vmap) result differs from the plain call at PRNGKey({k}): {diff}"
                break
            validated += 1
        cnt = ctx["count"]
        cnt[f"instances:{sp['family']}"] += n
        cnt["instances"] += n
        cnt["regression_inputs_evaluated"] += len(sp["extra_keys"])
        samples = [{"model": sp["model"], "key": int(ids[0]),
                    "instance_digest": dig[0].hex(), "validator": sp["validator"]}]
        res = dict(model=sp["model"], states=distinct, transitions=n + int(cnt.get("extra_evaluations", 0)),
                   validated=validated, samples=samples, violations=viol, vacuity=dict(cnt),
                   exhaustive=not facts.get("exact_cover_undecided"), window=K, window_start=lo, regression_keys=[k for k in sp["extra_keys"]],
                   generation_s=round(t_gen, 2), task_s=round(time.time() - t0, 2),
                   violating_instances={k: int(v) for k, v in n_by_sig.items()},
                   first_violating_key={k: int(v) for k, v in first_bad.items()}, **facts)
        if err:
            res["error"] = err
        return res
    finally:
        for c in cleanup:
            try:
                c()
            except Exception:  # noqa: BLE001
                pass


def replay_case(rp: Dict[str, Any]) -> int:
    """Re-run one recorded case with the plain un-jitted call; 1 if the signature shows again."""
    import jax

    sp = dict(rp["spec"])
    sp.setdefault("extra_keys", [])
    ctx: Dict[str, Any] = {"count": Counter(), "cache": {}, "tier": "quick", "facts": {}, "cleanup": []}
    try:
        obj = build(sp, ctx)
        ctx["obj"] = obj
        fn = producer(sp["mode"], obj)
        want = rp["signature"].split(":", 1)[1]
        if rp.get("kind") == "key-dependence":
            K = int(rp.get("window", 64))
            rows = [jax.tree_util.tree_map(np.asarray, fn(jax.random.PRNGKey(k))) for k in range(min(K, 16))]
            tree = jax.tree_util.tree_map(lambda *xs: np.stack(xs, 0), *rows)
            same = len(set(essence_rows(tree, len(rows)))) <= 1
            print(f"replay {rp['signature']}: first {len(rows)} keys identical = {same}")
            return 1 if same else 0
        key = int(rp["key"] or 0)
        inst = jax.tree_util.tree_map(np.asarray, fn(jax.random.PRNGKey(key)))
        probs = validators()[sp["validator"]](inst, sp["params"], ctx)
        hit = [m for w, m in probs if w == want]
        for w, m in probs:
            print(f"  {sp['sig']}:{w}: {m}")
        print(f"replay {rp['signature']} at PRNGKey({key}): {'REPRODUCED' if hit else 'not reproduced'}")
        return 1 if hit else 0
    finally:
        for c in ctx["cleanup"]:
            try:
                c()
            except Exception:  # noqa: BLE001
                pass
