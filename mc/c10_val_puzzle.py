"""C10 validators for the puzzle / packing generators: sliding tile, Rubik's cube, FlatPack, BinPack.

Written from the docs and docstrings (cube geometry: DESIGN.md Appendix A).  One instance in, a list of
(what-fails, message) out.
"""
from __future__ import annotations

import itertools
from collections import deque
from typing import Any, Dict, List, Optional, Sequence, Tuple

from mc import boot  # noqa: F401

import numpy as np

Problem = Tuple[str, str]


def _scalar(x: Any) -> int:
    return int(np.asarray(x).reshape(-1)[0])


def perm_parity(perm: Sequence[int]) -> int:
    """Parity (0 even / 1 odd) of a permutation of 0..m-1 by cycle counting."""
    perm = list(perm)
    seen = [False] * len(perm)
    par = 0
    for i in range(len(perm)):
        if seen[i]:
            continue
        j, ln = i, 0
        while not seen[j]:
            seen[j] = True
            j = perm[j]
            ln += 1
        par ^= (ln - 1) & 1
    return par


# ---------------------------------------------------------------------------------------- sliding tile
def _sliding_distances(n: int, depth: int) -> Dict[bytes, int]:
    """BFS from the solved board (1..n^2-1 row-major, blank 0 last) with the documented moves (the blank
    swaps with an in-bounds orthogonal neighbour) up to `depth`."""
    goal = tuple(list(range(1, n * n)) + [0])
    dist = {goal: 0}
    dq = deque([goal])
    while dq:
        s = dq.popleft()
        d = dist[s]
        if d >= depth:
            continue
        z = s.index(0)
        r, c = divmod(z, n)
        for dr, dc in ((-1, 0), (0, 1), (1, 0), (0, -1)):
            rr, cc = r + dr, c + dc
            if 0 <= rr < n and 0 <= cc < n:
                t = list(s)
                q = rr * n + cc
                t[z], t[q] = t[q], t[z]
                t = tuple(t)
                if t not in dist:
                    dist[t] = d + 1
                    dq.append(t)
    return dist


def v_sliding(inst: Any, p: Dict[str, Any], ctx: Dict[str, Any]) -> List[Problem]:
    """RandomWalkGenerator: 'samples solvable puzzles using a random walk starting from the solved board
    ... makes a series of valid random moves', `num_random_moves` moves.  Board = permutation of 0..n^2-1,
    empty_tile_position agrees, solvable (permutation parity == parity of the blank's taxicab distance to its
    home corner), reachable in exactly `num_random_moves` moves (distance <= m and same parity)."""
    out: List[Problem] = []
    n, m = p["n"], p["moves"]
    b = np.asarray(inst.puzzle)
    if b.shape != (n, n):
        return [("board-shape", f"puzzle has shape {b.shape}")]
    flat = b.ravel().tolist()
    if sorted(flat) != list(range(n * n)):
        return [("board-not-a-permutation", f"puzzle={b.tolist()}")]
    e = tuple(int(v) for v in np.asarray(inst.empty_tile_position))
    if not (0 <= e[0] < n and 0 <= e[1] < n) or b[e] != 0:
        out.append(("empty-tile-position-disagrees", f"empty_tile_position={e} but the blank is at {np.argwhere(b == 0).tolist()}"))
    zr, zc = (int(v) for v in np.argwhere(b == 0)[0])
    taxi = (n - 1 - zr) + (n - 1 - zc)
    # arrangement as a permutation of positions: tile v lives at goal index v-1, the blank at n^2-1
    perm = [(v - 1) % (n * n) for v in flat]
    if perm_parity(perm) != taxi % 2:
        out.append(("board-not-solvable", f"permutation parity {perm_parity(perm)} but the blank is {taxi} steps from home; puzzle={b.tolist()}"))
    elif taxi > m or taxi % 2 != m % 2:
        out.append(("board-not-reachable-in-num-random-moves",
                    f"blank is {taxi} steps from home after exactly {m} random moves; puzzle={b.tolist()}"))
    elif n <= 3:
        dist = ctx["cache"].get("sliding")
        if dist is None:
            dist = ctx["cache"]["sliding"] = _sliding_distances(n, m)
        d = dist.get(tuple(flat))
        ctx["count"]["sliding_bfs_lookups"] += 1
        if d is None or d % 2 != m % 2:
            out.append(("board-not-reachable-in-num-random-moves",
                        f"BFS distance from the solved board is {d if d is not None else f'> {m}'} after exactly {m} random moves; puzzle={b.tolist()}"))
    if _scalar(inst.step_count) != 0:
        out.append(("step-count-not-zero", f"step_count={_scalar(inst.step_count)}"))
    ctx["count"]["sliding_blank_moved"] += int(taxi > 0)
    return out


# ----------------------------------------------------------------------------------------- rubik's cube
UP, FRONT, RIGHT, BACK, LEFT, DOWN = range(6)


def facelet_geometry(n: int) -> Dict[Tuple[int, int, int], Tuple[Tuple[int, int, int], int]]:
    """(face, row, col) -> (cubie position (x,y,z), axis of the sticker normal).  DESIGN.md Appendix A:
    x left->right, y front->back, z bottom->top."""
    g = {}
    for r in range(n):
        for c in range(n):
            g[(UP, r, c)] = ((c, n - 1 - r, n - 1), 2)
            g[(FRONT, r, c)] = ((c, 0, n - 1 - r), 1)
            g[(RIGHT, r, c)] = ((n - 1, c, n - 1 - r), 0)
            g[(BACK, r, c)] = ((n - 1 - c, n - 1, n - 1 - r), 1)
            g[(LEFT, r, c)] = ((0, n - 1 - c, n - 1 - r), 0)
            g[(DOWN, r, c)] = ((c, r, 0), 2)
    return g


def _home_colour(pos: Tuple[int, int, int], axis: int, n: int) -> int:
    v = pos[axis]
    return ((LEFT, RIGHT), (FRONT, BACK), (DOWN, UP))[axis][0 if v == 0 else 1]


def cubie_problems(cube: np.ndarray) -> Optional[str]:
    """Necessary conditions for reachability at the level of cubies.  All sizes: the eight corners are the
    eight corner cubies (right colours, right handedness) and the corner twists sum to 0 mod 3.  n = 3
    (complete criterion): fixed centres, the twelve edge cubies, flips sum to 0 mod 2, corner and edge
    permutations have equal parity.  Odd n: the central facelet of every face never moves."""
    n = cube.shape[-1]
    geo = ctx_geo(n)
    at: Dict[Tuple[int, int, int], Dict[int, int]] = {}
    for (f, r, c), (pos, axis) in geo.items():
        at.setdefault(pos, {})[axis] = int(cube[f, r, c])
    hi = n - 1
    # corners
    slots = list(itertools.product((0, 1), repeat=3))

    def order(s: Tuple[int, int, int]) -> Tuple[int, int, int]:
        return (2, 0, 1) if sum(s) % 2 == 0 else (2, 1, 0)

    home = {}
    for s in slots:
        pos = tuple(v * hi for v in s)
        home[s] = [_home_colour(pos, a, n) for a in order(s)]
    by_set = {frozenset(v): k for k, v in home.items()}
    twist_sum, cperm = 0, []
    for s in slots:
        pos = tuple(v * hi for v in s)
        seq = [at[pos][a] for a in order(s)]
        h = by_set.get(frozenset(seq))
        if h is None or len(set(seq)) != 3:
            return f"corner slot {s} shows colours {seq}, not a corner cubie"
        hs = home[h]
        rots = [r for r in range(3) if [hs[(i - r) % 3] for i in range(3)] == seq]
        if not rots:
            return f"corner slot {s} shows colours {seq}: mirror image of cubie {hs}"
        twist_sum += rots[0]
        cperm.append(slots.index(h))
    if sorted(cperm) != list(range(8)):
        return f"corner cubies repeat: {cperm}"
    if twist_sum % 3:
        return f"corner twists sum to {twist_sum} (not 0 mod 3)"
    if n % 2 == 1:
        m = n // 2
        for f in range(6):
            if int(cube[f, m, m]) != f:
                return f"central facelet of face {f} shows colour {int(cube[f, m, m])}"
    if n == 3:
        eslots = [q for q in itertools.product((0, 1, 2), repeat=3) if sum(1 for v in q if v == 1) == 1]
        ehome, eprim = {}, {}
        for q in eslots:
            axes = [a for a in range(3) if q[a] != 1]
            prim = 2 if 2 in axes else 1
            eprim[q] = prim
            ehome[q] = {a: _home_colour(q, a, n) for a in axes}
        e_by_set = {frozenset(v.values()): k for k, v in ehome.items()}
        flips, eperm = 0, []
        for q in eslots:
            cols = at[q]
            h = e_by_set.get(frozenset(cols.values()))
            if h is None or len(set(cols.values())) != 2:
                return f"edge slot {q} shows colours {cols}, not an edge cubie"
            primary_colour = ehome[h][eprim[h]]
            flips += 0 if cols[eprim[q]] == primary_colour else 1
            eperm.append(eslots.index(h))
        if sorted(eperm) != list(range(12)):
            return f"edge cubies repeat: {eperm}"
        if flips % 2:
            return f"edge flips sum to {flips} (odd)"
        if perm_parity(cperm) != perm_parity(eperm):
            return "corner and edge permutations have different parity"
    return None


_GEO: Dict[int, Any] = {}


def ctx_geo(n: int) -> Any:
    if n not in _GEO:
        _GEO[n] = facelet_geometry(n)
    return _GEO[n]


def _cube_ball(n: int, k: int) -> set:
    """All cubes within k moves of the solved cube, using the repository's own move functions (their
    correctness is C17's business); used for membership of tiny scrambles only."""
    import jax
    import jax.numpy as jnp

    from jumanji.environments.logic.rubiks_cube.utils import generate_all_moves, make_solved_cube

    moves = generate_all_moves(n)
    step = jax.jit(jax.vmap(lambda c: jnp.stack([mv(c) for mv in moves])))
    solved = np.asarray(make_solved_cube(n)).astype(np.int8)
    seen = {solved.tobytes()}
    frontier = [solved]
    for _ in range(k):
        nxt = np.asarray(step(jnp.asarray(np.stack(frontier)))).astype(np.int8)
        nxt = nxt.reshape(-1, 6, n, n)
        frontier = []
        for c in nxt:
            b = c.tobytes()
            if b not in seen:
                seen.add(b)
                frontier.append(c)
        if not frontier:
            break
    return seen


def v_rubiks(inst: Any, p: Dict[str, Any], ctx: Dict[str, Any]) -> List[Problem]:
    """ScramblingGenerator: 'applying a given number of scrambles to a solved cube' -> a reachable cube.
    Sticker counts, cubie-level validity, and for tiny scrambles membership in the k-move ball."""
    out: List[Problem] = []
    n, k = p["n"], p["scrambles"]
    cube = np.asarray(inst.cube)
    if cube.shape != (6, n, n):
        return [("cube-shape", f"cube has shape {cube.shape}")]
    cnt = np.bincount(cube.ravel().astype(np.int64), minlength=6) if cube.min() >= 0 else None
    if cnt is None or len(cnt) != 6 or (cnt != n * n).any():
        return [("sticker-counts", f"colour counts {None if cnt is None else cnt.tolist()}, expected {n * n} each")]
    why = cubie_problems(cube)
    if why:
        out.append(("cube-not-reachable", f"{why}; cube={cube.tolist()}"))
    if p.get("ball"):
        ball = ctx["cache"].get("ball")
        if ball is None:
            ball = ctx["cache"]["ball"] = _cube_ball(n, k)
            ctx["facts"]["ball_size"] = len(ball)
        ctx["count"]["cube_ball_lookups"] += 1
        if cube.astype(np.int8).tobytes() not in ball:
            out.append(("cube-further-than-num-scrambles", f"not within {k} moves of the solved cube; cube={cube.tolist()}"))
    if _scalar(inst.step_count) != 0:
        out.append(("step-count-not-zero", f"step_count={_scalar(inst.step_count)}"))
    solved = all((cube[f] == f).all() for f in range(6))
    ctx["count"]["cube_scrambled"] += int(not solved)
    return out


# --------------------------------------------------------------------------------------------- flat pack
def _placements(block: np.ndarray, R: int, C: int, relaxed: bool = False) -> List[Tuple[int, ...]]:
    """Cell sets (flat indices) of the placements of a block.  Environment rule (relaxed=False): k quarter
    turns of the 3x3 array, top-left corner at (row, col) with row <= R-3, col <= C-3 (docs/flat_pack.md,
    Action), i.e. the whole 3x3 array inside the grid.  relaxed=True: only the block's non-zero cells have to
    lie inside the grid (the array may overhang) - tiling 'on paper'."""
    out = set()
    lo, hi_r, hi_c = (-2, R, C) if relaxed else (0, R - 2, C - 2)
    for k in range(4):
        arr = np.rot90(block, -k)
        cells = [(int(a), int(b)) for a, b in np.argwhere(arr != 0)]
        for r in range(lo, hi_r):
            for c in range(lo, hi_c):
                pos = [(r + dr, c + dc) for dr, dc in cells]
                if all(0 <= y < R and 0 <= x < C for y, x in pos):
                    out.add(tuple(sorted(y * C + x for y, x in pos)))
    return sorted(out)


def exact_cover(blocks: np.ndarray, R: int, C: int, node_cap: int,
                windows: Optional[List[Optional[set]]] = None, relaxed: bool = False) -> Tuple[Optional[bool], int]:
    """Is there a placement of every block (environment placement rule) covering every grid cell exactly
    once?  Knuth's Algorithm X (columns: the R*C cells and the blocks; always branch on the column with the
    fewest candidates).  `windows[b]` optionally restricts block b to placements inside a set of cells
    (used only to find a certificate quickly).  Returns (True / False / None when the node cap is hit, nodes)."""
    B = len(blocks)
    Y: Dict[Any, List[Any]] = {}
    for b in range(B):
        for cells in _placements(blocks[b], R, C, relaxed):
            if windows is not None and windows[b] is not None and not set(cells) <= windows[b]:
                continue
            Y[(b, cells)] = list(cells) + [("b", b)]
    X: Dict[Any, set] = {c: set() for c in range(R * C)}
    X.update({("b", b): set() for b in range(B)})
    for r, cols in Y.items():
        for c in cols:
            X[c].add(r)
    nodes = 0

    def select(r: Any) -> List[set]:
        removed = []
        for j in Y[r]:
            for i in X[j]:
                for k in Y[i]:
                    if k != j:
                        X[k].remove(i)
            removed.append(X.pop(j))
        return removed

    def deselect(r: Any, removed: List[set]) -> None:
        for j in reversed(Y[r]):
            X[j] = removed.pop()
            for i in X[j]:
                for k in Y[i]:
                    if k != j:
                        X[k].add(i)

    def rec() -> Optional[bool]:
        nonlocal nodes
        if not X:
            return True
        nodes += 1
        if nodes > node_cap:
            return None
        c = min(X, key=lambda col: len(X[col]))
        if not X[c]:
            return False
        capped = False
        for r in sorted(X[c], key=lambda q: (q[0], q[1])):
            rem = select(r)
            res = rec()
            deselect(r, rem)
            if res:
                return True
            if res is None:
                capped = True
        return None if capped else False

    return rec(), nodes


def v_flat_pack(inst: Any, p: Dict[str, Any], ctx: Dict[str, Any]) -> List[Problem]:
    """docs/flat_pack.md: blocks of shape (3,3), numbered 1..num_blocks, shuffled and rotated; 'the goal is
    to place all the available blocks on an empty 2D grid', grid (2*rows+1, 2*cols+1).  Blocks must exactly
    tile the grid under the environment's placement rule: decided by an exact-cover search."""
    out: List[Problem] = []
    nr, nc = p["row_blocks"], p["col_blocks"]
    B, R, C = nr * nc, 2 * nr + 1, 2 * nc + 1
    blocks = np.asarray(inst.blocks)
    grid = np.asarray(inst.grid)
    if blocks.shape != (B, 3, 3) or grid.shape != (R, C):
        return [("shape", f"blocks {blocks.shape} grid {grid.shape}, expected ({B},3,3) and ({R},{C})")]
    if grid.any() or np.asarray(inst.placed_blocks).any():
        out.append(("grid-not-empty", "grid / placed_blocks not empty at reset"))
    if _scalar(inst.num_blocks) != B:
        out.append(("num-blocks", f"num_blocks={_scalar(inst.num_blocks)} expected {B}"))
    sizes = (blocks != 0).reshape(B, -1).sum(axis=1)
    if (sizes == 0).any():
        out.append(("empty-block", f"block sizes {sizes.tolist()}"))
    ids = []
    for b in range(B):
        vals = np.unique(blocks[b][blocks[b] != 0]).tolist()
        ids.append(vals[0] if len(vals) == 1 else None)
    if p.get("numbered", True) and sorted(v for v in ids if v is not None) != list(range(1, B + 1)):
        out.append(("block-numbers", f"blocks carry the numbers {ids}, expected a permutation of 1..{B}"))
    if int(sizes.sum()) != R * C:
        out.append(("blocks-do-not-tile-grid", f"blocks have {int(sizes.sum())} cells in total, the grid has {R * C}; sizes {sizes.tolist()}"))
        return out
    if (sizes == 0).any():
        return out
    # 1. quick certificate: every block inside the 3x3 window its number suggests (row-major numbering)
    ctx["count"]["flatpack_exact_cover_searches"] += 1
    ans = None
    wins = None
    if all(v is not None and 1 <= v <= B for v in ids) and len(set(ids)) == B:
        wins = []
        for v in ids:
            rb, cb = divmod(v - 1, nc)
            wins.append({(2 * rb + i) * C + (2 * cb + j) for i in range(3) for j in range(3)})
        ans, nodes = exact_cover(blocks, R, C, 20_000, wins)
        ctx["count"]["flatpack_exact_cover_nodes"] += nodes
        if ans is not True:  # the layout the generator built is not placeable; another tiling may exist
            ctx["count"]["flatpack_no_tiling_with_blocks_in_their_own_windows"] += 1
            ctx["facts"]["no_tiling_with_blocks_in_their_own_windows"] = ctx["facts"].get(
                "no_tiling_with_blocks_in_their_own_windows", 0) + 1
    # 2. otherwise the unrestricted search decides
    if ans is not True:
        cap = p.get("node_cap") or (400_000 if B <= 6 else (20_000 if ctx.get("tier") == "quick" else 100_000))
        ans, nodes = exact_cover(blocks, R, C, cap)
        ctx["count"]["flatpack_exact_cover_nodes"] += nodes
        if ans is None:
            ctx["count"]["flatpack_exact_cover_undecided"] += 1
            ctx["facts"]["exact_cover_undecided"] = ctx["facts"].get("exact_cover_undecided", 0) + 1
        elif ans is False:
            # 3. cause: do the blocks tile the grid 'on paper' (cells inside the grid, 3x3 array may overhang)?
            #    first the generator's own layout (every block inside its own window), then the free search
            ans2, n2 = (exact_cover(blocks, R, C, 20_000, wins, relaxed=True) if wins is not None else (None, 0))
            if ans2 is not True:
                ans2, n3 = exact_cover(blocks, R, C, cap, relaxed=True)
                n2 += n3
            ctx["count"]["flatpack_exact_cover_nodes"] += n2
            if ans2 is True:
                ctx["count"]["flatpack_tiling_only_with_overhanging_array"] += 1
                out.append(("tiling-needs-placement-outside-3x3-window",
                            f"exhaustive exact-cover search ({nodes} nodes) finds no way to place all blocks on the "
                            f"{R}x{C} grid under the environment's placement rule (whole 3x3 array inside the grid), "
                            f"although the blocks tile the grid when only their non-zero cells must lie inside it; "
                            f"blocks={blocks.tolist()}"))
            elif ans2 is False:
                out.append(("blocks-do-not-tile-grid",
                            f"exhaustive exact-cover search ({nodes}+{n2} nodes) finds no tiling of the {R}x{C} grid, "
                            f"not even with freely translated blocks (3x3 array allowed to overhang); "
                            f"blocks={blocks.tolist()}"))
            else:
                ctx["count"]["flatpack_exact_cover_undecided"] += 1
                ctx["facts"]["exact_cover_undecided"] = ctx["facts"].get("exact_cover_undecided", 0) + 1
    am = np.asarray(inst.action_mask)
    if am.shape != (B, 4, R - 2, C - 2) or not am.all():
        out.append(("initial-action-mask", f"action_mask shape {am.shape} / not all True on the empty grid"))
    return out


# ---------------------------------------------------------------------------------------------- bin pack
def _space(s: Any) -> np.ndarray:
    return np.stack([np.asarray(getattr(s, f)) for f in ("x1", "x2", "y1", "y2", "z1", "z2")], axis=-1).astype(np.int64)


def _items(it: Any) -> np.ndarray:
    return np.stack([np.asarray(it.x_len), np.asarray(it.y_len), np.asarray(it.z_len)], axis=-1).astype(np.int64)


def _initial_state_problems(st: Any, dims: Sequence[int], max_items: int, max_ems: int) -> List[Problem]:
    out: List[Problem] = []
    cont = _space(st.container)
    want = np.array([0, dims[0], 0, dims[1], 0, dims[2]])
    if not np.array_equal(cont, want):
        out.append(("container-dims", f"container {cont.tolist()} expected {want.tolist()}"))
    ems = _space(st.ems)
    mask = np.asarray(st.ems_mask)
    if ems.shape != (max_ems, 6) or mask.shape != (max_ems,):
        out.append(("ems-shape", f"ems {ems.shape} mask {mask.shape}, max_num_ems={max_ems}"))
    elif not (mask[0] and not mask[1:].any() and np.array_equal(ems[0], want)):
        out.append(("initial-ems-not-whole-container", f"ems_mask={mask.tolist()[:4]}... ems[0]={ems[0].tolist()}"))
    im = np.asarray(st.items_mask)
    if im.shape != (max_items,):
        out.append(("items-shape", f"items_mask {im.shape}, max_num_items={max_items}"))
        return out
    if not im.any():
        out.append(("no-items", "items_mask is all False"))
    if np.asarray(st.items_placed).any():
        out.append(("items-placed-at-reset", f"items_placed={np.asarray(st.items_placed).tolist()}"))
    loc = np.stack([np.asarray(st.items_location.x), np.asarray(st.items_location.y), np.asarray(st.items_location.z)], -1)
    if loc.any():
        out.append(("items-location-at-reset", "items_location not zero at reset"))
    it = _items(st.items)
    if (it[im] <= 0).any():
        out.append(("item-dimension-not-positive", f"items {it[im].tolist()}"))
    return out


def v_bin_pack(inst: Any, p: Dict[str, Any], ctx: Dict[str, Any]) -> List[Problem]:
    """Random/Toy generators: items come from splitting the container ('fully utilize'): volumes add up to the
    container; generate_solution(key) ('a state in which all items are placed ... same instance') puts every
    item inside the container without overlaps, i.e. the items tile the container exactly."""
    st, sol = inst["state"], inst["solution"]
    dims = p["dims"]
    out = _initial_state_problems(st, dims, p["max_items"], p["max_ems"])
    if any(w in ("items-shape",) for w, _ in out):
        return out
    im = np.asarray(st.items_mask)
    it = _items(st.items)
    vol = int(np.prod(it[im], axis=1).sum())
    cvol = int(dims[0]) * int(dims[1]) * int(dims[2])
    if vol != cvol:
        out.append(("items-volume-differs-from-container", f"item volumes add up to {vol}, container volume {cvol}"))
    # solution consistent with the instance
    sim = np.asarray(sol.items_mask)
    sit = _items(sol.items)
    if not np.array_equal(sim, im) or not np.array_equal(sit[sim], it[im]) or not np.array_equal(_space(sol.container), _space(st.container)):
        out.append(("solution-is-another-instance", "generate_solution(key) has other items / mask / container than generator(key)"))
        return out
    if not np.array_equal(np.asarray(sol.items_placed), sim):
        out.append(("solution-leaves-items-unplaced", f"items_placed={np.asarray(sol.items_placed).tolist()} items_mask={sim.tolist()}"))
    loc = np.stack([np.asarray(sol.items_location.x), np.asarray(sol.items_location.y), np.asarray(sol.items_location.z)], -1).astype(np.int64)
    lo, hi = loc[sim], loc[sim] + sit[sim]
    if (lo < 0).any() or (hi > np.asarray(dims)).any():
        out.append(("solution-item-outside-container", f"corners {lo.tolist()} sizes {sit[sim].tolist()}"))
    m = len(lo)
    for i in range(m):
        inter = np.minimum(hi[i], hi[i + 1:]) - np.maximum(lo[i], lo[i + 1:])
        ov = (inter > 0).all(axis=1)
        if ov.any():
            j = i + 1 + int(np.argwhere(ov)[0, 0])
            out.append(("solution-items-overlap", f"items {i} and {j} (masked order) overlap: {lo[i].tolist()}+{sit[sim][i].tolist()} / {lo[j].tolist()}+{sit[sim][j].tolist()}"))
            break
    ctx["count"]["binpack_items"] += int(im.sum())
    ctx["count"]["extra_evaluations"] += 1  # the solution is a second validated object
    return out


def v_bin_pack_csv(inst: Any, p: Dict[str, Any], ctx: Dict[str, Any]) -> List[Problem]:
    """CSVGenerator: 'always resets to the same instance defined by the CSV file'; quantity > 1 rows are
    copied.  Items = CSV rows expanded by quantity, in file order."""
    rows = ctx["cache"].get("csv_rows") or p["rows"]
    want = [[r[1], r[2], r[3]] for r in rows for _ in range(r[4])]
    st = inst
    out = _initial_state_problems(st, p["dims"], len(want), p["max_ems"])
    it = _items(st.items)
    if p.get("ordered", True):
        if it.tolist() != want:
            out.append(("items-differ-from-csv", f"items {it.tolist()} but the CSV defines {want}"))
    elif sorted(map(tuple, it.tolist())) != sorted(map(tuple, want)):
        out.append(("items-differ-from-csv", f"item multiset {sorted(map(tuple, it.tolist()))} but the source instance has {sorted(map(tuple, want))}"))
    if not np.asarray(st.items_mask).all():
        out.append(("csv-item-masked-out", f"items_mask={np.asarray(st.items_mask).tolist()}"))
    ctx["count"]["binpack_items"] += len(want)
    return out


VALIDATORS = {"sliding": v_sliding, "rubiks": v_rubiks, "flat_pack": v_flat_pack, "bin_pack": v_bin_pack,
              "bin_pack_csv": v_bin_pack_csv}
