"""Explicit-state explorer driving the real `env.reset` / `env.step`.

A node is a *complete* environment state (every leaf of the state pytree, PRNG key and step counter
included); an edge is one call of `env.step(state, action)`.  Expansion is
`jit(vmap_states(vmap_actions(step)))`, successors are pulled to the host, canonicalised as the
concatenated bytes of all leaves and deduplicated in a dict.  Monitors see every root and every
edge.  A deterministic (seed-rotated) subset of root-to-node paths is re-executed with the plain
un-jitted per-call API and must reproduce the explored node bit-for-bit (floats: 1e-5) — this is
what `traces_validated_against_impl` counts.
"""
from __future__ import annotations

import hashlib
import itertools
import time
from typing import Any, Callable, Dict, List, Optional, Sequence, Tuple

from mc import boot  # noqa: F401  (must precede jax)

import jax
import jax.numpy as jnp
import numpy as np

from mc.report import Violation

tmap = jax.tree_util.tree_map


# ---------------------------------------------------------------------------------------------
# pytree helpers (numpy side)
# ---------------------------------------------------------------------------------------------
def to_np(tree: Any) -> Any:
    return tmap(lambda x: np.asarray(x), jax.device_get(tree))


def t_index(tree: Any, idx: Any) -> Any:
    return tmap(lambda x: x[idx], tree)


def t_concat(trees: Sequence[Any]) -> Any:
    return tmap(lambda *xs: np.concatenate(xs, axis=0), *trees)


def t_len(tree: Any) -> int:
    return int(jax.tree_util.tree_leaves(tree)[0].shape[0])


def t_flatten2(tree: Any) -> Any:
    """[m, nA, ...] -> [m*nA, ...]"""
    return tmap(lambda x: x.reshape((x.shape[0] * x.shape[1],) + x.shape[2:]), tree)


def row_bytes(tree: Any) -> np.ndarray:
    """Canonical form of each row of a batched pytree: uint8 matrix [n, total_bytes]."""
    leaves = jax.tree_util.tree_leaves(tree)
    n = leaves[0].shape[0]
    parts = []
    for x in leaves:
        x = np.ascontiguousarray(x)
        if x.dtype == np.bool_:
            x = x.astype(np.uint8)
        parts.append(x.reshape(n, -1).view(np.uint8).reshape(n, -1))
    return np.ascontiguousarray(np.concatenate(parts, axis=1)) if parts else np.zeros((n, 0), np.uint8)


def all_actions(spec: Any, cap: int = 200000) -> np.ndarray:
    """The complete action alphabet declared by an action spec (finite integer specs only)."""
    from jumanji import specs

    if isinstance(spec, specs.DiscreteArray):
        return np.arange(spec.num_values, dtype=np.asarray(spec.generate_value()).dtype)
    dt = np.asarray(spec.generate_value()).dtype
    if isinstance(spec, specs.MultiDiscreteArray):
        nv = np.asarray(spec.num_values)
        total = int(np.prod(nv.astype(np.int64)))
        if total > cap:
            raise ValueError(f"action alphabet too large ({total})")
        return np.array(list(itertools.product(*[range(int(n)) for n in nv.ravel()])), dtype=dt).reshape(
            (-1,) + nv.shape
        )
    lo = np.broadcast_to(np.asarray(spec.minimum), spec.shape)
    hi = np.broadcast_to(np.asarray(spec.maximum), spec.shape)
    total = int(np.prod((hi - lo + 1).astype(np.int64)))
    if total > cap:
        raise ValueError(f"action alphabet too large ({total})")
    return np.array(
        list(itertools.product(*[range(int(l), int(h) + 1) for l, h in zip(lo.ravel(), hi.ravel())])), dtype=dt
    ).reshape((-1,) + tuple(spec.shape))


def spaced_actions(spec: Any, n: int) -> Tuple[np.ndarray, int]:
    """`n` members of the action alphabet evenly spaced in lexicographic order (first and last included), for joint
    alphabets too large to enumerate (e.g. 5**10 for the default Connector).  -> (actions, |alphabet|)"""
    from jumanji import specs

    dt = np.asarray(spec.generate_value()).dtype
    if isinstance(spec, specs.DiscreteArray):
        lo, hi, shape = np.zeros((), np.int64), np.asarray(spec.num_values - 1, np.int64), ()
    elif isinstance(spec, specs.MultiDiscreteArray):
        nv = np.asarray(spec.num_values)
        lo, hi, shape = np.zeros(nv.shape, np.int64), nv.astype(np.int64) - 1, nv.shape
    else:
        shape = tuple(spec.shape)
        lo = np.broadcast_to(np.asarray(spec.minimum), shape).astype(np.int64)
        hi = np.broadcast_to(np.asarray(spec.maximum), shape).astype(np.int64)
    radix = [int(h - l + 1) for l, h in zip(np.ravel(lo), np.ravel(hi))]
    total = 1
    for r in radix:
        total *= r
    idx = list(range(total)) if total <= n else sorted({(i * (total - 1)) // (n - 1) for i in range(n)})
    out = np.zeros((len(idx), len(radix)), np.int64)
    for k, i in enumerate(idx):
        for c in range(len(radix) - 1, -1, -1):
            i, out[k, c] = divmod(i, radix[c])
    out = out + np.ravel(lo)[None, :]
    return out.astype(dt).reshape((len(idx),) + tuple(shape)), total


def leaf_diff(a: Any, b: Any, rtol: float = 1e-5, atol: float = 1e-6) -> List[str]:
    """Differences between two pytrees (structure, shape, dtype, values)."""
    la, ta = jax.tree_util.tree_flatten_with_path(a)[0], jax.tree_util.tree_structure(a)
    lb, tb = jax.tree_util.tree_flatten_with_path(b)[0], jax.tree_util.tree_structure(b)
    if ta != tb:
        return [f"tree structure differs: {ta} vs {tb}"]
    out = []
    for (pa, x), (_, y) in zip(la, lb):
        name = jax.tree_util.keystr(pa)
        x = np.asarray(x)
        y = np.asarray(y)
        if x.shape != y.shape:
            out.append(f"{name}: shape {x.shape} vs {y.shape}")
            continue
        if x.dtype != y.dtype:
            out.append(f"{name}: dtype {x.dtype} vs {y.dtype}")
            continue
        if x.dtype.kind == "f":
            if not np.allclose(x, y, rtol=rtol, atol=atol, equal_nan=True):
                out.append(f"{name}: float max|diff|={np.nanmax(np.abs(x.astype(np.float64) - y)):.3g}")
        elif not np.array_equal(x, y):
            out.append(f"{name}: values differ ({x.ravel()[:6]} vs {y.ravel()[:6]})")
    return out


# ---------------------------------------------------------------------------------------------
# exploration
# ---------------------------------------------------------------------------------------------
class Batch:
    """A batch of (state, timestep) pairs as numpy pytrees with common leading dims."""

    __slots__ = ("state", "ts", "ids", "post", "dev")

    def __init__(self, state: Any, ts: Any, ids: Optional[np.ndarray] = None, post=None, dev=None):
        self.state = state
        self.ts = ts
        self.ids = ids
        self.post = post
        self.dev = dev

    def __len__(self) -> int:
        return t_len(self.state)


class Monitor:
    """Base class: property monitors override what they need."""

    name = "monitor"

    def start(self, ex: "Explorer") -> None:
        self.ex = ex

    def on_roots(self, roots: Batch) -> None:
        pass

    def on_edges(self, parents: Batch, actions: np.ndarray, children: Batch, enabled: np.ndarray) -> None:
        """children leaves have leading dims [m, nA]; enabled[m, nA] says which edges are part of
        the explored graph (all of them unless the exploration is restricted, e.g. legal-only)."""

    def finish(self) -> Dict[str, Any]:
        return {}


class Explorer:
    def __init__(
        self,
        env: Any,
        model_name: str,
        property_id: str,
        *,
        keys: Sequence[int] = (),
        roots: Optional[Tuple[Any, Any]] = None,
        root_desc: Optional[List[Any]] = None,
        actions: Optional[np.ndarray] = None,
        monitors: Sequence[Monitor] = (),
        max_depth: int = 64,
        max_states: int = 200_000,
        max_transitions: int = 3_000_000,
        post_terminal: int = 0,
        enabled_fn: Optional[Callable[[Batch, np.ndarray], np.ndarray]] = None,
        deviation_bound: Optional[int] = None,
        policy_fn: Optional[Callable[[Batch, np.ndarray], np.ndarray]] = None,
        chunk_rows: int = 32768,
        seed: int = 0,
        eager_budget_s: float = 6.0,
        eager_max_paths: int = 6,
        eager_max_depth: int = 40,
        ctor: str = "",
        time_budget_s: float = 1e9,
    ):
        """
        keys: PRNG seeds; roots are `reset(PRNGKey(k))`.  roots: alternatively an injected batch
        (state, timestep) with `root_desc[i]` a JSON-able description of how root i was built.
        enabled_fn(parents, actions) -> bool[m, nA]: restrict the explored edges (e.g. mask-respecting play).
        deviation_bound/policy_fn: mode B — policy_fn gives the index of the default action per parent;
        nodes that have used `deviation_bound` deviations only follow the default action.
        post_terminal: how many further steps to explore from terminal states (C03).
        """
        self.env = env
        self.model_name = model_name
        self.property_id = property_id
        self.keys = list(keys)
        self.actions = all_actions(env.action_spec) if actions is None else np.asarray(actions)
        self.nA = len(self.actions)
        self.monitors = list(monitors)
        self.max_depth = max_depth
        self.max_states = max_states
        self.max_transitions = max_transitions
        self.post_terminal = post_terminal
        self.enabled_fn = enabled_fn
        self.deviation_bound = deviation_bound
        self.policy_fn = policy_fn
        self.seed = seed
        self.eager_budget_s = eager_budget_s
        self.eager_max_paths = eager_max_paths
        self.eager_max_depth = eager_max_depth
        self.ctor = ctor
        self.time_budget_s = time_budget_s
        self._injected = roots
        self.injected_roots = False  # True: root timesteps are stale (state was edited); monitors skip root checks
        self._root_desc = root_desc
        self.chunk = max(1, min(1024, chunk_rows // max(1, self.nA)))
        # node table
        self.parent: List[int] = []
        self.act: List[int] = []
        self.depth: List[int] = []
        self.violations: List[Violation] = []
        self.n_viol_by_sig: Dict[str, int] = {}
        self.stats: Dict[str, Any] = {}
        self.vacuity: Dict[str, int] = {}
        self._kept: Dict[int, Tuple[bytes, Any, Any]] = {}  # node -> (priority, state, ts)
        self._A_j = jnp.asarray(self.actions)
        self._step_b = jax.jit(
            jax.vmap(lambda s, A: jax.vmap(lambda a: env.step(s, a))(A), in_axes=(0, None))
        )
        self._reset_b = jax.jit(jax.vmap(env.reset))

    # -- bookkeeping --------------------------------------------------------------------------
    def count(self, key: str, n: int = 1) -> None:
        self.vacuity[key] = self.vacuity.get(key, 0) + int(n)

    def path_to(self, node: int) -> Tuple[int, List[int]]:
        acts: List[int] = []
        while self.parent[node] >= 0:
            acts.append(self.act[node])
            node = self.parent[node]
        return node, acts[::-1]

    def replay_doc(self, node: int, extra_action: Optional[int] = None) -> Dict[str, Any]:
        root, acts = self.path_to(node)
        if extra_action is not None:
            acts = acts + [int(extra_action)]
        doc: Dict[str, Any] = {
            "model": self.model_name,
            "ctor": self.ctor,
            "actions": [np.asarray(self.actions[a]).tolist() for a in acts],
            "action_indices": acts,
        }
        if self._injected is None:
            doc["reset_key_seed"] = self.keys[root]
        else:
            doc["injected_root"] = self._root_desc[root] if self._root_desc else root
        return doc

    def violation(
        self,
        signature: str,
        message: str,
        node: int,
        action: Optional[int] = None,
        extra: Optional[Dict[str, Any]] = None,
    ) -> None:
        """Record a violation found at `node` (after optionally taking `action` from it)."""
        n = self.n_viol_by_sig.get(signature, 0)
        self.n_viol_by_sig[signature] = n + 1
        if n >= 3:  # BFS order => the first ones are the shortest; keep a few per signature
            return
        doc = self.replay_doc(node, action)
        doc["property"] = self.property_id
        doc["signature"] = signature
        if extra:
            doc["detail"] = extra
        self.violations.append(
            Violation(self.property_id, self.model_name, f"{signature}", message, doc)
        )

    # -- expansion ----------------------------------------------------------------------------
    def _expand(self, state_np: Any) -> Tuple[Any, Any]:
        m = t_len(state_np)
        size = 8
        while size < m:
            size *= 4
        size = max(m, min(size, max(self.chunk, 8)))
        size = max(m, min(size, getattr(self, "_max_rows", size)))  # memory bound (rows x |A| x bytes per successor)
        if size > m:
            pad = size - m
            state_np = tmap(lambda x: np.concatenate([x, np.repeat(x[:1], pad, axis=0)], axis=0), state_np)
        s2, ts2 = self._step_b(tmap(jnp.asarray, state_np), self._A_j)
        s2 = to_np(s2)
        ts2 = to_np(ts2)
        if size > m:
            s2 = t_index(s2, slice(0, m))
            ts2 = t_index(ts2, slice(0, m))
        return s2, ts2

    def run(self) -> Dict[str, Any]:
        t0 = time.time()
        for mon in self.monitors:
            mon.start(self)
        # roots
        if self._injected is None:
            keys = jnp.stack([jax.random.PRNGKey(k) for k in self.keys])
            st, ts = self._reset_b(keys)
            st, ts = to_np(st), to_np(ts)
        else:
            st, ts = self._injected
            st, ts = to_np(tmap(jnp.asarray, st)), to_np(tmap(jnp.asarray, ts))
        self._treedef_state = jax.tree_util.tree_structure(st)
        R = t_len(st)
        # memory bound of one expansion: rows x |A| successors, each a (state, timestep) pair; device output, host copy,
        # canonical byte matrix and monitor temporaries make the peak several times this figure
        pair_bytes = sum(int(np.prod(x.shape[1:])) * x.dtype.itemsize for x in jax.tree_util.tree_leaves((st, ts)))
        self._max_rows = max(1, int(0.25e9 // max(1, pair_bytes * self.nA)))
        self.chunk = max(1, min(self.chunk, self._max_rows))
        # ... and of the node table / frontier: at most ~1.5 GB of stored (state, timestep) pairs
        self.max_states = min(self.max_states, max(1000, int(1.5e9 // max(1, pair_bytes))))
        seen: Dict[bytes, int] = {}
        rb = row_bytes(st)
        root_ids = []
        keep_rows = []
        for i in range(R):
            k = rb[i].tobytes()
            self.parent.append(-1)
            self.act.append(-1)
            self.depth.append(0)
            nid = len(self.parent) - 1
            root_ids.append(nid)
            if k not in seen:
                seen[k] = nid
                keep_rows.append(i)
        self._root_state, self._root_ts = st, ts
        roots = Batch(st, ts, np.array(root_ids), np.zeros(R, np.int32), np.zeros(R, np.int32))
        for mon in self.monitors:
            mon.on_roots(roots)
        keep_rows = np.array(keep_rows, dtype=np.int64)
        frontier = Batch(
            t_index(st, keep_rows),
            t_index(ts, keep_rows),
            np.array(root_ids)[keep_rows],
            np.zeros(len(keep_rows), np.int32),
            np.zeros(len(keep_rows), np.int32),
        )
        # a root that is already LAST is not expanded (cannot happen after reset, can for injected)
        n_trans = 0
        n_term_edges = 0
        depth = 0
        capped = False
        cap_reason = ""
        max_depth_seen = 0
        while len(frontier) and not capped:
            if depth >= self.max_depth:
                capped, cap_reason = True, f"depth>{self.max_depth}"
                break
            depth += 1
            nxt_state, nxt_ts, nxt_ids, nxt_post, nxt_dev = [], [], [], [], []
            pending: Dict[bytes, int] = {}
            for c0 in range(0, len(frontier), self.chunk):
                sl = slice(c0, min(c0 + self.chunk, len(frontier)))
                par = Batch(
                    t_index(frontier.state, sl), t_index(frontier.ts, sl), frontier.ids[sl],
                    frontier.post[sl], frontier.dev[sl],
                )
                m = len(par)
                s2, ts2 = self._expand(par.state)
                enabled = np.ones((m, self.nA), dtype=bool)
                if self.enabled_fn is not None:
                    enabled &= np.asarray(self.enabled_fn(par, self.actions), dtype=bool)
                devcost = np.zeros((m, self.nA), np.int32)
                if self.deviation_bound is not None:
                    default = np.asarray(self.policy_fn(par, self.actions))  # [m] action index
                    devcost[:] = 1
                    devcost[np.arange(m), default] = 0
                    enabled &= (par.dev[:, None] + devcost) <= self.deviation_bound
                children = Batch(s2, ts2)
                for mon in self.monitors:
                    mon.on_edges(par, self.actions, children, enabled)
                n_trans += int(enabled.sum())
                stype = np.asarray(ts2.step_type).reshape(m, self.nA)
                is_last = stype == 2
                n_term_edges += int((is_last & enabled).sum())
                flat_s = t_flatten2(s2)
                rb = row_bytes(flat_s)
                en = enabled.reshape(-1)
                lastf = is_last.reshape(-1)
                new_rows = []
                child_ids = -np.ones((m, self.nA), np.int64)
                for r in np.nonzero(en)[0]:
                    i, a = divmod(int(r), self.nA)
                    k = rb[r].tobytes()
                    cpost = int(par.post[i]) + (1 if (lastf[r] or par.post[i] > 0) else 0)
                    cdev = int(par.dev[i]) + int(devcost[i, a])
                    if k in seen:
                        child_ids[i, a] = seen[k]
                        # same state reached again in this layer with fewer deviations: relax
                        j = pending.get(k)
                        if j is not None and cdev < nxt_dev[j]:
                            nxt_dev[j] = cdev
                        continue
                    nid = len(self.parent)
                    seen[k] = nid
                    child_ids[i, a] = nid
                    self.parent.append(int(par.ids[i]))
                    self.act.append(a)
                    self.depth.append(depth)
                    self._consider_keep(nid, k, flat_s, ts2, r, i, a)
                    if cpost > self.post_terminal:
                        continue  # terminal (or post-terminal budget used up): not expanded
                    pending[k] = len(nxt_ids)
                    new_rows.append(r)
                    nxt_ids.append(nid)
                    nxt_post.append(cpost)
                    nxt_dev.append(cdev)
                for mon in self.monitors:
                    if hasattr(mon, "after_edges"):
                        mon.after_edges(par, self.actions, children, enabled, child_ids)
                if new_rows:
                    idx = np.array(new_rows)
                    nxt_state.append(t_index(flat_s, idx))
                    nxt_ts.append(t_index(t_flatten2(ts2), idx))
                max_depth_seen = depth
                if len(seen) >= self.max_states:
                    capped, cap_reason = True, f"states>={self.max_states}"
                elif n_trans >= self.max_transitions:
                    capped, cap_reason = True, f"transitions>={self.max_transitions}"
                elif time.time() - t0 > self.time_budget_s:
                    capped, cap_reason = True, f"time>{self.time_budget_s}s"
                if capped:
                    break
            if not nxt_ids:
                frontier = Batch(t_index(self._root_state, slice(0, 0)), None, np.zeros(0, np.int64),
                                 np.zeros(0, np.int32), np.zeros(0, np.int32))
                break
            frontier = Batch(
                t_concat(nxt_state), t_concat(nxt_ts), np.array(nxt_ids), np.array(nxt_post, np.int32),
                np.array(nxt_dev, np.int32),
            )
        closed = (not capped) and len(frontier) == 0
        t_explore = time.time() - t0
        validated, eager_err = self._eager_validate()
        res: Dict[str, Any] = {
            "model": self.model_name,
            "ctor": self.ctor,
            "roots": R,
            "n_actions": self.nA,
            "states": len(seen),
            "transitions": n_trans,
            "terminal_edges": n_term_edges,
            "max_depth": max_depth_seen,
            "closed": bool(closed),
            "cap": cap_reason if capped else None,
            "fully_covered_depth": (max_depth_seen if closed else max(0, depth - 1)),
            "validated": validated,
            "explore_s": round(t_explore, 2),
            "total_s": round(time.time() - t0, 2),
            "vacuity": dict(self.vacuity),
            "violations": [v for v in self.violations],
            "violation_counts": dict(self.n_viol_by_sig),
        }
        if eager_err:
            res["error"] = eager_err
        for mon in self.monitors:
            res.update(mon.finish() or {})
        res["violations"] = list(self.violations)  # a monitor may report from finish() (whole-graph analyses)
        res["violation_counts"] = dict(self.n_viol_by_sig)
        res["vacuity"] = dict(self.vacuity)
        res["samples"] = self._samples()
        return res

    # -- eager validation ---------------------------------------------------------------------
    def _consider_keep(self, nid: int, key: bytes, flat_s: Any, ts2: Any, r: int, i: int, a: int) -> None:
        pr = hashlib.sha1(self.seed.to_bytes(8, "little", signed=True) + key).digest()[:8]
        cap = 4 * self.eager_max_paths
        if cap <= 0 or self.depth[nid] > self.eager_max_depth:
            return  # long paths are not replayed eagerly (un-jitted steps re-compile closures at every call)
        if len(self._kept) >= cap:
            worst = max(self._kept.items(), key=lambda kv: kv[1][0])
            if pr >= worst[1][0]:
                return
            del self._kept[worst[0]]
        self._kept[nid] = (pr, t_index(flat_s, r), tmap(lambda x: x[i, a], ts2))

    def _eager_validate(self) -> Tuple[int, Optional[str]]:
        """Re-run kept paths with the plain per-call API (no jit, no vmap) and compare."""
        if not self._kept:
            return 0, None
        env = self.env
        t0 = time.time()
        n_ok = 0
        order = sorted(self._kept.items(), key=lambda kv: kv[1][0])
        for nid, (_, st_exp, ts_exp) in order:
            if n_ok >= self.eager_max_paths or (n_ok >= 1 and time.time() - t0 > self.eager_budget_s):
                break
            root, acts = self.path_to(nid)
            s = tmap(jnp.asarray, t_index(self._root_state, root))
            ts = None
            for a in acts:
                s, ts = env.step(s, jnp.asarray(self.actions[a]))
            got = to_np(tmap(jnp.asarray, (s, ts)))
            d = leaf_diff((st_exp, ts_exp), got)
            if d:
                doc = self.replay_doc(nid)
                self.violations.append(
                    Violation(
                        self.property_id,
                        self.model_name,
                        "engine:eager-replay-diverges-from-explored-graph",
                        "un-jitted per-call replay of an explored path does not reproduce the node "
                        f"found under jit(vmap): {d[:4]}",
                        doc,
                    )
                )
                return n_ok, None
            n_ok += 1
        return n_ok, None

    def _samples(self) -> List[Any]:
        out = []
        n = len(self.parent)
        for nid in ([n - 1, n // 2] if n > 2 else list(range(n))):
            root, acts = self.path_to(nid)
            out.append(
                {
                    "model": self.model_name,
                    "root": (self.keys[root] if self._injected is None else f"injected#{root}"),
                    "actions": [np.asarray(self.actions[a]).tolist() for a in acts],
                    "depth": self.depth[nid],
                }
            )
        return out


def replay_path(env: Any, doc: Dict[str, Any], injected_root: Any = None) -> List[Tuple[Any, Any]]:
    """Plain loop replay (no explorer): returns [(state, timestep)] along the path, eager."""
    if injected_root is None:
        s, ts = env.reset(jax.random.PRNGKey(int(doc["reset_key_seed"])))
    else:
        s, ts = injected_root
    out = [(s, ts)]
    dt = np.asarray(env.action_spec.generate_value()).dtype
    for a in doc["actions"]:
        s, ts = env.step(s, jnp.asarray(np.asarray(a, dtype=dt)))
        out.append((s, ts))
    return out
