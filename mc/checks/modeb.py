"""Mode B — deviation-bounded whole-episode exploration of default-size configurations.

A canonical base schedule (first masked-in action of the alphabet; "last masked-in" as a second
schedule in the thorough tier) is run to termination; every schedule that departs from it in at
most k steps by ANY alternative action is then run to termination as well (k=1; iterative context
bounding transplanted to a sequential library: the deviation is a departure from the default
policy).  Implemented with the Explorer's `deviation_bound` / `policy_fn`; models are named
`<cfg>@modeB[-last]`.
"""
from __future__ import annotations

import importlib
from typing import Any, Dict, List

from mc import boot  # noqa: F401

from mc import catalog

MAX_ALPHABET = 128  # up to this size every single-step deviation is explored
MAX_FULL = 10_000  # up to this size the base schedules are run (0 deviations)


def cfgs(tier: str) -> List[catalog.Cfg]:
    return [c for c in catalog.CATALOG if c.kind == "default" or c.modeb]


def tasks(pid: str, tier: str, seed: int, families=None) -> List[Any]:
    import os

    only_f = os.environ.get("VERIF_FAMILIES")
    only_m = os.environ.get("VERIF_MODELS")
    out = []
    for c in cfgs(tier):
        if families is not None and c.family not in families:
            continue
        if only_f and c.family not in only_f.split(","):
            continue
        if only_m and not any(m.startswith(c.name + "@modeB") for m in only_m.split(",")):
            continue
        first = c.modeb or "first"
        whiches = [first, "stride"] if tier == "quick" else sorted({first, "first", "last", "stride"})
        for w in whiches:
            out.append(("mc.checks.modeb", "explore", dict(pid=pid, cfg_name=c.name, tier=tier, seed=seed, which=w)))
        # MultiCVRP has a fixed step limit (2 x customers) and an idle action (every vehicle stays at / returns to the
        # depot): the base schedules "idle for the first d steps, then the last masked-in action" for EVERY d up to the
        # limit make the episode finish before, exactly at and after the limit (0 deviations each)
        if c.family == "multi_cvrp" and c.modeb and (tier == "thorough" or pid in ("C08", "C11", "C03")):
            n_cust = int(c.make()._num_customers) if hasattr(c.make(), "_num_customers") else 6
            for d in range(1, 2 * n_cust + 2):
                out.append(("mc.checks.modeb", "explore",
                            dict(pid=pid, cfg_name=c.name, tier=tier, seed=seed, which=f"idle{d}")))
    return out


def explore(pid: str, cfg_name: str, tier: str, seed: int, which: str = "first") -> Dict[str, Any]:
    import numpy as np

    from mc import refmon
    from mc.engine import Explorer, all_actions, t_index

    cfg = catalog.BY_NAME[cfg_name]
    env = cfg.make()
    name = f"{cfg_name}@modeB" + ("" if which == "first" else "-" + which)
    try:
        A = all_actions(env.action_spec, cap=MAX_FULL)
    except ValueError as e:
        return {"model": name, "skipped": f"joint alphabet too large for mode B ({e})", "states": 0, "transitions": 0}
    # large alphabets: only the base schedule itself (0 deviations) is run to termination
    dev_bound = 1 if len(A) <= MAX_ALPHABET else 0
    holder: Dict[str, Any] = {}
    ref = refmon.load_ref(cfg.family)
    mod = importlib.import_module(f"mc.checks.{pid.lower()}")
    plan = mod.plan(cfg, env, tier)
    if plan is None:
        return {"model": name, "skipped": "property not applicable", "states": 0, "transitions": 0}
    monitors = plan.pop("monitors")
    pre = plan.pop("pre", None)
    legal_only = "enabled_fn" in plan
    idle = int(which[4:]) if which.startswith("idle") else 0
    if idle:
        dev_bound = 0
    order = range(len(A) - 1, -1, -1) if (which == "last" or idle) else range(len(A))

    def policy(parents: Any, actions: np.ndarray) -> np.ndarray:
        out = np.zeros(len(parents), np.int64)
        for i in range(len(parents)):
            if idle and holder["ex"].depth[int(parents.ids[i])] < idle:
                out[i] = 0  # the first action of the alphabet: every vehicle to the depot
                continue
            obs = t_index(parents.ts, i).observation
            if not (hasattr(obs, "action_mask") or refmon.has(ref, "mask")):
                out[i] = 0 if which == "first" else len(actions) - 1
                continue
            mask = refmon.get_mask(ref, env, obs)
            allowed = []
            for j in order:
                try:
                    ok = refmon.mask_allows(ref, env, mask, actions[j])
                except Exception:  # noqa: BLE001 - out-of-domain joint action
                    ok = False
                if ok:
                    allowed.append(j)
                    if which != "stride":
                        break
            if allowed:
                if which == "stride":  # deterministic spread over the legal set: rank (7*depth+3) mod #legal
                    d = holder["ex"].depth[int(parents.ids[i])]
                    out[i] = allowed[(7 * d + 3) % len(allowed)]
                else:
                    out[i] = allowed[0]
        return out

    kw = dict(
        keys=cfg.keys(tier, env)[:1] if tier == "quick" else cfg.keys(tier, env)[:2],
        max_depth=100_000,
        max_states=8_000 if tier == "quick" else 100_000,
        max_transitions=400_000 if tier == "quick" else 6_000_000,
        time_budget_s=45.0 if tier == "quick" else 600.0,
        deviation_bound=dev_bound,
        policy_fn=policy,
        seed=seed,
        ctor=cfg.ctor,
        eager_budget_s=4.0,
        eager_max_paths=1 if tier == "quick" else 3,
        actions=A,
    )
    if legal_only:
        kw["enabled_fn"] = plan["enabled_fn"]
    if "post_terminal" in plan:
        kw["post_terminal"] = plan["post_terminal"]
    ex = Explorer(env, name, pid, monitors=monitors, **kw)
    holder["ex"] = ex
    if pre is not None:
        pre(ex)
    res = ex.run()
    res["family"] = cfg.family
    res["kind"] = "modeB"
    res["deviation_bound"] = dev_bound
    res["base_schedule"] = (f"idle (all vehicles at the depot) for the first {idle} steps, then the last masked-in action"
                            if idle else
                            {"first": "first masked-in action", "last": "last masked-in action",
                             "stride": "masked-in action of rank (7*depth+3) mod #legal"}[which])
    return res
