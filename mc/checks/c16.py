"""C16 — specs form a consistent algebra: generate, validate, replace, equality, pickling, conversions
(DESIGN §4 C16; mode C: bounded-exhaustive input enumeration, no sampling).

Enumerated (mc/c16_universe.py): every Array / BoundedArray / DiscreteArray / MultiDiscreteArray over
shapes {(), (0,), (1,), (2,), (2,3), (1,2,2)} x dtypes {bool, int8, int16, int32, uint8, float16,
float32} x bounds {scalar, per-element, broadcastable row, dtype extremes / +inf} x num_values
{1,2,3 | [2],[2,2],[2,3],[[2,3],[1,4]],[1],[3],[2,3,4],[[2,2]],[[2,2],[2,2]]} x names {"", "a", "b"};
nested Spec trees of depth <= 2 over a 12-leaf pool built with two named tuples and a chex dataclass;
every node of the observation / action / reward / discount spec of every catalogue environment
(quick: registry default + first tiny configuration per family; thorough: the whole catalogue).
Value alphabet per leaf (mc/c16_ref.leaf_alphabet): generate_value(); all-at-minimum, all-at-maximum,
all one step outside; for each of the two bases and each element (all elements up to 6, otherwise
first/middle/last + one element per distinct bound pair): the element at either bound and one
representable step inside / outside it (np.nextafter in the dtype for floats); 7-9 wrong shapes
(including broadcast-compatible ones); the value re-typed to every other dtype (+ NumPy int64/float64);
NumPy-array and Python-list forms. Nested values: generate_value() with one leaf replaced by each
value of its alphabet, and each container node with a missing / extra / renamed field (as a named
tuple and as a plain object) or replaced by a jax array / NumPy array / None.  NaN is not in the
alphabet.

Oracles (reference in mc/c16_ref.py, plain NumPy, built from the construction recipe, not from what the
constructor stored): validate accepts iff member (any exception = rejects) and returns the converted
value; generate_value() is a member; the stored attributes equal the requested ones; replace(k=v)
yields exactly the attributes of the reference with k replaced, for every single attribute and several
values, does not mutate the original, and replace() is equal; `==` on ALL ordered pairs within each
kind equals the reference equivalence and never raises; pickling (protocols 2 and highest) round-trips
to an equal spec in both directions of `==`; every accepted member value is contained in the
converted gym space and validates against the converted dm_env spec; every element of every finite
converted space (Discrete, MultiDiscrete, integer/bool Box) validates against the original spec —
enumerated completely up to CAP elements per space (20 000 quick / 50 000 thorough); larger spaces are
handled by the separate, explicitly non-exhaustive models actions-over-cap-*; get_valid_dtype equals
the x64-off canonicalisation table.

Oracle decisions (conservative where the statement is silent):
* specs of different kinds are never compared; a nested spec's kind is its skeleton (child names and
  child kinds, recursively) — so `Spec.__eq__` raising on different child names is only *counted*
  (`nested_eq_different_fields_raises`), not reported;
* BoundedArray bounds are equal iff equal after broadcasting to the shape (what the repo's
  test_equal_broadcasting_bounds expects); for size-0 shapes with different raw bounds neither answer
  is demanded (`ambiguous_pairs`);
* nested specs are equal iff their children are (own name and constructor are not compared);
* membership is judged "once converted to JAX arrays": NumPy int64/float64 and Python ints/floats/lists
  are admissible inputs that convert to int32/float32; a container where an array is expected, a dict,
  and a container of another type with the right field names are outside the alphabet;
* float32 steps that would be subnormal are replaced by the smallest normal number (XLA:CPU flushes
  denormals to zero, so `-1e-45 < 0.0` is False there; not a property of jumanji);
* an element of a converted gym space is a *number*: gym's Discrete/MultiDiscrete always produce int64,
  which JAX turns into int32; for a (Multi)DiscreteArray of another integer dtype the element is
  re-typed (value-preserving) before validation and the event is counted
  (`action_elements_retyped`); for int32 specs — every environment action spec — the raw element is
  validated as is;
* replace(dtype=...) on bounded specs is only judged when the bounds are exactly representable in the
  new dtype, replace(shape=...) only when the stored bounds broadcast to the new shape (constructor
  preconditions).

Findings on the pinned tree (each with its own signature; DESIGN §5 #8 and one new):
  BoundedArray.__eq__:raises-on-array-bounds            bounds that are arrays with != 1 element (also empty)
  MultiDiscreteArray.__eq__:broadcast-equal             [2] == [2,2] == [[2,2],[2,2]]
  MultiDiscreteArray.__eq__:raises-on-shape-mismatch    [2,2] vs [2,3,4]; MMST().action_spec == Tetris().action_spec
  Spec.__eq__:via-<one of the three above>              the same defects seen through a nested spec
                                                        (Cleaner().observation_spec == itself raises)
  jumanji_specs_to_gym_spaces:Array:raises-for-bool-or-unsigned-dtype
                                                        Box(-inf, inf, dtype=bool|uint8) is rejected by gymnasium>=1.0
A fix that compares shapes first and then np/jnp.array_equal on the bounds *broadcast to the shape*
(and num_values shape + array_equal) makes every `__eq__` signature disappear; comparing raw bounds
without broadcasting would instead trip BoundedArray.__eq__:unequal-on-broadcast-equal-bounds.

Shown to fail (scratch copy, on top of such a fix): Array.__eq__ ignoring the name; DiscreteArray.__eq__
ignoring the dtype; BoundedArray.validate using maximum.max(); Array.validate comparing ndim only;
Spec.validate iterating over the spec's fields (accepts extra fields); MultiDiscreteArray.__reduce__
dropping the dtype; dm_env DiscreteArray conversion dropping the dtype; gym Box high = max(maximum);
get_valid_dtype without canonicalisation; Spec.replace dropping the name.
"""
from __future__ import annotations

import pickle
import time
from typing import Any, Dict, List, Optional, Tuple

from mc import boot  # noqa: F401

import numpy as np

from mc import c16_ref as ref
from mc import c16_universe as uni
from mc.report import Reporter, Violation
from mc.runner import run_tasks

PID = "C16"
CAP = {"quick": 20_000, "thorough": 50_000}  # elements enumerated per converted action space
IDX_CAP = 6  # elements per leaf that get single-element deviations (thorough: 16), see ref.pick_indices
MAX_VIOL_PER_SIG = 3
EQ_BLOCKS = 6


# ======================================================================================== accumulator
class Acc:
    def __init__(self, model: str):
        self.model = model
        self.states = 0
        self.transitions = 0
        self.validated = 0
        self.samples: List[Any] = []
        self.by_sig: Dict[str, int] = {}
        self._ranked: List[Tuple[Tuple[int, int], Violation]] = []
        self.vac: Dict[str, int] = {}
        self.extra: Dict[str, Any] = {}
        self.exhaustive = True
        self.errors: List[str] = []
        self.t0 = time.time()

    def count(self, k: str, n: int = 1) -> None:
        self.vac[k] = self.vac.get(k, 0) + n

    def violation(self, sig: str, msg: str, replay: Dict[str, Any], rank: int = 0) -> None:
        """Keeps the MAX_VIOL_PER_SIG simplest cases per signature (rank, then message length)."""
        self.by_sig[sig] = self.by_sig.get(sig, 0) + 1
        self.count("violating_cases")
        rp = dict(replay)
        rp["signature"] = sig
        rk = (rank, len(msg))
        mine = [(k, v) for k, v in self._ranked if v.signature == sig]
        if len(mine) >= MAX_VIOL_PER_SIG:
            worst = max(mine, key=lambda kv: kv[0])
            if worst[0] <= rk:
                return
            self._ranked.remove(worst)
        self._ranked.append((rk, Violation(PID, self.model, sig, msg[:700], rp)))

    @property
    def violations(self) -> List[Violation]:
        return [v for _, v in sorted(self._ranked, key=lambda kv: (kv[1].signature, kv[0]))]

    def sample(self, s: Any) -> None:
        if len(self.samples) < 3:
            self.samples.append(s)

    def result(self) -> Dict[str, Any]:
        out = {"model": self.model, "states": self.states, "transitions": self.transitions,
               "validated": self.validated, "samples": self.samples, "violations": self.violations,
               "vacuity": self.vac, "exhaustive": self.exhaustive, "signatures": dict(self.by_sig),
               "task_s": round(time.time() - self.t0, 2)}
        out.update(self.extra)
        if self.errors:
            out["error"] = f"{len(self.errors)} spec(s) could not be processed; first: {self.errors[0]}"
        return out

    def guard(self, what: str, fn: Any, *a: Any, **kw: Any) -> None:
        """Run one spec's suite; an exception of the *checker* is an error of the run (exit 2), but the
        other specs of the task are still processed."""
        import traceback

        try:
            fn(*a, **kw)
        except Exception:  # noqa: BLE001
            self.errors.append(f"{what}: {traceback.format_exc(limit=6)[-1500:]}")


def _exc(e: BaseException) -> str:
    return f"{type(e).__name__}: {str(e)[:160]}"


# ======================================================================================== conversions
def _conversion_signature(fn: str, view: ref.View, spec: Any) -> str:
    """Blame the first leaf whose own conversion raises."""
    from jumanji import specs

    f = getattr(specs, fn)
    if view.kind == "Spec":
        for k, c in view.children.items():
            try:
                f(spec[k])
            except Exception:  # noqa: BLE001
                return _conversion_signature(fn, c, spec[k])
        return f"{fn}:Spec:raises"
    if view.kind == "Array" and view.dtype.kind in "bu":
        return f"{fn}:Array:raises-for-bool-or-unsigned-dtype"
    return f"{fn}:{view.kind}:raises"


class Conv:
    """The converted gym space and dm_env spec of one spec (conversion failures are violations)."""

    def __init__(self, acc: Acc, r: Dict[str, Any], spec: Any, view: ref.View, quiet: bool = False):
        from jumanji import specs

        self.view = view
        self.space = self.dm = None
        if quiet:  # (a second look at a spec whose conversions were already judged elsewhere)
            try:
                self.space = specs.jumanji_specs_to_gym_spaces(spec)
            except Exception:  # noqa: BLE001
                pass
            return
        acc.transitions += 2
        acc.validated += 2
        try:
            self.space = specs.jumanji_specs_to_gym_spaces(spec)
            acc.count("gym_conversions")
        except Exception as e:  # noqa: BLE001
            acc.violation(_conversion_signature("jumanji_specs_to_gym_spaces", view, spec),
                          f"jumanji_specs_to_gym_spaces({uni.label(r)}) raised {_exc(e)}; the spec has valid "
                          "values, so they cannot 'belong to the converted gym space'",
                          {"kind": "convert", "spec": r})
        try:
            self.dm = specs.jumanji_specs_to_dm_env_specs(spec)
            acc.count("dm_env_conversions")
        except Exception as e:  # noqa: BLE001
            acc.violation(_conversion_signature("jumanji_specs_to_dm_env_specs", view, spec),
                          f"jumanji_specs_to_dm_env_specs({uni.label(r)}) raised {_exc(e)}",
                          {"kind": "convert", "spec": r})


def _plain(value: Any, view: ref.View) -> Any:
    """Accepted value -> what the adapters hand to gym / dm_env: dicts of NumPy arrays."""
    if view.kind != "Spec":
        return np.asarray(value)
    f = ref.fields_of(value)
    return {k: _plain(f[k], c) for k, c in view.children.items()}


def _dm_validate(dm: Any, x: Any) -> None:
    if isinstance(dm, dict):
        if not isinstance(x, dict) or set(x) != set(dm):
            raise ValueError(f"keys {sorted(x) if isinstance(x, dict) else type(x)} != {sorted(dm)}")
        for k in dm:
            _dm_validate(dm[k], x[k])
    else:
        dm.validate(x)


# ======================================================================================== single cases
def run_validate(spec: Any, value: Any) -> Tuple[bool, Any, Optional[BaseException]]:
    try:
        return True, spec.validate(value), None
    except Exception as e:  # noqa: BLE001 - any exception type counts as "rejects"
        return False, None, e


def _same_value(view: ref.View, ret: Any, value: Any) -> Optional[str]:
    """The accepted value must come back unchanged (converted to arrays, rebuilt by the constructor)."""
    if view.kind == "Spec":
        fr, fv = ref.fields_of(ret), ref.fields_of(value)
        if fr is None or set(fr) != set(view.children):
            return f"returned {type(ret).__name__} without the spec's fields"
        for k, c in view.children.items():
            m = _same_value(c, fr[k], fv[k])
            if m:
                return f"{k}: {m}"
        return None
    want = ref.to_array(value)
    got = np.asarray(ret)
    if got.dtype != want.dtype or got.shape != want.shape or not np.array_equal(got, want):
        return f"returned {got.tolist()}:{got.dtype} for input {want.tolist()}:{want.dtype}"
    return None


def _value_tag(vr: Dict[str, Any]) -> str:
    if vr.get("generate"):
        return "generate_value()"
    if "subst" in vr:
        return f"generate_value() with {'.'.join(vr['subst']['path'])} := {_value_tag(vr['subst']['leaf'])}"
    if "struct" in vr:
        st = vr["struct"]
        return f"generate_value() with node /{'/'.join(st['at'])} damaged: {st['op']}" + (f" ({st['flavour']})" if st.get("flavour") else "")
    data = str(vr.get("data"))
    return f"{vr.get('tag')} [{vr.get('form')} {vr.get('dtype')}{tuple(vr.get('shape', ()))} {data[:80]}]"


def check_validate(acc: Acc, r: Dict[str, Any], spec: Any, view: ref.View, conv: Optional[Conv],
                   vr: Dict[str, Any], value: Any = None) -> None:
    """One (spec, value) case: validate vs member, returned value, gym / dm_env membership."""
    if value is None:
        value = uni.build_value(spec, view, vr)
    rp = {"kind": "validate", "spec": r, "value": vr}
    acc.states += 1
    acc.transitions += 1
    acc.validated += 1
    exp, why = ref.member(view, value)
    got, ret, exc = run_validate(spec, value)
    tag = _value_tag(vr)
    if got:
        acc.count("accepted_values")
    else:
        acc.count("rejected_values")
        if not exp:
            acc.count(f"rejected:{why}")
    if "struct" in vr and not got:
        acc.count("structure_mutants_rejected")
    if got and not exp:
        acc.violation(f"{view.kind}.validate:accepts-{why}",
                      f"{uni.label(r)}.validate accepted a value that is not a member ({why}); value {tag}", rp)
        return
    if exp and not got:
        acc.violation(f"{view.kind}.validate:rejects-member",
                      f"{uni.label(r)}.validate raised {_exc(exc)} on a member value ({tag})", rp)
        return
    if not got:
        return
    acc.transitions += 1
    m = _same_value(view, ret, value)
    if m:
        acc.violation(f"{view.kind}.validate:returns-different-value", f"{uni.label(r)}.validate: {m}", rp)
    if conv is None:
        return
    x = _plain(ret, view)
    if conv.space is not None:
        acc.transitions += 1
        acc.validated += 1
        try:
            inside = bool(conv.space.contains(x))
            err = ""
        except Exception as e:  # noqa: BLE001
            inside, err = False, " (contains raised " + _exc(e) + ")"
        if inside:
            acc.count("gym_members")
        else:
            acc.violation(f"{view.kind}->gym.{type(conv.space).__name__}:member-not-contained",
                          f"value {tag} is valid for {uni.label(r)} but not contained in {conv.space}{err}", rp)
    if conv.dm is not None:
        acc.transitions += 1
        acc.validated += 1
        try:
            _dm_validate(conv.dm, x)
            acc.count("dm_env_members")
        except Exception as e:  # noqa: BLE001
            nm = "dict" if isinstance(conv.dm, dict) else type(conv.dm).__name__
            acc.violation(f"{view.kind}->dm_env.{nm}:member-rejected",
                          f"value {tag} is valid for {uni.label(r)} but the converted dm_env spec raised {_exc(e)}", rp)


def check_attrs(acc: Acc, r: Dict[str, Any], spec: Any, view: ref.View) -> None:
    """The constructed spec exposes exactly the requested attributes (dtype canonicalised)."""
    acc.transitions += 1
    acc.validated += 1
    m = ref.view_mismatch(ref.view_from_spec(spec), view)
    acc.count("attribute_checks")
    if m:
        acc.violation(f"{view.kind}.__init__:attribute-{m[0]}", f"{uni.label(r)}: stored {m[1]}", {"kind": "attrs", "spec": r})


def check_generate(acc: Acc, r: Dict[str, Any], spec: Any, view: ref.View, conv: Optional[Conv]) -> None:
    rp = {"kind": "generate", "spec": r}
    acc.transitions += 1
    acc.validated += 1
    try:
        g = spec.generate_value()
    except Exception as e:  # noqa: BLE001
        acc.violation(f"{view.kind}.generate_value:raises", f"{uni.label(r)}.generate_value() raised {_exc(e)}", rp)
        return
    acc.count("generated_values")
    ok, why = ref.member(view, g)
    if not ok:
        acc.violation(f"{view.kind}.generate_value:not-a-member",
                      f"{uni.label(r)}.generate_value() is not a member of the spec ({why})", rp)
    check_validate(acc, r, spec, view, conv, {"generate": True}, g)


# ---------------------------------------------------------------------------------------- equality
def _leaf_eq_signature(va: ref.View, vb: ref.View, exp: bool, raised: bool) -> str:
    k = va.kind
    if k == "BoundedArray":
        arrayish = any(np.asarray(x).size != 1 for x in (va.lo, va.hi, vb.lo, vb.hi))
        if raised:
            return f"{k}.__eq__:raises-on-array-bounds" if arrayish else f"{k}.__eq__:raises"
        if exp:
            raw_same = np.asarray(va.lo).shape == np.asarray(vb.lo).shape and np.asarray(va.hi).shape == np.asarray(vb.hi).shape
            return f"{k}.__eq__:unequal-but-same-attributes" if raw_same else f"{k}.__eq__:unequal-on-broadcast-equal-bounds"
        return f"{k}.__eq__:equal-despite-different-{ref.first_difference(va, vb)}"
    if k == "MultiDiscreteArray":
        shapes_differ = np.asarray(va.num_values).shape != np.asarray(vb.num_values).shape
        if raised:
            return f"{k}.__eq__:raises-on-shape-mismatch" if shapes_differ else f"{k}.__eq__:raises"
        if exp:
            return f"{k}.__eq__:unequal-but-same-attributes"
        if shapes_differ and va.dtype == vb.dtype and va.name == vb.name:
            return f"{k}.__eq__:broadcast-equal"
        return f"{k}.__eq__:equal-despite-different-{ref.first_difference(va, vb)}"
    if raised:
        return f"{k}.__eq__:raises"
    if exp:
        return f"{k}.__eq__:unequal-but-same-attributes"
    return f"{k}.__eq__:equal-despite-different-{ref.first_difference(va, vb)}"


def _try_eq(sa: Any, sb: Any) -> Tuple[Optional[bool], Optional[BaseException], Any]:
    try:
        got = sa == sb
        return bool(got), None, got
    except Exception as e:  # noqa: BLE001
        return None, e, None


def eq_signature(sa: Any, va: ref.View, sb: Any, vb: ref.View, exp: bool, raised: bool) -> str:
    if va.kind != "Spec":
        return _leaf_eq_signature(va, vb, exp, raised)
    # nested: blame the first child pair whose own `==` disagrees with the reference
    for k in sorted(va.children):
        ca, cb = va.children[k], vb.children[k]
        cexp = ref.rel(ref.EqKey(ca), ref.EqKey(cb))
        if cexp is None:
            continue
        g, e, _ = _try_eq(sa[k], sb[k])
        if e is not None or g != cexp:
            inner = eq_signature(sa[k], ca, sb[k], cb, cexp, e is not None)
            return inner if inner.startswith("Spec.__eq__:via-") else "Spec.__eq__:via-" + inner
    return "Spec.__eq__:raises" if raised else ("Spec.__eq__:unequal-but-equal-children" if exp
                                                else "Spec.__eq__:equal-despite-different-children")


Item = Tuple[Dict[str, Any], Any, ref.View, ref.EqKey]


def _has_size0(v: ref.View) -> bool:
    if v.kind == "Spec":
        return any(_has_size0(c) for c in v.children.values())
    return v.size == 0


def eq_case(acc: Acc, a: Item, b: Item, note: str = "", replay: Optional[Dict[str, Any]] = None) -> None:
    """One ordered pair of same-kind specs: `a == b` against the reference relation."""
    ra, sa, va, ka = a
    rb, sb, vb, kb = b
    acc.states += 1
    exp = ref.rel(ka, kb)
    if exp is None:
        acc.count("ambiguous_pairs")
        return
    acc.transitions += 1
    acc.validated += 1
    got, exc, rawres = _try_eq(sa, sb)
    acc.count("equal_pairs" if exp else "unequal_pairs")
    if exc is None and not isinstance(rawres, bool):
        acc.count("eq_results_not_python_bool")
    if exc is None and got == exp:
        return
    sig = eq_signature(sa, va, sb, vb, exp, exc is not None)
    what = f"raised {_exc(exc)}" if exc is not None else f"returned {got}"
    acc.violation(sig, f"{note}({uni.label(ra)}) == ({uni.label(rb)}) {what}; reference relation says {exp}",
                  replay or {"kind": "eq", "a": ra, "b": rb}, rank=int(_has_size0(va) or _has_size0(vb)))


def make_item(r: Dict[str, Any], spec: Any = None) -> Item:
    if spec is None:
        spec = uni.build_spec(r)
    v = uni.view_of(r, spec)
    return r, spec, v, ref.EqKey(v)


# ---------------------------------------------------------------------------------------- replace
def _exact_cast(a: np.ndarray, dt: np.dtype) -> Optional[np.ndarray]:
    with np.errstate(all="ignore"):
        b = np.asarray(a).astype(dt)
        ok = np.array_equal(b.astype(np.float64), np.asarray(a).astype(np.float64))
    return b if ok else None


def expected_after_replace(view: ref.View, attr: str, val: Any) -> Optional[ref.View]:
    """The reference result of replace(attr=val); None when the constructor's own preconditions
    (broadcastable, ordered, representable bounds) are not met, in which case nothing is demanded."""
    import dataclasses

    v = dataclasses.replace(view)
    k = view.kind
    if k == "Spec":
        v.children = dict(view.children)
        v.children[attr] = ref.view_from_recipe(val)
        return v
    if attr == "name":
        v.name = val
        return v
    if attr == "dtype":
        dt = ref.canon_dtype(val)
        if k in ("DiscreteArray", "MultiDiscreteArray") and dt.kind not in "iu":
            return None
        v.dtype = dt
        if view.bounded:
            lo, hi = _exact_cast(view.lo, dt), _exact_cast(view.hi, dt)
            if lo is None or hi is None:
                return None
            v.lo, v.hi = lo, hi
        return v
    if attr == "shape":
        if k != "Array" and k != "BoundedArray":
            return None
        v.shape = tuple(val)
        if view.bounded:
            try:
                np.broadcast_to(view.lo, v.shape), np.broadcast_to(view.hi, v.shape)
            except ValueError:
                return None
        return v
    if attr in ("minimum", "maximum"):
        if k != "BoundedArray":
            return None
        new = np.array(ref.decode(val), dtype=view.dtype)
        if attr == "minimum":
            v.lo = new
        else:
            v.hi = new
        try:
            lo_b, hi_b = np.broadcast_to(v.lo, v.shape), np.broadcast_to(v.hi, v.shape)
        except ValueError:
            return None
        if np.any(lo_b > hi_b):
            return None
        return v
    if attr == "num_values":
        if k == "DiscreteArray":
            n = int(val)
            v.num_values, v.lo, v.hi = n, np.array(0, view.dtype), np.array(n - 1, view.dtype)
            return v
        if k == "MultiDiscreteArray":
            nv = np.array(val, dtype=np.int32)
            v.num_values, v.shape = nv, tuple(nv.shape)
            v.lo, v.hi = np.zeros(nv.shape, view.dtype), (nv - 1).astype(view.dtype)
            return v
    return None


def _replace_arg(view: ref.View, attr: str, val: Any) -> Any:
    import jax.numpy as jnp

    if view.kind == "Spec":
        return uni.build_spec(val)
    if attr == "shape":
        return tuple(val)
    if attr == "dtype":
        return np.dtype(val)
    if attr in ("minimum", "maximum"):
        return ref.decode(val)
    if attr == "num_values" and view.kind == "MultiDiscreteArray":
        return jnp.array(val, jnp.int32)
    return val


def replacements(view: ref.View, synthetic: bool) -> List[Tuple[str, Any]]:
    """All single-attribute replacements tried on a spec."""
    k = view.kind
    P = uni.leaf_pool()
    if k == "Spec":
        return [(c, p) for c in view.children for p in (P[0], P[10])]
    out: List[Tuple[str, Any]] = [("name", n) for n in uni.NAMES + ("zz",) if n != view.name]
    out += [("dtype", d) for d in ref.DTYPES + ("float64", "int64") if ref.canon_dtype(d) != view.dtype]
    if k in ("Array", "BoundedArray"):
        shapes = list(uni.SHAPES) + [(3,) + tuple(view.shape)]
        out += [("shape", list(s)) for s in shapes if tuple(s) != tuple(view.shape)]
    if k == "BoundedArray":
        s = uni.scalars(view.dtype.name)
        out += [("minimum", s["lo2"]), ("minimum", s["lo"]), ("maximum", s["hi2"]), ("maximum", s["hi"])]
        if len(view.shape) >= 1:
            out += [("minimum", np.full(view.shape, s["lo2"]).tolist()), ("maximum", np.full(view.shape, s["hi2"]).tolist())]
        out = [(a, v) for a, v in out if not (a in ("minimum", "maximum") and _same_raw(view, a, v))]
    if k == "DiscreteArray":
        out += [("num_values", n) for n in (1, 2, 3, 7) if n != view.num_values]
    if k == "MultiDiscreteArray":
        cur = np.asarray(view.num_values).tolist()
        out += [("num_values", nv) for nv in uni.MULTI_NUM_VALUES if nv != cur]
    return out


def _same_raw(view: ref.View, attr: str, val: Any) -> bool:
    cur = view.lo if attr == "minimum" else view.hi
    new = np.array(ref.decode(val), dtype=view.dtype)
    return new.shape == np.asarray(cur).shape and np.array_equal(new, cur)


def replace_case(acc: Acc, r: Dict[str, Any], spec: Any, view: ref.View, attr: str, val: Any) -> None:
    exp = expected_after_replace(view, attr, val)
    if exp is None:
        acc.count("replacements_outside_preconditions")
        return
    rp = {"kind": "replace", "spec": r, "attr": attr, "value": val}
    acc.states += 1
    acc.transitions += 1
    acc.validated += 1
    try:
        new = spec.replace(**{attr: _replace_arg(view, attr, val)})
    except Exception as e:  # noqa: BLE001
        acc.violation(f"{view.kind}.replace({_attr_label(view, attr)}):raises",
                      f"{uni.label(r)}.replace({attr}={val}) raised {_exc(e)}", rp)
        return
    acc.count("replacements")
    if type(new) is not type(spec):
        acc.violation(f"{view.kind}.replace:changes-class", f"{uni.label(r)}.replace({attr}=...) returned {type(new).__name__}", rp)
        return
    m = ref.view_mismatch(ref.view_from_spec(new), exp)
    if m:
        what = "not-applied" if m[0] == attr else f"changes-{m[0] if view.kind != 'Spec' or m[0] == 'name' else 'other-child'}"
        acc.violation(f"{view.kind}.replace({_attr_label(view, attr)}):{what}",
                      f"{uni.label(r)}.replace({attr}={val}): result has {m[1]}", rp)
    elif view.kind == "Spec":
        # the constructor is kept: the generated value has the same container type
        try:
            if type(new.generate_value()) is not type(spec.generate_value()):
                acc.violation("Spec.replace:changes-constructor", f"{uni.label(r)}.replace({attr}=...)", rp)
        except Exception:  # noqa: BLE001
            pass


def _attr_label(view: ref.View, attr: str) -> str:
    return "child" if view.kind == "Spec" else attr


def check_replace(acc: Acc, r: Dict[str, Any], spec: Any, view: ref.View, key: ref.EqKey, synthetic: bool = True) -> None:
    for attr, val in replacements(view, synthetic):
        replace_case(acc, r, spec, view, attr, val)
    # replace() without arguments is an equal spec (reference relation and the library's ==)
    rp = {"kind": "replace", "spec": r, "attr": None, "value": None}
    acc.states += 1
    acc.transitions += 1
    acc.validated += 1
    try:
        new = spec.replace()
    except Exception as e:  # noqa: BLE001
        acc.violation(f"{view.kind}.replace():raises", f"{uni.label(r)}.replace() raised {_exc(e)}", rp)
        return
    acc.count("replacements")
    nv = ref.view_from_spec(new)
    m = ref.view_mismatch(nv, view)
    if m or type(new) is not type(spec):
        acc.violation(f"{view.kind}.replace():not-equal", f"{uni.label(r)}.replace(): {m}", rp)
    else:
        eq_case(acc, (r, spec, view, key), (r, new, nv, ref.EqKey(nv)), note="spec == spec.replace(): ", replay=rp)
        eq_case(acc, (r, new, nv, ref.EqKey(nv)), (r, spec, view, key), note="spec.replace() == spec: ", replay=rp)
    # the original was not mutated by any of the above
    acc.transitions += 1
    m = ref.view_mismatch(ref.view_from_spec(spec), view)
    if m:
        acc.violation(f"{view.kind}.replace:mutates-original", f"{uni.label(r)}: after replace calls {m[1]}", rp)


# ---------------------------------------------------------------------------------------- pickle
def check_pickle(acc: Acc, r: Dict[str, Any], spec: Any, view: ref.View, key: ref.EqKey) -> None:
    for proto in (2, pickle.HIGHEST_PROTOCOL):
        rp = {"kind": "pickle", "spec": r, "protocol": proto}
        acc.states += 1
        acc.transitions += 1
        acc.validated += 1
        try:
            new = pickle.loads(pickle.dumps(spec, protocol=proto))
        except Exception as e:  # noqa: BLE001
            acc.violation(f"{view.kind}.pickle:raises", f"pickling {uni.label(r)} (protocol {proto}) raised {_exc(e)}", rp)
            continue
        acc.count("pickles")
        if type(new) is not type(spec):
            acc.violation(f"{view.kind}.pickle:changes-class", f"{uni.label(r)} unpickled as {type(new).__name__}", rp)
            continue
        nv = ref.view_from_spec(new)
        m = ref.view_mismatch(nv, view)
        if m:
            acc.violation(f"{view.kind}.pickle:changes-{m[0]}", f"{uni.label(r)} after a pickle round trip: {m[1]}", rp)
            continue
        it_new = (r, new, nv, ref.EqKey(nv))
        eq_case(acc, (r, spec, view, key), it_new, note="spec == unpickled: ", replay=rp)
        eq_case(acc, it_new, (r, spec, view, key), note="unpickled == spec: ", replay=rp)


# ---------------------------------------------------------------------------------------- finite spaces
def check_actions(acc: Acc, r: Dict[str, Any], spec: Any, view: ref.View, conv: Conv, cap: int,
                  capped_pass: bool = False, budget: int = 0) -> None:
    """Every element of the converted gym space, if it is finite, is valid for the original spec.
    Spaces with more than `cap` elements are left to the separate capped pass (`capped_pass=True`),
    which enumerates `budget` elements of them (see ref.enumerate_ranges)."""
    import gymnasium as gym

    space = conv.space
    if space is None:
        return
    if isinstance(space, gym.spaces.Discrete):
        ranges = [range(int(space.start), int(space.start) + int(space.n))]
        shape: Tuple[int, ...] = ()
        make = lambda t: np.int64(t[0])  # noqa: E731 - Discrete.sample() returns np.int64
    elif isinstance(space, gym.spaces.MultiDiscrete):
        nvec = np.asarray(space.nvec)
        start = np.asarray(space.start).reshape(-1)
        ranges = [range(int(s), int(s) + int(n)) for s, n in zip(start, nvec.reshape(-1))]
        shape = tuple(nvec.shape)
        make = lambda t: np.array(t, dtype=space.dtype).reshape(shape)  # noqa: E731
    elif isinstance(space, gym.spaces.Box) and np.dtype(space.dtype).kind in "iub":
        low, high = np.asarray(space.low).reshape(-1), np.asarray(space.high).reshape(-1)
        ranges = [range(int(lo), int(hi) + 1) for lo, hi in zip(low, high)]
        shape = tuple(space.shape)
        # Box.sample() returns an ndarray of the Box dtype (a NumPy scalar for shape ())
        make = lambda t: (np.array(t, dtype=np.int64).astype(space.dtype).reshape(shape) if shape  # noqa: E731
                          else np.array(t, dtype=np.int64).astype(space.dtype).reshape(())[()])
    else:
        return
    total = ref.product_size(ranges)
    if (total > cap) != capped_pass:
        if not capped_pass:
            acc.count("action_spaces_left_to_capped_pass")
        return
    it, exhaustive, total = ref.enumerate_ranges(ranges, budget if capped_pass else cap)
    acc.count("action_spaces_enumerated" if exhaustive else "action_spaces_capped")
    if not exhaustive:
        acc.exhaustive = False
        acc.extra.setdefault("capped_spaces", []).append({"spec": uni.label(r), "space": str(space)[:80], "size": str(total),
                                                          "enumerated": budget})
    first = True
    for t in it:
        e = make(t)
        if first:
            first = False
            s = space.sample()  # representation check only: same type / dtype / shape as our elements
            if type(s) is not type(e) or np.asarray(s).dtype != np.asarray(e).dtype or np.shape(s) != np.shape(e):
                raise AssertionError(f"element representation {type(e)}/{np.asarray(e).dtype} != sample {type(s)}/{np.asarray(s).dtype}")
        rp = {"kind": "action", "spec": r, "element": np.asarray(e).tolist()}
        acc.states += 1
        acc.transitions += 1
        acc.validated += 1
        if not space.contains(e):
            raise AssertionError(f"enumerated element {e!r} not contained in {space}")
        acc.count("action_space_elements")
        got, _, exc = run_validate(spec, e)
        if got:
            if not ref.member(view, e)[0]:
                acc.violation(f"{view.kind}.validate:accepts-{ref.member(view, e)[1]}",
                              f"{uni.label(r)}.validate accepted gym element {np.asarray(e).tolist()}", rp)
            continue
        arr = np.asarray(e)
        if view.kind in ("DiscreteArray", "MultiDiscreteArray") and ref.canon_dtype(arr.dtype) != view.dtype:
            e2 = _exact_cast(arr, view.dtype)
            acc.count("action_elements_retyped")
            if e2 is not None and run_validate(spec, e2)[0]:
                continue
        acc.violation(f"{view.kind}->gym.{type(space).__name__}:element-invalid-for-spec",
                      f"element {arr.tolist()} of {space} (converted from {uni.label(r)}) is rejected by the "
                      f"original spec: {_exc(exc)}", rp)


# ======================================================================================== tasks
def _leaf_suite(acc: Acc, r: Dict[str, Any], spec: Any, view: ref.View, key: ref.EqKey, cap: int,
                synthetic: bool, values: bool = True, actions: bool = True) -> None:
    acc.states += 1
    acc.count("specs")
    if synthetic:
        check_attrs(acc, r, spec, view)
    conv = Conv(acc, r, spec, view)
    check_generate(acc, r, spec, view, conv)
    if values:
        for tag, form, arr in ref.leaf_alphabet(view, IDX_CAP):
            check_validate(acc, r, spec, view, conv, ref.value_recipe(tag, form, arr), ref.realise(form, arr))
    check_replace(acc, r, spec, view, key, synthetic)
    check_pickle(acc, r, spec, view, key)
    if actions:
        check_actions(acc, r, spec, view, conv, cap)
    if len(acc.samples) < 2 and view.size <= 8:
        alpha = ref.leaf_alphabet(view, IDX_CAP)
        tag, form, arr = alpha[len(alpha) // 3]
        acc.sample({"spec": uni.label(r), "generate_value": np.asarray(spec.generate_value()).tolist(),
                    "value": _value_tag(ref.value_recipe(tag, form, arr)), "reference_member": ref.member(view, ref.realise(form, arr))[0],
                    "validate_accepts": run_validate(spec, ref.realise(form, arr))[0]})


def _nested_suite(acc: Acc, r: Dict[str, Any], spec: Any, view: ref.View, key: ref.EqKey, values: bool = True) -> None:
    acc.states += 1
    acc.count("specs")
    acc.count("nested_specs")
    conv = Conv(acc, r, spec, view)
    check_generate(acc, r, spec, view, conv)
    if values:
        for vr in uni.nested_value_recipes(view, IDX_CAP):
            check_validate(acc, r, spec, view, conv, vr)
    check_replace(acc, r, spec, view, key)
    check_pickle(acc, r, spec, view, key)


def _set_tier(tier: str) -> None:
    global IDX_CAP
    IDX_CAP = 16 if tier == "thorough" else 6


def task_leaf(model: str, kind: str, tier: str, dtypes: Optional[List[str]] = None) -> Dict[str, Any]:
    """Synthetic leaf specs of one kind: attributes, generate, validate alphabet, conversions, replace,
    pickle, finite converted spaces.  The value alphabet runs on names "" and "a"; replace/pickle on all."""
    _set_tier(tier)
    acc = Acc(model)
    recipes = uni.LEAF_UNIVERSE[kind]() if dtypes is None else uni.bounded_recipes(tuple(dtypes))
    cap = CAP[tier]
    for r in recipes:
        _, spec, view, key = make_item(r)
        full = r.get("name", "") != "b"
        acc.guard(uni.label(r), _leaf_suite, acc, r, spec, view, key, cap, True, values=full, actions=r.get("name", "") == "")
    return acc.result()


def task_nested(model: str, tier: str, part: int, parts: int) -> Dict[str, Any]:
    _set_tier(tier)
    acc = Acc(model)
    recipes = uni.nested_recipes()
    keep = set(uni.nested_validation_subset(recipes))
    for i, r in enumerate(recipes):
        if i % parts != part:
            continue
        _, spec, view, key = make_item(r)
        acc.guard(uni.label(r), _nested_suite, acc, r, spec, view, key, values=i in keep)
    acc.sample({"spec": uni.label(recipes[part]), "generate_value": repr(uni.build_spec(recipes[part]).generate_value())[:200]})
    return acc.result()


def _groups(items: List[Item]) -> Dict[Any, List[int]]:
    g: Dict[Any, List[int]] = {}
    for i, it in enumerate(items):
        g.setdefault(ref.kind_key(it[2]), []).append(i)
    return g


def _eq_all(acc: Acc, items: List[Item], block: int = 0, blocks: int = 1) -> None:
    row = 0
    for kk, idxs in sorted(_groups(items).items(), key=lambda kv: str(kv[0])):
        acc.count("eq_kinds")
        for i in idxs:
            row += 1
            if row % blocks != block:
                continue
            for j in idxs:
                eq_case(acc, items[i], items[j])


def task_eq(model: str, kind: str, block: int = 0, blocks: int = 1) -> Dict[str, Any]:
    """`==` over ALL ordered pairs of the synthetic universe of one kind (rows split over `blocks`)."""
    acc = Acc(model)
    recipes = uni.nested_recipes() if kind == "Spec" else uni.LEAF_UNIVERSE[kind]()
    items = [make_item(r) for r in recipes]
    if block == 0:
        acc.states += len(items)
    _eq_all(acc, items, block, blocks)
    if kind == "Spec" and block == 0:
        # informational: nested specs of different kinds (different child names) — not judged
        a = next(it for it in items if it[0]["ctor"] == "NT2")
        b = next(it for it in items if it[0]["ctor"] == "NT2Z")
        _, e, _ = _try_eq(a[1], b[1])
        acc.extra["nested_eq_different_fields"] = "raises " + _exc(e) if e is not None else "returns a bool"
        acc.count("nested_eq_different_fields_raises", int(e is not None))
    i, j = (7 * block + 3) % len(items), (len(items) - 1 - 11 * block) % len(items)
    if ref.kind_key(items[i][2]) == ref.kind_key(items[j][2]):
        acc.sample({"left": uni.label(items[i][0]), "right": uni.label(items[j][0]), "reference_equal": ref.rel(items[i][3], items[j][3]),
                    "library_equal": str(_try_eq(items[i][1], items[j][1])[0])})
    return acc.result()


def _env_items(name: str, ctor: str) -> List[Tuple[str, Item]]:
    from mc import catalog

    env = eval(ctor, catalog.namespace())  # noqa: S307
    out: List[Tuple[str, Item]] = []
    for which in uni.WHICH:
        root = getattr(env, which)
        for path, node in uni.walk(root):
            r = {"t": "env", "ctor": ctor, "which": which, "path": list(path)}
            out.append((which, make_item(r, node)))
    return out


def task_env(model: str, family: str, ctors: List[Tuple[str, str]], tier: str) -> Dict[str, Any]:
    """Every node of the four specs of the family's configurations."""
    _set_tier(tier)
    acc = Acc(model)
    cap = CAP[tier]
    for name, ctor in ctors:
        for which, (r, spec, view, key) in _env_items(name, ctor):
            acc.count("env_specs")
            if view.kind == "Spec":
                acc.guard(uni.label(r), _nested_suite, acc, r, spec, view, key)
            else:
                acc.guard(uni.label(r), _leaf_suite, acc, r, spec, view, key, cap, False, actions=(which == "action_spec"))
    return acc.result()


def task_env_eq(model: str, tier: str) -> Dict[str, Any]:
    """`==` over all ordered pairs of same-kind spec nodes across all environments."""
    acc = Acc(model)
    items: List[Item] = []
    for name, fam, ctor in uni.env_ctors(tier):
        items += [it for _, it in _env_items(name, ctor)]
    acc.states += len(items)
    acc.extra["env_spec_nodes"] = len(items)
    _eq_all(acc, items)
    return acc.result()


def task_actions_capped(model: str, tier: str, what: str) -> Dict[str, Any]:
    """Finite converted spaces with more elements than the cap (not exhaustive, reported as capped):
    1 024 elements of each synthetic one, min(cap, 10 000) elements of each environment action space."""
    acc = Acc(model)
    cap = CAP[tier]
    if what == "synthetic":
        for kind in ref.LEAF_KINDS:
            for r in uni.LEAF_UNIVERSE[kind](names=("",)):
                _, spec, view, _ = make_item(r)
                acc.guard(uni.label(r), check_actions, acc, r, spec, view, Conv(acc, r, spec, view, quiet=True), cap,
                          capped_pass=True, budget=1024)
    else:
        for name, fam, ctor in uni.env_ctors(tier):
            r = {"t": "env", "ctor": ctor, "which": "action_spec", "path": []}
            _, spec, view, _ = make_item(r)
            if view.kind != "Spec":
                acc.guard(uni.label(r), check_actions, acc, r, spec, view, Conv(acc, r, spec, view, quiet=True), cap,
                          capped_pass=True, budget=min(cap, 10_000))
    return acc.result()


DTYPE_INPUTS = ["bool", "int8", "int16", "int32", "int64", "uint8", "uint16", "uint32", "uint64", "float16", "float32",
                "float64", "complex64", "complex128", "py:bool", "py:int", "py:float", "np:int8", "np:int64", "np:uint8",
                "np:float16", "np:float64", "np:bool_", "jnp:int8", "jnp:int32", "jnp:uint8", "jnp:float16", "jnp:float32",
                "jnp:bool_", "jnp:bfloat16", "dtype:int16", "dtype:float64", "dtype:uint64"]


def _dtype_input(s: str) -> Tuple[Any, np.dtype]:
    import jax.numpy as jnp

    if s.startswith("py:"):
        obj = {"bool": bool, "int": int, "float": float}[s[3:]]
    elif s.startswith("np:"):
        obj = getattr(np, s[3:])
    elif s.startswith("jnp:"):
        obj = getattr(jnp, s[4:])
    elif s.startswith("dtype:"):
        obj = np.dtype(s[6:])
    else:
        obj = s
    return obj, ref.canon_dtype(obj)


def dtype_case(acc: Acc, s: str) -> None:
    from jumanji import specs
    from jumanji.types import get_valid_dtype

    obj, want = _dtype_input(s)
    rp = {"kind": "dtype", "input": s}
    acc.states += 1
    acc.transitions += 3
    acc.validated += 3
    acc.count("dtype_inputs")
    try:
        got = np.dtype(get_valid_dtype(obj))
        again = np.dtype(get_valid_dtype(got))
        in_spec = np.dtype(specs.Array((2,), obj).dtype)
    except Exception as e:  # noqa: BLE001
        acc.violation("get_valid_dtype:raises", f"get_valid_dtype({s}) raised {_exc(e)}", rp)
        return
    if got != want:
        acc.violation("get_valid_dtype:wrong-dtype", f"get_valid_dtype({s}) = {got}, expected {want} (x64 disabled)", rp)
    elif again != got:
        acc.violation("get_valid_dtype:not-idempotent", f"get_valid_dtype({got}) = {again}", rp)
    elif in_spec != want:
        acc.violation("Array.__init__:attribute-dtype", f"Array((2,), {s}).dtype = {in_spec}, expected {want}", rp)


def task_dtypes(model: str) -> Dict[str, Any]:
    acc = Acc(model)
    for s in DTYPE_INPUTS:
        dtype_case(acc, s)
    acc.sample({"get_valid_dtype": {s: str(_dtype_input(s)[1]) for s in DTYPE_INPUTS[:14]}})
    return acc.result()


# ======================================================================================== main / replay
def build_tasks(tier: str) -> List[Tuple[str, str, Dict[str, Any]]]:
    M = "mc.checks.c16"
    tasks: List[Tuple[str, str, Dict[str, Any]]] = []
    for dt in ref.DTYPES:
        tasks.append((M, "task_leaf", dict(model=f"leaf-BoundedArray-{dt}", kind="BoundedArray", tier=tier, dtypes=[dt])))
    for b in range(EQ_BLOCKS):
        tasks.append((M, "task_eq", dict(model=f"eq-BoundedArray-{b}", kind="BoundedArray", block=b, blocks=EQ_BLOCKS)))
    by_fam: Dict[str, List[Tuple[str, str]]] = {}
    for name, fam, ctor in uni.env_ctors(tier):
        by_fam.setdefault(fam, []).append((name, ctor))
    for fam, ctors in by_fam.items():
        chunks = [ctors] if tier == "quick" else [ctors[i:i + 2] for i in range(0, len(ctors), 2)]
        for ci, chunk in enumerate(chunks):
            tasks.append((M, "task_env", dict(model=f"env-{fam}" + (f"-{ci}" if len(chunks) > 1 else ""), family=fam,
                                              ctors=chunk, tier=tier)))
    tasks.append((M, "task_env_eq", dict(model="eq-env-specs", tier=tier)))
    for part in range(4):
        tasks.append((M, "task_nested", dict(model=f"nested-{part}", tier=tier, part=part, parts=4)))
    for b in range(2):
        tasks.append((M, "task_eq", dict(model=f"eq-Spec-{b}", kind="Spec", block=b, blocks=2)))
    for kind in ("Array", "DiscreteArray", "MultiDiscreteArray"):
        tasks.append((M, "task_leaf", dict(model=f"leaf-{kind}", kind=kind, tier=tier)))
        tasks.append((M, "task_eq", dict(model=f"eq-{kind}", kind=kind)))
    for what in ("synthetic", "env"):
        tasks.append((M, "task_actions_capped", dict(model=f"actions-over-cap-{what}", tier=tier, what=what)))
    tasks.append((M, "task_dtypes", dict(model="get_valid_dtype")))
    return tasks


REQUIRED = ["specs", "nested_specs", "env_specs", "generated_values", "accepted_values", "rejected_values",
            "rejected:wrong-shape", "rejected:wrong-dtype", "rejected:below-minimum", "rejected:above-maximum",
            "rejected:wrong-structure", "structure_mutants_rejected", "equal_pairs", "unequal_pairs", "replacements",
            "pickles", "gym_members", "dm_env_members", "action_space_elements", "action_spaces_enumerated",
            "dtype_inputs", "attribute_checks"]


def main(tier: str, seed: int) -> int:
    rep = Reporter(PID, tier, seed)
    tasks = build_tasks(tier)
    k = seed % len(tasks)
    tasks = tasks[k:] + tasks[:k]  # the seed only rotates the work queue
    run_tasks(rep, tasks)
    rep.require_positive(*REQUIRED)
    rep.assumptions += [
        "bounded-exhaustive over the finite universe and value alphabet listed in the module docstring; "
        "NaN is outside the alphabet",
        f"finite converted spaces are enumerated completely up to {CAP[tier]} elements; larger ones (models "
        "actions-over-cap-*, reported as not exhaustive) by the axis lines through both corners plus the "
        "lexicographically first elements: 1024 per synthetic space, min(cap, 10000) per environment action space",
        f"single-element deviations on arrays with more than {16 if tier == 'thorough' else 6} elements touch "
        "first/middle/last and one element per distinct bound pair",
        "specs of different kinds (incl. nested specs with different skeletons) are not compared; size-0 bounded "
        "specs with different raw bounds are not judged; float32 subnormal steps replaced by the smallest normal",
        "gym elements of non-int32 (Multi)DiscreteArray specs are re-typed before validation (counted)",
    ]
    rep.coverage["bounds"] = {"shapes": [list(s) for s in uni.SHAPES], "dtypes": list(ref.DTYPES), "names": list(uni.NAMES),
                              "discrete_num_values": list(uni.DISCRETE_NUM_VALUES),
                              "multi_discrete_num_values": list(uni.MULTI_NUM_VALUES), "nested_depth": 2,
                              "action_space_cap": CAP[tier], "element_index_cap": 16 if tier == "thorough" else 6}
    return rep.finish()


def _replay_case(rp: Dict[str, Any]) -> List[Violation]:
    acc = Acc("replay")
    kind = rp["kind"]
    if kind == "dtype":
        dtype_case(acc, rp["input"])
        return acc.violations
    if kind == "eq":
        eq_case(acc, make_item(rp["a"]), make_item(rp["b"]))
        return acc.violations
    r = rp["spec"]
    _, spec, view, key = make_item(r)
    if kind == "validate":
        check_validate(acc, r, spec, view, Conv(acc, r, spec, view), rp["value"])
    elif kind == "generate":
        check_generate(acc, r, spec, view, None)
    elif kind == "attrs":
        check_attrs(acc, r, spec, view)
    elif kind == "convert":
        Conv(acc, r, spec, view)
    elif kind == "replace":
        if rp.get("attr") is None:
            check_replace(acc, r, spec, view, key)
        else:
            replace_case(acc, r, spec, view, rp["attr"], rp["value"])
    elif kind == "pickle":
        check_pickle(acc, r, spec, view, key)
    elif kind == "action":
        # re-run the single element through the same decision procedure
        conv = Conv(acc, r, spec, view)
        e = np.asarray(rp["element"], dtype=np.int64)
        import gymnasium as gym

        elem: Any = np.int64(e) if isinstance(conv.space, gym.spaces.Discrete) else e.astype(conv.space.dtype)
        got, _, exc = run_validate(spec, elem)
        if not got:
            e2 = _exact_cast(np.asarray(elem), view.dtype) if view.kind in ("DiscreteArray", "MultiDiscreteArray") else None
            if e2 is None or ref.canon_dtype(np.asarray(elem).dtype) == view.dtype or not run_validate(spec, e2)[0]:
                acc.violation(rp.get("signature", "element-invalid-for-spec"), f"element {e.tolist()} rejected: {_exc(exc)}", rp)
    else:
        raise ValueError(f"unknown replay kind {kind}")
    return acc.violations


def replay(doc: Dict[str, Any]) -> int:
    rp = doc["replay"]
    want = doc.get("signature") or rp.get("signature")
    vs = _replay_case(rp)
    hit = [v for v in vs if v.signature == want] or vs
    if hit:
        for v in hit[:3]:
            print(f"REPRODUCED property={PID} signature={v.signature}\n  {v.message}")
        return 1
    print(f"not reproduced: property={PID} signature={want}")
    return 0
