"""C07 — see DESIGN.md §4 C07; monitors in mc/refmon.py, per-environment rules in mc/ref/<family>.py."""
from __future__ import annotations

from typing import Any, Dict

from mc import boot  # noqa: F401

from mc import refprops

PID = "C07"


def plan(cfg: Any, env: Any, tier: str):
    return refprops.plan(PID, cfg, env, tier)


def main(tier: str, seed: int) -> int:
    return refprops.main(PID, tier, seed, use_horizon=(PID in ("C12",)))


def replay(doc: Dict[str, Any]) -> int:
    from mc.graphprops import replay as _r

    return _r(PID, doc)
