"""C18 — the registry maps each id to one reproducible configuration (DESIGN §4 C18).

Three exhaustive enumerations (mode C), each its own family of worker tasks:

(a) `parse:*`   every string of length <= 5 (quick) / <= 6 (thorough) over the 11-symbol alphabet
    {a B 1 0 _ - v : . space /} — plus every string of length <= 5 that contains "\\n" over that alphabet extended with
    "\\n" (5 is the shortest length at which a newline can trail a well-formed id) — through `parse_env_id`, against a reference parser written without `re` from the
    documented format '<env-name>-v<version>': well-formed iff the string can be split at the LAST
    "-v" into a non-empty name over word characters, ':', '.', '-' and a non-empty run of ASCII digits
    reaching the end.  Accepted ids must give (name, int(digits)); rejected ones must raise ValueError
    (the documented exception).  Round trip `get_env_id(*parse_env_id(id)) == id` is demanded for
    canonical numerals only; for "a-v01" parse gives 1 and formats to "a-v1" (non-canonical numeral,
    counted, not flagged).  The other direction `parse_env_id(get_env_id(name, N)) == (name, N)` is run
    for all names of length <= 3 over the allowed symbols x versions up to 10**100.
    A hand-picked finite list of non-ASCII ids (unicode digits/letters/hyphen) is run and *reported*
    (evidence, `observations`); Python's `\\d`/`\\w` accept unicode digits and letters, which the
    documented format neither promises nor forbids, so only internal inconsistency is flagged there
    (an accepted id must still be `name + "-v" + numeral` with `int(numeral) == N`).

(b) `history:*` explicit-state exploration of the process-global registry: all sequences of length
    <= 3 (quick) / <= 4 (thorough) over 11 operations (incl. a zero-padded spelling of idA for register and make; register idA with class A and kwargs1, register
    idA with class B and kwargs2, register idB, register a malformed id, register a version-less id,
    make idA, make idA with overriding kwargs, make idB, make an unregistered id), replayed from an
    empty registry and from the shipped registry, against a dict reference model.  idA, idB and the
    unknown id share the *name* and differ only in the version.  After every operation the result /
    exception and `registered_environments()` are compared with the model; at the end of every
    history (every prefix is itself a history) the whole state is probed: stored kwargs and entry
    point (white box) and what a plain `make` builds for every id (public API).  kwargs1 contains
    mutable values (a list and a dict): the *stored* kwargs must never change; that the instance
    receives the same list object (`.copy()` is shallow) is not flagged — the property does not say.
    The registry is saved before and restored after each history (try/finally).

(c) `shipped:*` every id of `jumanji.registered_environments()` (25): parses and round-trips;
    `make(id)` builds the class named by the registered entry point with the registered kwargs;
    make / make-with-override (`time_limit=3` where the constructor takes one) / make again: the first
    and the last environment have equal specs and identical jitted reset/step outputs for keys 0..3
    over a fixed action sequence, and identical eager reset + step for key 0.  Sokoban-v0 is made with
    `generator=ToyGenerator()` (its dataset needs the network; conceded by the property).
    Spec equality is decided twice: with the library's `==` (which *raises* for per-element bounds —
    DESIGN §5 #8, a C16 defect; reported as `make-twice:spec-equality-raises:<id>`) and with a
    structural comparison written here, so a genuinely different second make is still reported
    (`make-twice:specs-differ:<id>`).

Oracle decisions: "rejected"/"refused" = raises ValueError (what the docstrings document);
an unknown id must raise an exception whose text contains every registered id and none of the stub
ids that are not registered (other than the requested one).
"""
from __future__ import annotations

import copy
import importlib
import inspect
import itertools
import time
from functools import cached_property
from typing import Any, Dict, List, Optional, Tuple

from mc import boot  # noqa: F401

import numpy as np

from jumanji import registration, specs
from jumanji.env import Environment

from mc.report import Reporter, Violation
from mc.runner import run_tasks

PID = "C18"
MOD = "mc.checks.c18"

# ------------------------------------------------------------------------------------------------
# (a) id strings
# ------------------------------------------------------------------------------------------------
ALPHABET = "aB10_-v:. /"
NAME_OK = set("abcdefghijklmnopqrstuvwxyzABCDEFGHIJKLMNOPQRSTUVWXYZ0123456789_:.-")
DIGITS = set("0123456789")
BIG_VERSIONS = [0, 1, 9, 10, 99, 2**31 - 1, 2**31, 2**63, 2**64, 10**30, 10**100]
NON_ASCII = [
    "a-v\u0661",  # ARABIC-INDIC DIGIT ONE as the version
    "a-v\uff11",  # FULLWIDTH DIGIT ONE
    "a-v1\u0662",  # ASCII digit followed by ARABIC-INDIC DIGIT TWO
    "a-v\u00b2",  # SUPERSCRIPT TWO (isdigit, not decimal)
    "\u00e9-v1",  # e acute as the name
    "\u03b1\u03b2-v0",  # greek letters
    "\uff41-v1",  # fullwidth a
    "a\u00a0-v1",  # no-break space in the name
    "a\u2010v1",  # unicode hyphen instead of '-'
    "a-\u04751",  # cyrillic izhitsa instead of 'v'
    "a-v1\r",
    "a-v1\u2028",  # LINE SEPARATOR after the version
    "a-v1\x0b",  # vertical tab after the version
    "\u4e2d-v3",  # CJK name
]
_CAP = 5  # violations kept per signature per task (the count is always complete)


def ref_parse(s: str) -> Optional[Tuple[str, int]]:
    """Documented format '<env-name>-v<version>', no `re`. None = must be rejected."""
    k = s.rfind("-v")
    if k < 0:
        return None
    name, numeral = s[:k], s[k + 2:]
    if not numeral or any(c not in DIGITS for c in numeral):
        return None
    if not name or any(c not in NAME_OK for c in name):
        return None
    return name, int(numeral)


def _canonical(s: str) -> bool:
    numeral = s[s.rfind("-v") + 2:]
    return numeral == str(int(numeral))


def check_id(s: str) -> Tuple[str, List[Tuple[str, str]]]:
    """Run one id through parse_env_id/get_env_id. Returns (class, problems[(signature, message)])."""
    want = ref_parse(s)
    try:
        got = registration.parse_env_id(s)
        exc: Optional[BaseException] = None
    except ValueError as e:
        got, exc = None, e
    except Exception as e:  # noqa: BLE001
        return "error", [("parse_env_id:raises-non-ValueError",
                          f"parse_env_id({s!r}) raised {type(e).__name__}: {e}")]
    if want is None:
        if exc is None:
            return "malformed", [("parse_env_id:accepts-malformed-id",
                                  f"parse_env_id({s!r}) returned {got!r}; the id is not of the form <name>-v<N>")]
        return "malformed", []
    if exc is not None:
        return "wellformed", [("parse_env_id:rejects-wellformed-id",
                               f"parse_env_id({s!r}) raised ValueError({str(exc)[:80]!r}); expected {want!r}")]
    probs: List[Tuple[str, str]] = []
    if (not isinstance(got, tuple) or len(got) != 2 or got[0] != want[0] or got[1] != want[1]
            or type(got[1]) is not int or type(got[0]) is not str):
        probs.append(("parse_env_id:wrong-name-or-version", f"parse_env_id({s!r}) = {got!r}; expected {want!r}"))
        return "wellformed", probs
    back = registration.get_env_id(*got)
    if _canonical(s):
        if back != s:
            probs.append(("get_env_id:round-trip-differs", f"get_env_id(*parse_env_id({s!r})) = {back!r}"))
        return "canonical", probs
    if back != want[0] + "-v" + str(want[1]):
        probs.append(("get_env_id:wrong-format", f"get_env_id{got!r} = {back!r}"))
    return "noncanonical", probs


def _versionless(s: str) -> bool:
    return bool(s) and all(c in NAME_OK for c in s)


class _Acc:
    """Per-task accumulator of violations (capped per signature), counters and samples."""

    def __init__(self, model: str):
        self.model = model
        self.violations: List[Violation] = []
        self.nsig: Dict[str, int] = {}
        self.vac: Dict[str, int] = {}
        self.samples: List[Any] = []
        self.states = self.transitions = self.validated = 0

    def count(self, k: str, n: int = 1) -> None:
        self.vac[k] = self.vac.get(k, 0) + n

    def bad(self, sig: str, msg: str, replay: Dict[str, Any]) -> None:
        self.nsig[sig] = self.nsig.get(sig, 0) + 1
        if self.nsig[sig] <= _CAP:
            replay = dict(replay, signature=sig, property=PID)
            self.violations.append(Violation(PID, self.model, sig, msg, replay))

    def result(self, **extra: Any) -> Dict[str, Any]:
        out = dict(model=self.model, states=self.states, transitions=self.transitions, validated=self.validated,
                   samples=self.samples, violations=self.violations, vacuity=self.vac, exhaustive=True,
                   violating_cases_by_signature=dict(self.nsig))
        out.update(extra)
        return out


def _run_ids(acc: _Acc, ids: Any) -> None:
    for s in ids:
        cls, probs = check_id(s)
        acc.states += 1
        acc.transitions += 1 if cls in ("malformed", "error") else 2  # parse (+ format back)
        if cls == "malformed":
            acc.count("malformed_rejected" if not probs else "malformed_accepted")
            if _versionless(s):
                acc.count("versionless_ids")
        else:
            if not probs:
                acc.count("wellformed_accepted")
            acc.count("roundtrip_canonical" if cls == "canonical" else "noncanonical_numerals")
        for sig, msg in probs:
            acc.bad(sig, msg, {"kind": "parse", "id": s})
    acc.validated = acc.states


def parse_task(model: str, first: str, maxlen: int) -> Dict[str, Any]:
    """All strings over ALPHABET that start with `first` and have length <= maxlen."""
    acc = _Acc(model)

    def gen():
        for n in range(0, maxlen):
            for tail in itertools.product(ALPHABET, repeat=n):
                yield first + "".join(tail)

    _run_ids(acc, gen())
    for s in (first + "-v1", first + "-v", first + "a-v01", first + " -v1", first + "-v1-v2"):
        if len(s) <= maxlen:
            cls, _ = check_id(s)
            acc.samples.append({"id": s, "reference": ref_parse(s), "class": cls})
    return acc.result(alphabet=ALPHABET, max_length=maxlen, first_symbol=first)


def parse_misc_task(model: str) -> Dict[str, Any]:
    """Empty string, the newline-extended alphabet, large versions, name x version round trips and the
    reported-only non-ASCII list."""
    acc = _Acc(model)
    _run_ids(acc, [""])
    n0 = acc.states
    alpha_nl = ALPHABET + "\n"
    # length 5 is the shortest at which a trailing newline can follow a well-formed id ("a-v1\n")
    _run_ids(acc, ("".join(t) for n in range(1, 6) for t in itertools.product(alpha_nl, repeat=n) if "\n" in t))
    acc.count("newline_ids", acc.states - n0)
    # (name, N) -> id -> (name, N)
    name_syms = "aB10_-v:."
    for n in range(1, 4):
        for t in itertools.product(name_syms, repeat=n):
            name = "".join(t)
            for N in BIG_VERSIONS:
                acc.states += 1
                acc.transitions += 2
                s = registration.get_env_id(name, N)
                rep = {"kind": "roundtrip", "name": name, "version": str(N)}
                if s != name + "-v" + str(N):
                    acc.bad("get_env_id:wrong-format", f"get_env_id({name!r}, {N}) = {s!r}", rep)
                    continue
                try:
                    got = registration.parse_env_id(s)
                except Exception as e:  # noqa: BLE001
                    acc.bad("parse_env_id:rejects-wellformed-id",
                            f"parse_env_id(get_env_id({name!r}, {N})) raised {type(e).__name__}: {e}", rep)
                    continue
                if got != (name, N):
                    acc.bad("parse_env_id:wrong-name-or-version",
                            f"parse_env_id(get_env_id({name!r}, {N})) = {got!r}", rep)
                else:
                    acc.count("name_version_roundtrips")
                    if N >= 2**63:
                        acc.count("large_versions")
    acc.validated = acc.states
    for s in ("a-v1-v" + str(10**30), "a-v1\n", "a-v01"):
        try:
            acc.samples.append({"id": s, "parsed": list(registration.parse_env_id(s))})
        except ValueError as e:
            acc.samples.append({"id": s, "rejected": str(e)[:60]})
    # reported only
    obs = {}
    for s in NON_ASCII:
        acc.states += 1
        acc.transitions += 1
        try:
            got = registration.parse_env_id(s)
        except ValueError as e:
            obs[ascii(s)] = "rejected: ValueError"
            acc.count("non_ascii_rejected")
            continue
        except Exception as e:  # noqa: BLE001
            obs[ascii(s)] = f"raised {type(e).__name__}"
            acc.bad("parse_env_id:raises-non-ValueError", f"parse_env_id({ascii(s)}) raised {type(e).__name__}: {e}",
                    {"kind": "parse-nonascii", "id": s})
            continue
        name, N = got
        back = registration.get_env_id(name, N)
        obs[ascii(s)] = f"accepted as ({ascii(name)}, {N}); formats back to {ascii(back)}" + \
                        ("" if back == s else " (differs: non-canonical numeral)")
        acc.count("non_ascii_accepted")
        k = s.rfind("-v")
        ok = k > 0 and name == s[:k]
        try:
            ok = ok and int(s[k + 2:]) == N
        except ValueError:
            ok = False
        if not ok:
            acc.bad("parse_env_id:inconsistent-split", f"parse_env_id({ascii(s)}) = ({ascii(name)}, {N}) is not a "
                    f"split of the id at its last '-v'", {"kind": "parse-nonascii", "id": s})
    acc.validated = acc.states
    return acc.result(non_ascii_observations=obs, big_versions=[str(v) for v in BIG_VERSIONS])


# ------------------------------------------------------------------------------------------------
# (b) registry histories
# ------------------------------------------------------------------------------------------------
class _Stub(Environment):
    """Minimal concrete Environment: records its constructor arguments, builds nothing."""

    def __init__(self, *args: Any, **kwargs: Any):  # no super().__init__(): specs stay lazy
        self.args = args
        self.kwargs = kwargs

    def reset(self, key: Any) -> Any:
        raise NotImplementedError

    def step(self, state: Any, action: Any) -> Any:
        raise NotImplementedError

    @cached_property
    def observation_spec(self) -> specs.Array:
        return specs.Array((), float, "observation")

    @cached_property
    def action_spec(self) -> specs.Array:
        return specs.Array((), float, "action")


class StubEnvA(_Stub):
    pass


class StubEnvB(_Stub):
    pass


ID_A, ID_B, ID_UNKNOWN = "McStubA-v0", "McStubA-v1", "McStubA-v2"  # same name, three versions
ID_BAD, ID_NOVER = "Mc StubA-v0", "McStubA"
ID_A_PAD = "McStubA-v00"  # another spelling of (McStubA, 0): the same registration as ID_A
STUB_IDS = (ID_A, ID_B, ID_UNKNOWN)
EP = {"A": f"{MOD}:StubEnvA", "B": f"{MOD}:StubEnvB"}
KW1 = {"size": 3, "opts": [1, 2], "cfg": {"k": 1}}
KW2 = {"size": 5, "opts": [9]}
OVERRIDE = {"size": 7, "extra": "x"}

OPS: Dict[str, Tuple[Any, ...]] = {
    "register(idA,E1,kw1)": ("register", ID_A, "A", KW1),
    "register(idA,E2,kw2)": ("register", ID_A, "B", KW2),
    "register(idB,E1)": ("register", ID_B, "A", None),
    "register(malformed)": ("register", ID_BAD, "A", KW1),
    "register(versionless)": ("register", ID_NOVER, "A", KW1),
    "register(idA~zero-padded,E2,kw2)": ("register", ID_A_PAD, "B", KW2),
    "make(idA)": ("make", ID_A, {}),
    "make(idA~zero-padded)": ("make", ID_A_PAD, {}),
    "make(idA,override)": ("make", ID_A, OVERRIDE),
    "make(idB)": ("make", ID_B, {}),
    "make(unknown)": ("make", ID_UNKNOWN, {}),
}
OP_NAMES = list(OPS)


def _stub_class(tag: str) -> type:
    # resolved through the module registry: the entry point imports "mc.checks.c18", which may be a
    # different module object than this one when the file is run as a script
    return getattr(importlib.import_module(MOD), {"A": "StubEnvA", "B": "StubEnvB"}[tag])


def run_history(base: str, ops: List[str], acc: Optional[_Acc] = None, verbose: bool = False) -> List[Tuple[str, str]]:
    """Replay one history from a clean registry; returns problems [(signature, message)]."""
    probs: List[Tuple[str, str]] = []
    cnt = acc.count if acc is not None else (lambda *a, **k: None)
    reg = registration._REGISTRY
    saved = dict(reg)
    try:
        if base == "empty":
            reg.clear()
        else:  # the shipped registry without anything a previous history could have left behind
            for k in [k for k in reg if k.startswith("McStub")]:
                del reg[k]
        base_ids = set(reg)
        model: Dict[str, Tuple[str, Dict[str, Any]]] = {}
        overridden = False

        def listing(where: str) -> None:
            got = registration.registered_environments()
            want = base_ids | set(model)
            if got != want:
                probs.append(("registry:contents-differ-from-model",
                              f"{where}: registered_environments() has extra {sorted(got - want)} / lacks {sorted(want - got)}"))

        def canon_id(env_id: str) -> str:
            p = ref_parse(env_id)
            return env_id if p is None else f"{p[0]}-v{int(p[1])}"

        def do_make(env_id: str, over: Dict[str, Any], where: str) -> None:
            nonlocal overridden
            asked, env_id = env_id, canon_id(env_id)  # (name, N) identifies the registration, not its spelling
            try:
                inst = registration.make(asked, **copy.deepcopy(over))
                exc: Optional[BaseException] = None
            except Exception as e:  # noqa: BLE001
                inst, exc = None, e
            if env_id not in model:
                if exc is None:
                    probs.append(("make:unknown-id-does-not-raise", f"{where}: make({env_id!r}) returned {inst!r}"))
                    return
                text = str(exc)
                missing = sorted(i for i in base_ids | set(model) if i not in text)
                ghost = sorted(i for i in STUB_IDS if i not in model and i != env_id and i in text)
                if missing:
                    probs.append(("make:unknown-id-error-omits-registered-ids",
                                  f"{where}: error for {env_id!r} does not list {missing[:4]}"))
                if ghost:
                    probs.append(("make:unknown-id-error-lists-unregistered-ids",
                                  f"{where}: error for {env_id!r} lists {ghost} which are not registered"))
                if not missing and not ghost:
                    cnt("unknown_raises")
                    if model:
                        cnt("unknown_raises_listing_stub_ids")
                return
            tag, kw = model[env_id]
            if exc is not None:
                probs.append(("make:raises-for-registered-id", f"{where}: make({env_id!r}) raised {type(exc).__name__}: {exc}"))
                return
            want_kw = dict(copy.deepcopy(kw))
            want_kw.update(over)
            if type(inst) is not _stub_class(tag):
                probs.append(("make:wrong-class", f"{where}: make({env_id!r}) built {type(inst).__name__}, registered {EP[tag]}"))
            elif inst.kwargs != want_kw or inst.args != ():
                sig = "make:wrong-kwargs-with-override" if over else (
                    "make:kwargs-affected-by-earlier-override" if overridden else "make:wrong-kwargs")
                probs.append((sig, f"{where}: make({env_id!r}{', **' + repr(over) if over else ''}) constructed with "
                                   f"{inst.kwargs!r}; expected {want_kw!r}"))
            else:
                cnt("makes_ok")
                if over:
                    cnt("makes_with_override")
                elif overridden and env_id == ID_A:
                    cnt("plain_make_after_override_unaffected")
            if over:
                overridden = True

        for t, name in enumerate(ops):
            op = OPS[name]
            where = f"op {t} {name}"
            if op[0] == "register":
                _, env_id, tag, kw = op
                kwargs = {} if kw is None else {"kwargs": copy.deepcopy(kw)}
                try:
                    registration.register(env_id, entry_point=EP[tag], **kwargs)
                    exc = None
                except ValueError as e:
                    exc = e
                except Exception as e:  # noqa: BLE001
                    exc = e
                    probs.append(("register:raises-non-ValueError", f"{where}: {type(e).__name__}: {e}"))
                malformed = ref_parse(env_id) is None
                asked, env_id = env_id, canon_id(env_id)
                dup = env_id in model or env_id in base_ids
                if malformed or dup:
                    if exc is None:
                        probs.append(("register:accepts-malformed-id" if malformed else "register:duplicate-not-refused",
                                      f"{where}: register({asked!r}) did not raise"))
                    else:
                        cnt("malformed_registrations_refused" if malformed else "duplicate_registrations_refused")
                        if env_id in model and model[env_id][0] != tag:
                            cnt("duplicate_with_other_class_refused")
                else:
                    if exc is not None:
                        probs.append(("register:refuses-fresh-id", f"{where}: {type(exc).__name__}: {exc}"))
                    else:
                        model[env_id] = (tag, copy.deepcopy(kw or {}))
                        cnt("registrations_accepted")
            else:
                _, env_id, over = op
                do_make(env_id, over, where)
            listing(f"after {where}")
            if verbose:
                print(f"  {where}: model={ {k: v[0] for k, v in model.items()} } problems so far={len(probs)}")
        # probe the final state
        for env_id, (tag, kw) in model.items():
            spec = reg.get(env_id)
            if spec is None:
                continue  # already reported by listing()
            if spec.kwargs != kw:
                probs.append(("registry:stored-kwargs-changed",
                              f"after {ops}: stored kwargs of {env_id} are {spec.kwargs!r}; registered {kw!r}"))
            if spec.entry_point != EP[tag] or spec.id != env_id or (spec.name, spec.version) != ref_parse(env_id):
                probs.append(("registry:stored-spec-changed",
                              f"after {ops}: {env_id} -> {spec.entry_point} id={spec.id} name={spec.name} v={spec.version}"))
        for env_id in STUB_IDS:
            do_make(env_id, {}, f"probe after {ops}")
        if acc is not None:
            acc.transitions += len(ops) + len(STUB_IDS)
    finally:
        reg.clear()
        reg.update(saved)
    return probs


def history_task(model: str, base: str, depth: int) -> Dict[str, Any]:
    acc = _Acc(model)
    before = dict(registration._REGISTRY)
    for n in range(0, depth + 1):
        for ops in itertools.product(OP_NAMES, repeat=n):
            ops = list(ops)
            probs = run_history(base, ops, acc)
            acc.states += 1
            for sig, msg in probs:
                acc.bad(sig, msg, {"kind": "history", "base": base, "ops": ops})
    acc.validated = acc.states
    if dict(registration._REGISTRY) != before:
        return dict(acc.result(), error="registry not restored after the histories")
    acc.samples.append({"base": base, "history": ["register(idA,E1,kw1)", "make(idA,override)", "make(idA)"],
                        "problems": run_history(base, ["register(idA,E1,kw1)", "make(idA,override)", "make(idA)"])})
    return acc.result(base=base, depth=depth, operations=OP_NAMES, base_ids=len(before) if base == "shipped" else 0)


# ------------------------------------------------------------------------------------------------
# (c) shipped ids
# ------------------------------------------------------------------------------------------------
def spec_canon(s: Any) -> Any:
    """Structural, JSON-able description of a spec (independent of the specs' own __eq__)."""
    from mc import speccheck

    if isinstance(s, specs.MultiDiscreteArray):
        return ["MultiDiscrete", s.name, str(np.dtype(s.dtype)), np.asarray(s.num_values).tolist()]
    if isinstance(s, specs.DiscreteArray):
        return ["Discrete", s.name, str(np.dtype(s.dtype)), int(s.num_values)]
    if isinstance(s, specs.BoundedArray):
        shape = tuple(s.shape)
        return ["Bounded", s.name, list(shape), str(np.dtype(s.dtype)),
                np.broadcast_to(np.asarray(s.minimum), shape).tolist(),
                np.broadcast_to(np.asarray(s.maximum), shape).tolist()]
    if isinstance(s, specs.Array):
        return ["Array", s.name, list(s.shape), str(np.dtype(s.dtype))]
    kids = speccheck.children(s)
    return ["Spec", s.name, {k: spec_canon(v) for k, v in sorted(kids.items())}]


def _leaves_differ(a: Any, b: Any) -> Optional[str]:
    import jax

    la, ta = jax.tree_util.tree_flatten(a)
    lb, tb = jax.tree_util.tree_flatten(b)
    if ta != tb:
        return f"tree structures differ: {ta} vs {tb}"
    paths = [jax.tree_util.keystr(p) for p, _ in jax.tree_util.tree_flatten_with_path(a)[0]]
    for p, x, y in zip(paths, la, lb):
        x, y = np.asarray(x), np.asarray(y)
        if x.shape != y.shape or x.dtype != y.dtype:
            return f"{p}: {x.shape}/{x.dtype} vs {y.shape}/{y.dtype}"
        if x.dtype.kind == "f":
            ok = np.allclose(x, y, rtol=1e-5, atol=1e-6, equal_nan=True)
        else:
            ok = np.array_equal(x, y)
        if not ok:
            return f"{p}: values differ (first env {x.ravel()[:4].tolist()} vs second env {y.ravel()[:4].tolist()})"
    return None


def _action_sequence(spec: Any) -> List[Any]:
    gv = np.asarray(spec.generate_value())
    out = [gv]
    for k in range(3):
        if isinstance(spec, specs.MultiDiscreteArray):
            a = np.minimum(k, np.asarray(spec.num_values) - 1)
        elif isinstance(spec, specs.DiscreteArray):
            a = np.minimum(k, int(spec.num_values) - 1)
        elif isinstance(spec, specs.BoundedArray):
            a = np.clip(np.full(spec.shape, k), np.broadcast_to(np.asarray(spec.minimum), spec.shape),
                        np.broadcast_to(np.asarray(spec.maximum), spec.shape))
        else:
            a = gv
        out.append(np.asarray(a, dtype=gv.dtype).reshape(gv.shape))
    return out


def _make_shipped(env_id: str, **over: Any) -> Any:
    import jumanji

    if env_id.startswith("Sokoban"):
        from jumanji.environments.routing.sokoban.generator import ToyGenerator

        over.setdefault("generator", ToyGenerator())
    return jumanji.make(env_id, **over)


def _rollout(env: Any, actions: List[Any], keys: List[int]) -> List[Any]:
    import jax
    import jax.numpy as jnp

    ks = jnp.stack([jax.random.PRNGKey(k) for k in keys])
    reset = jax.jit(jax.vmap(env.reset))
    step = jax.jit(jax.vmap(env.step, in_axes=(0, None)))
    st, ts = reset(ks)
    out = [(st, ts)]
    for a in actions:
        st, ts = step(st, jnp.asarray(a))
        out.append((st, ts))
    return jax.tree_util.tree_map(np.asarray, out)


def _eager(env: Any, action: Any) -> Any:
    import jax
    import jax.numpy as jnp

    s0, t0 = env.reset(jax.random.PRNGKey(0))
    s1, t1 = env.step(s0, jnp.asarray(action))
    return jax.tree_util.tree_map(np.asarray, [(s0, t0), (s1, t1)])


def shipped_task(model: str, env_id: str, tier: str = "quick") -> Dict[str, Any]:
    acc = _Acc(model)
    rep = {"kind": "shipped", "env_id": env_id}
    info: Dict[str, Any] = {"env_id": env_id}
    # the id itself
    cls, probs = check_id(env_id)
    acc.states += 1
    acc.transitions += 2
    for sig, msg in probs:
        acc.bad(f"shipped-id:{sig}:{env_id}", msg, rep)
    if cls != "canonical":
        acc.bad(f"shipped-id:not-a-canonical-wellformed-id:{env_id}", f"{env_id!r} classified {cls}", rep)
    else:
        acc.count("shipped_ids_roundtrip")
    espec = registration._REGISTRY[env_id]
    stored_before = dict(espec.kwargs)
    mod_name, cls_name = espec.entry_point.split(":")
    want_cls = getattr(importlib.import_module(mod_name), cls_name)
    takes_tl = "time_limit" in inspect.signature(want_cls.__init__).parameters
    t0 = time.time()
    envs: List[Any] = []
    try:
        envs.append(_make_shipped(env_id))
        if takes_tl:
            eo = _make_shipped(env_id, time_limit=3)
            acc.transitions += 1
            if int(getattr(eo, "time_limit", -1)) != 3:
                acc.bad(f"make:override-ignored:{env_id}", f"make({env_id!r}, time_limit=3).time_limit == "
                        f"{getattr(eo, 'time_limit', None)}", rep)
            else:
                acc.count("shipped_makes_with_override")
        envs.append(_make_shipped(env_id))
    except Exception as e:  # noqa: BLE001
        acc.bad(f"make:raises:{env_id}", f"make({env_id!r}) raised {type(e).__name__}: {str(e)[:300]}", rep)
        return acc.result(**info)
    acc.transitions += 2
    acc.count("shipped_ids_instantiated")
    info["make_s"] = round(time.time() - t0, 2)
    e1, e2 = envs
    for e in envs:
        if type(e) is not want_cls:
            acc.bad(f"make:wrong-class:{env_id}", f"make({env_id!r}) built {type(e).__name__}; entry point "
                    f"{espec.entry_point}", rep)
        for k, v in espec.kwargs.items():  # registered arguments visible as same-named attributes
            if k == "generator" and env_id.startswith("Sokoban"):
                continue
            if hasattr(e, k):
                got = getattr(e, k)
                acc.count("registered_kwargs_seen_on_instance")
                if got is not v and not (np.isscalar(v) and got == v):
                    acc.bad(f"make:registered-kwarg-not-used:{env_id}", f"{k}: instance has {got!r}, registered {v!r}", rep)
    if set(espec.kwargs) != set(stored_before) or any(espec.kwargs[k] is not stored_before[k] for k in stored_before):
        acc.bad(f"registry:stored-kwargs-changed:{env_id}", f"stored kwargs now {espec.kwargs!r}", rep)
    if takes_tl and getattr(e1, "time_limit", None) != getattr(e2, "time_limit", None):
        acc.bad(f"make-twice:time_limit-differs:{env_id}", f"{e1.time_limit} then (after an override) {e2.time_limit}", rep)
    # specs
    raised = []
    for nm in ("observation_spec", "action_spec", "reward_spec", "discount_spec"):
        s1, s2 = getattr(e1, nm), getattr(e2, nm)
        acc.transitions += 2
        c1, c2 = spec_canon(s1), spec_canon(s2)
        if c1 != c2:
            acc.bad(f"make-twice:specs-differ:{env_id}", f"{nm}: {str(c1)[:200]} vs {str(c2)[:200]}", rep)
        else:
            acc.count("spec_pairs_structurally_equal")
        try:
            eq = s1 == s2
        except Exception as e:  # noqa: BLE001
            raised.append(f"{nm}: {type(e).__name__}: {str(e)[:120]}")
            continue
        if c1 == c2 and eq is not True and not (isinstance(eq, (bool, np.bool_)) and bool(eq)):
            acc.bad(f"make-twice:spec-eq-false-on-structurally-equal-specs:{env_id}", f"{nm}: `==` gave {eq!r}", rep)
        elif c1 == c2:
            acc.count("spec_pairs_equal_by_library_eq")
    if raised:
        acc.bad(f"make-twice:spec-equality-raises:{env_id}", "; ".join(raised), rep)
    info["specs_eq_raises"] = raised
    # behaviour
    keys = [0, 1, 2, 3]
    actions = _action_sequence(e1.action_spec)
    t0 = time.time()
    r1, r2 = _rollout(e1, actions, keys), _rollout(e2, actions, keys)
    info["jit_s"] = round(time.time() - t0, 2)
    acc.transitions += 2 * len(keys) * (1 + len(actions))
    for t, (a, b) in enumerate(zip(r1, r2)):
        d = _leaves_differ(a, b)
        if d:
            acc.bad(f"make-twice:behaviour-differs:{env_id}", f"jit, keys {keys}, stage {t} "
                    f"({'reset' if t == 0 else 'step ' + str(np.asarray(actions[t - 1]).tolist())}): {d}", rep)
            break
    else:
        acc.count("behaviour_stages_equal", len(r1))
    st = np.asarray(r1[-1][1].step_type)
    info["final_step_types"] = st.tolist()
    t0 = time.time()
    g1, g2 = _eager(e1, actions[0]), _eager(e2, actions[0])
    info["eager_s"] = round(time.time() - t0, 2)
    acc.validated += 2
    acc.transitions += 4
    d = _leaves_differ(g1, g2)
    if d:
        acc.bad(f"make-twice:behaviour-differs:{env_id}", f"eager, key 0: {d}", rep)
    else:
        acc.count("eager_pairs_equal")
    acc.samples.append({"env_id": env_id, "class": type(e1).__name__, "registered_kwargs": sorted(espec.kwargs),
                        "actions": [np.asarray(a).tolist() for a in actions], "keys": keys,
                        "spec_eq_raises": bool(raised)})
    return acc.result(**info)


# ------------------------------------------------------------------------------------------------
def _tasks(tier: str) -> List[Any]:
    import jumanji

    maxlen = 5 if tier == "quick" else 6
    depth = 3 if tier == "quick" else 4
    shipped = sorted(jumanji.registered_environments())
    slow_first = ["BinPack-v2", "PacMan-v1", "RobotWarehouse-v0", "MMST-v0", "FlatPack-v0", "Sokoban-v0"]
    shipped.sort(key=lambda i: (i not in slow_first, i))
    tasks = [(MOD, "shipped_task", dict(model=f"shipped:{i}", env_id=i, tier=tier)) for i in shipped]
    tasks += [(MOD, "history_task", dict(model=f"history:{b}:depth{depth}", base=b, depth=depth))
              for b in ("empty", "shipped")]
    tasks += [(MOD, "parse_task", dict(model=f"parse:len<={maxlen}:first={c!r}", first=c, maxlen=maxlen))
              for c in ALPHABET]
    tasks.append((MOD, "parse_misc_task", dict(model="parse:misc")))
    return tasks


def main(tier: str, seed: int) -> int:
    rep = Reporter(PID, tier, seed)
    rep.assumptions += [
        "id strings: all strings of length <= 5 (quick) / 6 (thorough) over {a,B,1,0,_,-,v,:,.,space,/}, all strings "
        "of length <= 5 containing a newline over that alphabet + newline, names of length <= 3 x 11 versions up to "
        "10**100; non-ASCII ids (unicode digits/letters are accepted by \\d/\\w) are reported, not judged",
        "rejected/refused means ValueError, as the docstrings of parse_env_id and _check_registration_is_allowed say",
        "registry histories: every sequence of <= 3 (quick) / 4 (thorough) of 11 operations from the empty and from the "
        "shipped registry; stub environments record their constructor arguments",
        "Sokoban-v0 is made with generator=ToyGenerator() (dataset needs the network; conceded by the property)",
        "identical behaviour of two makes = equal (state, timestep) leaves for reset keys 0..3 and four fixed actions "
        "under jit plus eager reset/step for key 0 (ints exact, floats rtol 1e-5)",
        "VERIF_SEED changes nothing in this check",
    ]
    run_tasks(rep, _tasks(tier))
    rep.require_positive("malformed_rejected", "wellformed_accepted", "versionless_ids", "roundtrip_canonical",
                         "noncanonical_numerals", "newline_ids", "large_versions", "name_version_roundtrips",
                         "registrations_accepted", "duplicate_registrations_refused", "duplicate_with_other_class_refused",
                         "malformed_registrations_refused", "makes_with_override", "plain_make_after_override_unaffected",
                         "unknown_raises", "unknown_raises_listing_stub_ids", "shipped_ids_instantiated",
                         "shipped_ids_roundtrip", "shipped_makes_with_override", "behaviour_stages_equal",
                         "spec_pairs_structurally_equal", "eager_pairs_equal")
    rep.coverage["exhaustive"] = not rep.errors
    return rep.finish()


def replay(doc: Dict[str, Any]) -> int:
    r = doc.get("replay", doc)
    want = r.get("signature")
    kind = r.get("kind")
    if kind in ("parse", "parse-nonascii"):
        s = r["id"]
        try:
            print(f"parse_env_id({s!r}) = {registration.parse_env_id(s)!r}")
        except Exception as e:  # noqa: BLE001
            print(f"parse_env_id({s!r}) raised {type(e).__name__}: {e}")
        print(f"reference: {ref_parse(s)!r}")
        if kind == "parse-nonascii":
            res = parse_misc_task("replay")
            sigs = {v.signature for v in res["violations"] if v.replay.get("id") == s}
        else:
            sigs = {sig for sig, _ in check_id(s)[1]}
    elif kind == "roundtrip":
        name, N = r["name"], int(r["version"])
        s = registration.get_env_id(name, N)
        print(f"get_env_id({name!r}, {N}) = {s!r}")
        sigs = set()
        try:
            got = registration.parse_env_id(s)
            print(f"parse_env_id({s!r}) = {got!r}")
            if s != name + "-v" + str(N):
                sigs.add("get_env_id:wrong-format")
            elif got != (name, N):
                sigs.add("parse_env_id:wrong-name-or-version")
        except Exception as e:  # noqa: BLE001
            print(f"parse_env_id({s!r}) raised {type(e).__name__}: {e}")
            sigs.add("parse_env_id:rejects-wellformed-id")
    elif kind == "history":
        probs = run_history(r["base"], list(r["ops"]), verbose=True)
        for sig, msg in probs:
            print(f"  {sig}: {msg}")
        sigs = {sig for sig, _ in probs}
    elif kind == "shipped":
        res = shipped_task("replay", r["env_id"])
        for v in res["violations"]:
            print(f"  {v.signature}: {v.message}")
        sigs = {v.signature for v in res["violations"]}
    else:
        print(f"unknown replay kind {kind!r}")
        return 2
    print(f"replay: signatures reproduced: {sorted(sigs)}")
    return 1 if (want in sigs or (want is None and sigs)) else 0
