"""C01 — everything an environment emits conforms to the specs it declares (DESIGN §4 C01).

Explored: every reset of the key window and every edge (all in-spec actions, legal or not, up to
and including terminal steps) of every catalogue configuration; default-size configurations
additionally with the step counter injected just below the time limit so that the boundary step of
long limits is reached; PacMan additionally with the player injected on every corridor cell.
Oracle: mc.speccheck (independent of Spec.validate) + agreement with Spec.validate on the rows it
flags and on one row per batch; generate_value() of the action spec is a member and is stepped.
"""
from __future__ import annotations

from typing import Any, Dict, List

from mc import boot  # noqa: F401

import numpy as np

from mc import catalog, speccheck
from mc.engine import Batch, Monitor, t_index
from mc.graphprops import run_property

PID = "C01"


def _validate_raises(spec: Any, value: Any) -> str | None:
    import jax
    import jax.numpy as jnp

    try:
        spec.validate(jax.tree_util.tree_map(jnp.asarray, value))
        return None
    except Exception as e:  # noqa: BLE001
        return f"{type(e).__name__}: {str(e)[:160]}"


class SpecMonitor(Monitor):
    def __init__(self, cfg: catalog.Cfg, env: Any):
        self.cfg, self.env, self.fam = cfg, env, cfg.family
        self.obs_spec = env.observation_spec
        self.n_validate = 0

    def _check(self, ts: Any, nb: int, ids_of, where: str) -> None:
        ex = self.ex
        probs: List[Any] = []
        for path, kind, rows, detail in speccheck.check(self.obs_spec, ts.observation, nb, "observation"):
            probs.append((path, kind, rows, detail))
        for nm, spec in (("reward", self.env.reward_spec), ("discount", self.env.discount_spec)):
            for path, kind, rows, detail in speccheck.check(spec, getattr(ts, nm), nb, nm):
                probs.append((path, kind, rows, detail))
        for path, kind, rows, detail in probs:
            sig = f"{self.fam}:{path}:{kind}"
            if rows is None:
                node, act = ids_of(None)
                ex.violation(sig, f"{where}: {path}: {detail}", node, act)
            else:
                idx = np.argwhere(rows)
                for ix in idx[:3]:
                    node, act = ids_of(tuple(int(v) for v in ix))
                    ex.violation(sig, f"{where}: {path}: {detail}", node, act)

    def on_roots(self, roots: Batch) -> None:
        if getattr(self.ex, "injected_roots", False):
            return
        self._check(roots.ts, 1, lambda ix: (int(roots.ids[0 if ix is None else ix[0]]), None), "root (reset or injected state)")
        # agreement with the library's own validator on the first root
        ts0 = t_index(roots.ts, 0)
        err = _validate_raises(self.obs_spec, ts0.observation)
        self.n_validate += 1
        if err and not self.ex.n_viol_by_sig:
            self.ex.violation(f"{self.fam}:observation:validate-rejects-reset", f"observation_spec.validate raised {err} "
                              "although the independent membership test accepts", int(roots.ids[0]))
        self.ex.count("reset_observations", len(roots))

    def on_edges(self, parents: Batch, actions: np.ndarray, children: Batch, enabled: np.ndarray) -> None:
        self._check(children.ts, 2, lambda ix: (int(parents.ids[0 if ix is None else ix[0]]),
                                                 0 if ix is None else int(ix[1])), "step")
        st = np.asarray(children.ts.step_type)
        self.ex.count("step_observations", int(enabled.sum()))
        self.ex.count("terminal_observations", int(((st == 2) & enabled).sum()))
        if self.n_validate < 3:
            ts0 = t_index(children.ts, (0, 0))
            err = _validate_raises(self.obs_spec, ts0.observation)
            self.n_validate += 1
            if err and not self.ex.n_viol_by_sig:
                self.ex.violation(f"{self.fam}:observation:validate-rejects-step",
                                  f"observation_spec.validate raised {err} although the independent "
                                  "membership test accepts", int(parents.ids[0]), 0)


def _pre(ex: Any) -> None:
    """generate_value() of the action spec is a member of the spec and accepted by step; abstract
    evaluation of reset/step has the spec's structure, shapes and dtypes (all inputs of that shape)."""
    import jax
    import jax.numpy as jnp

    env, fam = ex.env, ex.model_name
    fam = catalog.BY_NAME[ex.model_name.split("@")[0]].family
    aspec = env.action_spec
    a = aspec.generate_value()
    probs = speccheck.check(aspec, np.asarray(a), 0, "action")
    err = _validate_raises(aspec, a)
    if probs or err:
        ex.violations.append(_v(ex, f"{fam}:action_spec.generate_value:not-a-member",
                                f"generate_value()={np.asarray(a).tolist()} problems={probs} validate={err}"))
    key = jax.random.PRNGKey(ex.keys[0] if ex.keys else 0)
    try:
        s_sh, ts_sh = jax.eval_shape(env.reset, key)
        s2_sh, ts2_sh = jax.eval_shape(env.step, s_sh, jax.ShapeDtypeStruct(np.shape(a), np.asarray(a).dtype))
    except Exception as e:  # noqa: BLE001
        ex.violations.append(_v(ex, f"{fam}:step-rejects-generate_value", f"{type(e).__name__}: {str(e)[:300]}"))
        return
    for where, tsh in (("reset", ts_sh), ("step", ts2_sh)):
        zeros = jax.tree_util.tree_map(lambda x: np.zeros(x.shape, x.dtype), tsh)
        for path, kind, rows, detail in speccheck.check(env.observation_spec, zeros.observation, 0, "observation"):
            if kind in ("structure", "dtype", "shape"):
                ex.violations.append(_v(ex, f"{fam}:{path}:{kind}", f"eval_shape({where}): {detail}"))
        for nm, spec in (("reward", env.reward_spec), ("discount", env.discount_spec)):
            for path, kind, rows, detail in speccheck.check(spec, getattr(zeros, nm), 0, nm):
                if kind in ("structure", "dtype", "shape"):
                    ex.violations.append(_v(ex, f"{fam}:{path}:{kind}", f"eval_shape({where}): {detail}"))
    ex.count("generate_value_checked", 1)


def _v(ex: Any, sig: str, msg: str) -> Any:
    from mc.report import Violation

    return Violation(PID, ex.model_name, sig, msg, {"model": ex.model_name, "ctor": ex.ctor, "signature": sig,
                                                    "kind": "static", "property": PID})


class GenerateValueMonitor(Monitor):
    """Steps generate_value() from every root (it is part of the alphabet, so the edge exists in the
    graph; this monitor only makes the coverage explicit)."""

    def __init__(self, env: Any):
        self.a = np.asarray(env.action_spec.generate_value())

    def on_edges(self, parents: Batch, actions: np.ndarray, children: Batch, enabled: np.ndarray) -> None:
        hit = [i for i in range(len(actions)) if np.array_equal(actions[i], self.a)]
        if hit:
            self.ex.count("generate_value_edges", int(enabled[:, hit[0]].sum()))


def plan(cfg: catalog.Cfg, env: Any, tier: str) -> Dict[str, Any]:
    return dict(monitors=[SpecMonitor(cfg, env), GenerateValueMonitor(env)], pre=_pre)


def main(tier: str, seed: int) -> int:
    cfgs = catalog.select(tier)
    tasks = []
    from mc.checks import horizon

    tasks += horizon.tasks(PID, tier, seed)
    from mc.checks import scenarios

    tasks += scenarios.tasks(PID, tier, seed)
    rep = run_property(
        PID, tier, seed, cfgs,
        assumptions=[
            "reset keys limited to the per-configuration window PRNGKey(0..K-1)",
            "default-size configurations explored to the listed depth, plus step-counter injection at "
            "time_limit-2/-1 (models named <cfg>@horizon)",
            "NaN counts as outside any bounded interval",
        ],
        require=["reset_observations", "step_observations", "terminal_observations", "generate_value_checked",
                 "generate_value_edges"],
        extra_tasks=tasks,
    )
    return rep.finish()


def replay(doc: Dict[str, Any]) -> int:
    from mc.graphprops import replay as _r

    return _r(PID, doc)
