"""C13 — AutoResetWrapper resets exactly when an episode ends, with a fresh instance (DESIGN §4 C13).

Explored (per model = short-episode configuration of one of the 23 environment families, and per
`next_obs_in_extras` setting b): the transition graph of the *wrapped* environment
`W = AutoResetWrapper(env, next_obs_in_extras=b)` from `W.reset(PRNGKey(0..K-1))`, every action of
the alphabet on every state to depth D under `jit(vmap(vmap(W.step)))` (mc.engine.Explorer on W,
`post_terminal=D` so the exploration continues through the automatic resets).  Joint alphabets with
>= 50 actions (quick tier: > 30) are restricted to a deterministic subset of <= 12 actions made of
actions that continue and actions that end the episode at the first root (recorded in the evidence).

Oracle on every edge (s, a), computed side by side with the bare env under jit(vmap):
(e', t') = env.step(s, a).  t' not LAST: W.step(s, a) == (e', t') on every leaf (+ extras
`next_obs` == t'.observation when b).  t' LAST: the returned state == env.reset(k).state for
k = split(e'.key)[0] (as implemented) or split(e'.key)[1] (also accepted); nothing else is accepted
(not e'.key itself, not an earlier reset key); observation == that reset's observation; step_type,
reward, discount, extras == t''s (+ `next_obs` == t'.observation, the true terminal observation).
`W.reset(key)` == env.reset(key) (+ next_obs == observation when b); the wrapper's four specs are the
env's (same object or structurally identical; `==` on specs is not used, see DESIGN §5 #8).

Path properties, decided on the explored graph by enumerating *all* action sequences of length D from
every root (the graph is closed under "all actions to depth D", so every such sequence is a path of
it): the reset keys used along a path — the root key followed by the key of every automatic reset —
are pairwise distinct.  Fresh instances: a configuration is classified *random* iff the instance
(reset state minus its `key` leaves) differs somewhere over the reset-key window PRNGKey(0..15).
Decision taken for the oracle: two draws of a random generator over a small instance space may
legitimately coincide (Minesweeper 4x3 with 11 mines has 12 instances), so "instances along a path are
not all identical" is not demanded of every single path; it is demanded that from every root of a
random configuration some explored path shows an instance change (the replay defect — every automatic
reset reproducing the same instance — makes that impossible), and the number of paths whose instances
are all identical is reported.

Program transformations: the exploration itself runs W.step under jit(vmap(vmap)); a deterministic
(seed-rotated, most episode boundaries first) subset of full-depth paths is then replayed with
jit(lax.scan(W.step)) along the path, jit(vmap(W.step)) on batches of 2-3 different paths at once and plain
un-jitted per-call W.reset/W.step; the eager run is checked against the oracle again (bare env through
per-call jit(env.step)/jit(env.reset)) and all modes must agree step by step (ints exact, floats 1e-5).
Python-scalar state leaves (FlatPack's num_blocks, ...) are canonicalised with jnp.asarray before
comparing (DESIGN §2), otherwise an eager reset's weak-typed int64 would differ from jit's int32.
Nothing enumerated or counted depends on the wall clock or on VERIF_SEED (the seed only rotates which
explored paths are replayed).
"""
from __future__ import annotations

import hashlib
import time
from typing import Any, Dict, List, Optional, Sequence, Tuple

from mc import boot  # noqa: F401

import numpy as np

from mc import catalog
from mc.report import Reporter, Violation
from mc.runner import run_tasks

PID = "C13"
NEXT_OBS = "next_obs"
RANDOM_WINDOW = 16

# name -> (family, constructor or None (= catalogue entry of that name), options)
#   dq/dt: depth quick/thorough; kq/kt: reset keys; quick: part of the quick tier; heavy: expensive eager calls
RW_TINY = catalog.RW_TINY
MODELS: Dict[str, Dict[str, Any]] = {
    "game2048-2x2": dict(fam="game_2048", dq=6, dt=8),
    "graphcol-4": dict(fam="graph_coloring", dt=5),
    "mines-4x3-11": dict(fam="minesweeper", dt=4),
    "mines-3x3-2": dict(fam="minesweeper", quick=False, dt=4),
    "rubik-2-T1": dict(fam="rubiks_cube", ctor="RubiksCube(G.rubiks_cube.ScramblingGenerator(2, 3), time_limit=1)", dt=3),
    "rubik-3-T2": dict(fam="rubiks_cube", quick=False, dt=4),
    "slide-3-sparse-T3": dict(fam="sliding_tile_puzzle", dq=4, dt=6),
    "sudoku-near": dict(fam="sudoku", dt=4),
    "binpack-5": dict(fam="bin_pack", dq=2, dt=3, kq=1, kt=2, heavy=True),
    "flatpack-1x3-block": dict(fam="flat_pack", dq=4, dt=5),
    "jobshop-2311": dict(fam="job_shop", dt=3),
    "knapsack-4-tight": dict(fam="knapsack", dt=5),
    "tetris-6x5-T1": dict(fam="tetris", dt=3),
    "tetris-4x7-T2": dict(fam="tetris", quick=False, dt=4),
    "cleaner-5x3x2-T3": dict(fam="cleaner", dq=3, dt=4),
    "connector-3x2-T2": dict(fam="connector", ctor="Connector(G.connector.UniformRandomGenerator(3, 2), time_limit=2)",
                             dq=4, dt=4, kq=1, kt=2),
    "cvrp-3-sparse-tight": dict(fam="cvrp", dt=5),
    "lbf-5-fov1-T2": dict(fam="lbf", dq=4, dt=4, kq=1, kt=2),
    "maze-5x5-T2": dict(fam="maze", ctor="Maze(G.maze.RandomGenerator(5, 5), time_limit=2)", dq=4, dt=6),
    "maze-toy-T3": dict(fam="maze", quick=False, dt=6),
    "mmst-12-T1": dict(fam="mmst", dt=3, kq=1, kt=2),
    "mmst-12-T2": dict(fam="mmst", ctor="MMST(G.mmst.SplitRandomGenerator(12, 18, 4, 2, 3, 2), time_limit=2)",
                       quick=False, dt=4, kt=2),
    "mcvrp-6x2": dict(fam="multi_cvrp", dq=5, dt=6, kq=2, kt=3, alphabet="mcvrp-greedy"),
    "pacman-T2": dict(fam="pac_man", ctor="PacMan(time_limit=2)", dq=4, dt=5, kq=1, kt=2, heavy=True),
    "rware-tiny-T2": dict(fam="robot_warehouse",
                          ctor=f"RobotWarehouse(G.robot_warehouse.RandomGenerator({RW_TINY}), time_limit=2)",
                          dq=4, dt=4, kq=1, kt=2, heavy=True),
    "snake-4x4-T1": dict(fam="snake", dt=5),
    "snake-5x2-T3": dict(fam="snake", quick=False, dt=6),
    "sokoban-toy-sparse-T2": dict(fam="sokoban", dq=4, dt=6),
    "tsp-2": dict(fam="tsp", dq=4, dt=6),
    "tsp-4-sparse": dict(fam="tsp", quick=False, dt=5),
}


def model_ctor(name: str) -> str:
    m = MODELS[name]
    return m.get("ctor") or catalog.BY_NAME[name].ctor


# ---------------------------------------------------------------------------------------------
# helpers
# ---------------------------------------------------------------------------------------------
def _digest(b: bytes) -> bytes:
    return hashlib.blake2b(b, digest_size=16).digest()


def _pad_size(m: int, cap: int = 1 << 30) -> int:
    """Bucketed batch sizes (8, 32, 128, ...) so that each function compiles for few shapes."""
    size = 8
    while size < m:
        size *= 4
    return min(size, max(cap, m))


def _is_key_path(path: Any) -> bool:
    last = path[-1] if path else None
    name = getattr(last, "name", None) or getattr(last, "key", None)
    return name == "key"


def instance_bytes(state_np: Any) -> np.ndarray:
    """Row bytes [n, nbytes] of a batched state without its PRNG `key` leaves (= the instance)."""
    import jax

    leaves = jax.tree_util.tree_flatten_with_path(state_np)[0]
    n = np.asarray(leaves[0][1]).shape[0]
    parts = []
    for p, x in leaves:
        if _is_key_path(p):
            continue
        x = np.ascontiguousarray(np.asarray(x))
        if x.dtype == np.bool_:
            x = x.astype(np.uint8)
        parts.append(x.reshape(n, -1).view(np.uint8).reshape(n, -1))
    return np.ascontiguousarray(np.concatenate(parts, axis=1))


def neq_rows(a: Any, b: Any, nlead: int, rtol: float = 1e-5, atol: float = 1e-6) -> Tuple[np.ndarray | None, List[str]]:
    """Compare two batched pytrees leaf by leaf. Returns (mismatch mask over the `nlead` leading dims
    or None when the trees are not even structurally comparable, names of offending leaves)."""
    import jax

    fa, ta = jax.tree_util.tree_flatten_with_path(a)
    fb, tb = jax.tree_util.tree_flatten_with_path(b)
    if ta != tb:
        return None, [f"tree structure differs: {ta} vs {tb}"]
    mask = None
    names: List[str] = []
    for (p, x), (_, y) in zip(fa, fb):
        x, y = np.asarray(x), np.asarray(y)
        nm = jax.tree_util.keystr(p)
        if x.shape != y.shape or x.dtype != y.dtype:
            return None, [f"{nm}: shape/dtype {x.shape} {x.dtype} vs {y.shape} {y.dtype}"]
        if x.dtype.kind == "f":
            d = ~np.isclose(x, y, rtol=rtol, atol=atol, equal_nan=True)
        else:
            d = x != y
        d = d.reshape(d.shape[:nlead] + (-1,)).any(axis=-1)
        if d.any():
            names.append(nm)
        mask = d if mask is None else (mask | d)
    if mask is None:
        mask = np.zeros((), bool)
    return mask, names


def spec_sig(spec: Any) -> Any:
    """Structural signature of a spec tree (no use of Spec.__eq__)."""
    from jumanji import specs

    from mc import speccheck

    if isinstance(spec, specs.Array):
        out: List[Any] = [type(spec).__name__, tuple(spec.shape), str(np.dtype(spec.dtype)), spec.name]
        for attr in ("minimum", "maximum", "num_values"):
            if hasattr(spec, attr):
                v = np.asarray(getattr(spec, attr))
                out.append((attr, v.shape, v.tolist()))
        return tuple(out)
    kids = speccheck.children(spec)
    return (type(spec).__name__, getattr(spec, "name", None), tuple((k, spec_sig(v)) for k, v in sorted(kids.items())))


def expected_extras(extras: Any, obs: Any, b: bool) -> Any:
    out = dict(extras)
    if b:
        out[NEXT_OBS] = obs
    return out


def pick_alphabet(env: Any, keys: Sequence[int], threshold: int, limit: int = 12) -> Tuple[np.ndarray, Dict[str, Any]]:
    """The full action alphabet, or — when it has >= threshold actions — a deterministic subset of
    <= limit actions: evenly spread actions that continue the episode from reset(PRNGKey(keys[0])) and
    evenly spread actions that end it there (illegal / episode-ending)."""
    import jax
    import jax.numpy as jnp

    from mc.engine import all_actions

    A = all_actions(env.action_spec)
    info: Dict[str, Any] = {"alphabet_full": int(len(A))}
    if len(A) < threshold:
        info["alphabet"] = "full"
        return A, info
    s0, _ = jax.jit(env.reset)(jax.random.PRNGKey(int(keys[0])))
    _, ts = jax.jit(jax.vmap(lambda a: env.step(s0, a)))(jnp.asarray(A))
    last = np.asarray(ts.step_type) == 2
    end, cont = np.nonzero(last)[0], np.nonzero(~last)[0]

    def spread(ix: np.ndarray, n: int) -> List[int]:
        if len(ix) <= n:
            return [int(i) for i in ix]
        return [int(ix[j]) for j in np.unique(np.linspace(0, len(ix) - 1, n).round().astype(int))]

    half = limit // 2
    n_end = min(len(end), max(half, limit - len(cont)))
    n_cont = min(len(cont), limit - n_end)
    pick = sorted(set(spread(cont, n_cont) + spread(end, n_end)))
    info.update(alphabet="subset", picked_indices=pick,
                picked_continuing_at_first_root=[i for i in pick if not last[i]],
                picked_ending_at_first_root=[i for i in pick if last[i]],
                full_continuing_at_first_root=int(len(cont)), full_ending_at_first_root=int(len(end)))
    return A[pick], info


def mcvrp_alphabet(env: Any, keys: Sequence[int]) -> Tuple[np.ndarray, Dict[str, Any]]:
    """MultiCVRP episodes need >= 4 cooperative steps: the alphabet is made of the joint actions of a
    greedy mask-following schedule from every root (so that episode ends are reachable within the depth
    bound) plus two actions that are illegal at the first root (both vehicles to the same customer, and
    the out-of-range node index the action spec admits)."""
    import jax
    import jax.numpy as jnp

    from mc.engine import all_actions

    A = all_actions(env.action_spec)
    dt = A.dtype
    step, reset = jax.jit(env.step), jax.jit(env.reset)
    picked: List[Tuple[int, ...]] = []
    lens = []
    for k in keys:
        s, ts = reset(jax.random.PRNGKey(int(k)))
        for t in range(16):
            m = np.asarray(ts.observation.action_mask)
            a, used = [], set()
            for v in range(m.shape[0]):
                c = [j for j in range(1, m.shape[1]) if m[v, j] and j not in used]
                a.append(c[0] if c else 0)
                used.add(a[-1])
            if tuple(a) not in picked:
                picked.append(tuple(a))
            s, ts = step(s, jnp.asarray(a, dt))
            if int(ts.step_type) == 2:
                lens.append(t + 1)
                break
    hi = int(np.asarray(env.action_spec.maximum).max())
    for extra in ((1,) * A.shape[1], (hi,) * A.shape[1]):
        if extra not in picked:
            picked.append(extra)
    picked = picked[:12]
    return np.asarray(picked, dt), {"alphabet_full": int(len(A)), "alphabet": "subset(greedy schedule + 2 illegal)",
                                    "picked_actions": [list(p) for p in picked], "greedy_episode_lengths": lens}


# ---------------------------------------------------------------------------------------------
# side-by-side oracle (bare env, batched under jit)
# ---------------------------------------------------------------------------------------------
class Bare:
    def __init__(self, env: Any, actions: np.ndarray, buckets: Tuple[int, int] = (16, 128)):
        import jax
        import jax.numpy as jnp

        self.env = env
        self.buckets = buckets  # batch sizes env.reset is compiled for
        self.A = jnp.asarray(actions)
        self._step = jax.jit(jax.vmap(lambda s, A: jax.vmap(lambda a: env.step(s, a))(A), in_axes=(0, None)))
        self._reset = jax.jit(jax.vmap(env.reset))
        self._split = jax.jit(jax.vmap(lambda k: jax.random.split(k)))

    def step(self, state_np: Any) -> Tuple[Any, Any]:
        import jax
        import jax.numpy as jnp

        from mc.engine import t_index, t_len, tmap, to_np

        m = t_len(state_np)
        size = _pad_size(m)
        if size > m:
            state_np = tmap(lambda x: np.concatenate([x, np.repeat(x[:1], size - m, axis=0)], axis=0), state_np)
        s2, ts2 = self._step(tmap(jnp.asarray, state_np), self.A)
        s2, ts2 = to_np(s2), to_np(ts2)
        if size > m:
            s2, ts2 = t_index(s2, slice(0, m)), t_index(ts2, slice(0, m))
        return s2, ts2

    def reset(self, keys: np.ndarray) -> Tuple[Any, Any]:
        import jax.numpy as jnp

        from mc.engine import t_concat, t_index, to_np

        n = len(keys)
        small, big = self.buckets
        outs = []
        for c0 in range(0, n, big):
            k = keys[c0:c0 + big]
            size = small if len(k) <= small else big
            kk = np.concatenate([k, np.repeat(k[:1], size - len(k), axis=0)], axis=0) if size > len(k) else k
            s, ts = self._reset(jnp.asarray(kk))
            outs.append(t_index(to_np((s, ts)), slice(0, len(k))))
        return t_concat(outs) if len(outs) > 1 else outs[0]

    def split(self, keys: np.ndarray) -> np.ndarray:
        import jax.numpy as jnp

        n = len(keys)
        size = _pad_size(n, 1 << 20)
        kk = np.concatenate([keys, np.repeat(keys[:1], size - n, axis=0)], axis=0) if size > n else keys
        return np.asarray(self._split(jnp.asarray(kk)))[:n]  # [n, 2, 2]


# ---------------------------------------------------------------------------------------------
# monitor
# ---------------------------------------------------------------------------------------------
from mc.engine import Batch, Monitor  # noqa: E402


class AutoResetMonitor(Monitor):
    name = "c13"

    def __init__(self, env: Any, bare: Bare, b: bool, ctor: str, model: str):
        self.env, self.bare, self.b, self.ctor, self.model = env, bare, b, ctor, model
        self.comp = f"AutoResetWrapper[next_obs_in_extras={b}]"
        self.node_of: Dict[bytes, int] = {}
        self.edges: Dict[Tuple[int, int], Tuple[int, Optional[bytes], Optional[bytes]]] = {}
        self.root_nodes: List[int] = []
        self.root_inst: List[bytes] = []
        self.root_key: List[bytes] = []
        self.path_stats: Dict[str, Any] = {}

    # -- utilities ----------------------------------------------------------------------------
    def _node(self, h: bytes) -> int:
        n = self.node_of.get(h)
        if n is None:
            n = len(self.node_of)
            self.node_of[h] = n
        return n

    def _edge_violation(self, what: str, msg: str, node: int, a: int) -> None:
        self.ex.violation(f"{self.comp}.step:{what}", msg, node, a,
                          extra={"next_obs_in_extras": self.b, "kind": "path"})

    # -- roots --------------------------------------------------------------------------------
    def on_roots(self, roots: Batch) -> None:
        import jax

        from mc.engine import row_bytes

        ex = self.ex
        keys = np.stack([np.asarray(jax.random.PRNGKey(int(k))) for k in ex.keys])
        s0, t0 = self.bare.reset(keys)
        exp = {"state": s0, "step_type": t0.step_type, "reward": t0.reward, "discount": t0.discount,
               "observation": t0.observation, "extras": expected_extras(t0.extras, t0.observation, self.b)}
        got = {"state": roots.state, "step_type": roots.ts.step_type, "reward": roots.ts.reward,
               "discount": roots.ts.discount, "observation": roots.ts.observation, "extras": dict(roots.ts.extras)}
        for part in exp:
            mask, names = neq_rows(got[part], exp[part], 1)
            bad = np.ones(len(keys), bool) if mask is None else np.broadcast_to(mask, (len(keys),))
            for i in np.nonzero(bad)[0][:2]:
                ex.violation(f"{self.comp}.reset:{part}-differs-from-env.reset",
                             f"W.reset(PRNGKey({ex.keys[i]})) {part} != env.reset: {names[:3]}", int(roots.ids[i]),
                             extra={"next_obs_in_extras": self.b, "kind": "path"})
        ex.count("resets_checked", len(keys))
        rb = row_bytes(roots.state)
        ib = instance_bytes(roots.state)
        for i in range(len(keys)):
            self.root_nodes.append(self._node(_digest(rb[i].tobytes())))
            self.root_inst.append(_digest(ib[i].tobytes()))
            self.root_key.append(keys[i].tobytes())

    # -- edges --------------------------------------------------------------------------------
    def on_edges(self, parents: Batch, actions: np.ndarray, children: Batch, enabled: np.ndarray) -> None:
        from mc.engine import row_bytes, t_flatten2, t_index, tmap

        ex, b = self.ex, self.b
        m, nA = enabled.shape
        e2, t2 = self.bare.step(parents.state)  # [m, nA, ...]
        last = np.asarray(t2.step_type) == 2
        cs, cts = children.state, children.ts
        exp_state = tmap(lambda x: np.array(x, copy=True), e2)
        exp_obs = tmap(lambda x: np.array(x, copy=True), t2.observation)
        I, Aix = np.nonzero(last)
        used_key = np.zeros((len(I), 2), np.uint32)
        unmatched = np.zeros(len(I), bool)
        if len(I):
            term_keys = np.asarray(e2.key)[I, Aix]  # [n, 2]
            sp = self.bare.split(term_keys)  # [n, 2, 2]
            child_state_t = tmap(lambda x: x[I, Aix], cs)
            F_s, F_t = self.bare.reset(sp[:, 0])
            used_key[:] = sp[:, 0]
            bad0, _ = neq_rows(child_state_t, F_s, 1)
            bad0 = np.ones(len(I), bool) if bad0 is None else np.broadcast_to(bad0, (len(I),)).copy()
            if bad0.any():
                j = np.nonzero(bad0)[0]
                G_s, G_t = self.bare.reset(sp[j, 1])
                bad1, _ = neq_rows(tmap(lambda x: x[j], child_state_t), G_s, 1)
                bad1 = np.ones(len(j), bool) if bad1 is None else np.broadcast_to(bad1, (len(j),))
                ok1 = j[~bad1]
                if len(ok1):
                    sel = np.nonzero(~bad1)[0]

                    def put(dst: Any, src: Any) -> Any:
                        dst = np.array(dst, copy=True)
                        dst[ok1] = src[sel]
                        return dst

                    F_s = tmap(put, F_s, G_s)
                    F_t = tmap(put, F_t, G_t)
                    used_key[ok1] = sp[ok1, 1]
                    ex.count("terminal_edges_reset_with_second_half_of_split", len(ok1))
                still = j[bad1]
                unmatched[still] = True
                if len(still):
                    # diagnosis only: which wrong key would explain the state?
                    U_s, _ = self.bare.reset(term_keys[still])
                    badu, _ = neq_rows(tmap(lambda x: x[still], child_state_t), U_s, 1)
                    badu = np.ones(len(still), bool) if badu is None else np.broadcast_to(badu, (len(still),))
                    for q, jj in enumerate(still[:3]):
                        what = ("terminal:state-is-reset-of-the-unsplit-terminal-key" if not badu[q]
                                else "terminal:state-is-not-a-reset-from-a-split-of-the-terminal-key")
                        self._edge_violation(what, f"after a LAST step the returned state is not env.reset(k) for "
                                             f"k in split(terminal_state.key); terminal key {term_keys[jj].tolist()}",
                                             int(parents.ids[I[jj]]), int(Aix[jj]))

            def scatter(dst: Any, src: Any) -> Any:
                dst[I, Aix] = src
                return dst

            exp_state = tmap(scatter, exp_state, F_s)
            exp_obs = tmap(scatter, exp_obs, F_t.observation)
        exp = {"state": exp_state, "step_type": t2.step_type, "reward": t2.reward, "discount": t2.discount,
               "observation": exp_obs, "extras": expected_extras(t2.extras, t2.observation, b)}
        got = {"state": cs, "step_type": cts.step_type, "reward": cts.reward, "discount": cts.discount,
               "observation": cts.observation, "extras": dict(cts.extras)}
        skip_state = np.zeros((m, nA), bool)
        if len(I):
            skip_state[I[unmatched], Aix[unmatched]] = True  # already reported above
        for part in exp:
            if part == "extras" and b:
                # report the true-terminal-observation slot separately from the env's own extras
                sub = [("extras.next_obs", got["extras"].get(NEXT_OBS), exp["extras"][NEXT_OBS]),
                       ("extras", {k: v for k, v in got["extras"].items() if k != NEXT_OBS},
                        {k: v for k, v in exp["extras"].items() if k != NEXT_OBS})]
            else:
                sub = [(part, got[part], exp[part])]
            for nm, g, e in sub:
                mask, names = neq_rows(g, e, 2)
                if mask is None:
                    mask = np.ones((m, nA), bool)
                mask = np.broadcast_to(mask, (m, nA)) & enabled
                if nm == "state":
                    mask = mask & ~skip_state
                for kind, sel in (("terminal", mask & last), ("nonterminal", mask & ~last)):
                    for i, a in list(zip(*np.nonzero(sel)))[:3]:
                        self._edge_violation(
                            f"{kind}:{nm}-differs",
                            f"{kind} step: W.step {nm} differs from the oracle "
                            f"({'env.reset(split(key))' if kind == 'terminal' and nm in ('state', 'observation') else 'env.step'}) "
                            f"in {names[:3]}", int(parents.ids[i]), int(a))
        ex.count("terminal_edges", int((last & enabled).sum()))
        ex.count("nonterminal_edges", int((~last & enabled).sum()))
        if b:
            ex.count("next_obs_checked_on_terminal_edges", int((last & enabled).sum()))
        # graph for the path analysis
        rb = row_bytes(t_flatten2(cs))
        inst = {}
        if len(I):
            ib = instance_bytes(tmap(lambda x: x[I, Aix], cs))
            for q in range(len(I)):
                inst[(int(I[q]), int(Aix[q]))] = (used_key[q].tobytes() if not unmatched[q] else None,
                                                  _digest(ib[q].tobytes()))
        prb = row_bytes(parents.state)
        for i in range(m):
            pn = self._node(_digest(prb[i].tobytes()))
            for a in range(nA):
                if not enabled[i, a]:
                    continue
                cn = self._node(_digest(rb[i * nA + a].tobytes()))
                k, ins = inst.get((i, a), (None, None))
                self.edges[(pn, a)] = (cn, k, ins)

    # -- all paths of the explored graph ---------------------------------------------------------
    def analyse_paths(self, D: int, is_random: bool, max_paths: int = 3_000_000) -> Dict[str, Any]:
        ex = self.ex
        nA = ex.nA
        depth = D
        while depth > 1 and len(self.root_nodes) * (nA ** depth) > max_paths:
            depth -= 1
        st = dict(paths=0, path_depth=depth, boundaries_crossed=0, paths_by_boundaries={}, paths_truncated=0,
                  paths_instances_vary=0, paths_instances_all_identical=0, key_repeats=0,
                  roots_with_instance_change=0)
        picks: List[Tuple[bytes, int, int, Tuple[int, ...]]] = []
        seedb = int(ex.seed).to_bytes(8, "little", signed=True)
        self.reset_keys_seen = set()
        for r, root in enumerate(self.root_nodes):
            root_changed = False
            root_had_boundary = False
            stack = [(root, (self.root_key[r],), (self.root_inst[r],), ())]
            while stack:
                node, hist, insts, acts = stack.pop()
                if len(acts) == depth:
                    nb = len(hist) - 1
                    st["paths"] += 1
                    st["boundaries_crossed"] += nb
                    st["paths_by_boundaries"][nb] = st["paths_by_boundaries"].get(nb, 0) + 1
                    if nb >= 1:
                        root_had_boundary = True
                        if len(set(insts)) > 1:
                            st["paths_instances_vary"] += 1
                            root_changed = True
                        else:
                            st["paths_instances_all_identical"] += 1
                    pr = hashlib.sha1(seedb + bytes([min(nb, 3)]) + repr((r, acts)).encode()).digest()[:6]
                    picks.append((bytes([255 - min(nb, 3)]) + pr, r, nb, acts))
                    if len(picks) > 4096:
                        picks.sort()
                        del picks[64:]
                    continue
                for a in range(nA - 1, -1, -1):
                    e = self.edges.get((node, a))
                    if e is None:
                        st["paths_truncated"] += 1
                        continue
                    cn, k, ins = e
                    if ins is None:
                        stack.append((cn, hist, insts, acts + (a,)))
                        continue
                    if k is not None:
                        self.reset_keys_seen.add(k)
                        if k in hist:
                            st["key_repeats"] += 1
                            if st["key_repeats"] <= 3:
                                self._path_violation(
                                    "reset-key-repeats-along-path",
                                    f"automatic reset number {len(hist)} on this path uses a reset key already used "
                                    f"on it (position {hist.index(k)}; 0 = the root key): "
                                    f"{np.frombuffer(k, np.uint32).tolist()}", r, acts + (a,))
                    stack.append((cn, hist + (k if k is not None else b"?%d" % len(hist),), insts + (ins,), acts + (a,)))
            if root_changed:
                st["roots_with_instance_change"] += 1
            elif is_random and root_had_boundary:
                self._path_violation(
                    "random-generator-replays-the-same-instance-after-every-auto-reset",
                    f"generator is random over the key window, yet on every explored path from root key "
                    f"{ex.keys[r]} all automatic resets reproduce the root's instance", r, ())
        picks.sort()
        self.picks = picks[:64]
        st["distinct_auto_reset_keys"] = len(self.reset_keys_seen)
        self.path_stats = st
        return st

    def _path_violation(self, what: str, msg: str, r: int, acts: Tuple[int, ...]) -> None:
        ex = self.ex
        sig = f"{self.comp}:{what}"
        n = ex.n_viol_by_sig.get(sig, 0)
        ex.n_viol_by_sig[sig] = n + 1
        if n >= 3:
            return
        doc = {"model": ex.model_name, "ctor": self.ctor, "property": PID, "signature": sig, "kind": "path",
               "next_obs_in_extras": self.b, "reset_key_seed": int(ex.keys[r]),
               "actions": [np.asarray(ex.actions[a]).tolist() for a in acts], "action_indices": list(acts)}
        ex.violations.append(Violation(PID, ex.model_name, sig, msg, doc))


# ---------------------------------------------------------------------------------------------
# plain-loop checker (eager validation and --replay)
# ---------------------------------------------------------------------------------------------
def check_path(env: Any, b: bool, seed_key: int, actions: Sequence[Any], eager: bool = True,
               verbose: bool = False) -> Tuple[List[str], List[Any]]:
    """Run W.reset / W.step along one path with the plain per-call API (un-jitted when eager) and
    check every step against the bare env (per-call jit(env.step) / jit(env.reset)).
    Returns (signatures of failures, [(state, timestep)] along the path as numpy)."""
    import jax
    import jax.numpy as jnp

    from jumanji.wrappers import AutoResetWrapper

    from mc.engine import leaf_diff, to_np

    W = AutoResetWrapper(env, next_obs_in_extras=b)
    comp = f"AutoResetWrapper[next_obs_in_extras={b}]"
    wstep = W.step if eager else jax.jit(W.step)
    wreset = W.reset if eager else jax.jit(W.reset)
    estep, ereset = _jitted(env)
    sigs: List[str] = []
    dt = np.asarray(env.action_spec.generate_value()).dtype
    key = jax.random.PRNGKey(int(seed_key))
    s, ts = wreset(key)
    e0, t0 = ereset(key)

    def parts(state: Any, t: Any) -> Dict[str, Any]:
        return {"state": state, "step_type": t.step_type, "reward": t.reward, "discount": t.discount,
                "observation": t.observation, "extras": dict(t.extras)}

    def cmp(got: Dict[str, Any], exp: Dict[str, Any], where: str, prefix: str) -> None:
        for part in exp:
            g, e = got[part], exp[part]
            subs = [(part, g, e)]
            if part == "extras" and b:
                subs = [("extras.next_obs", g.get(NEXT_OBS), e[NEXT_OBS]),
                        ("extras", {k: v for k, v in g.items() if k != NEXT_OBS},
                         {k: v for k, v in e.items() if k != NEXT_OBS})]
            for nm, gg, ee in subs:
                d = leaf_diff(to_np(jax.tree_util.tree_map(jnp.asarray, gg)),
                              to_np(jax.tree_util.tree_map(jnp.asarray, ee)))
                if d:
                    sig = f"{comp}{prefix}{nm}-differs" + ("-from-env.reset" if where == "reset" else "")
                    sigs.append(sig)
                    if verbose:
                        print(f"    MISMATCH {sig}: {d[:3]}")

    exp0 = parts(e0, t0)
    exp0["extras"] = expected_extras(t0.extras, t0.observation, b)
    cmp(parts(s, ts), exp0, "reset", ".reset:")
    out = [to_np(jax.tree_util.tree_map(jnp.asarray, (s, ts)))]
    hist = [np.asarray(key).tobytes()]
    for n, a in enumerate(actions):
        a = jnp.asarray(np.asarray(a, dtype=dt))
        e2, t2 = estep(s, a)
        s2, ts2 = wstep(s, a)
        if int(t2.step_type) != 2:
            exp = parts(e2, t2)
            exp["extras"] = expected_extras(t2.extras, t2.observation, b)
            cmp(parts(s2, ts2), exp, "step", ".step:nonterminal:")
        else:
            k0, k1 = jax.random.split(e2.key)
            used = None
            for k in (k0, k1):
                F_s, F_t = ereset(k)
                if not leaf_diff(to_np(jax.tree_util.tree_map(jnp.asarray, s2)), to_np(F_s)):
                    used = k
                    break
            if used is None:
                U_s, _ = ereset(e2.key)
                if not leaf_diff(to_np(jax.tree_util.tree_map(jnp.asarray, s2)), to_np(U_s)):
                    sigs.append(f"{comp}.step:terminal:state-is-reset-of-the-unsplit-terminal-key")
                else:
                    sigs.append(f"{comp}.step:terminal:state-is-not-a-reset-from-a-split-of-the-terminal-key")
                F_s, F_t = ereset(k0)
                exp = parts(s2, t2)  # state already reported
            else:
                exp = parts(F_s, t2)
                kb = np.asarray(used).tobytes()
                if kb in hist:
                    sigs.append(f"{comp}:reset-key-repeats-along-path")
                hist.append(kb)
            exp["observation"] = F_t.observation
            exp["extras"] = expected_extras(t2.extras, t2.observation, b)
            cmp(parts(s2, ts2), exp, "step", ".step:terminal:")
        if verbose:
            print(f"  t={n + 1} action={np.asarray(a).tolist()} env.step_type={int(t2.step_type)} "
                  f"W.step_type={int(ts2.step_type)} reward={np.asarray(ts2.reward).tolist()} "
                  f"auto_resets_so_far={len(hist) - 1}")
        s, ts = s2, ts2
        out.append(to_np(jax.tree_util.tree_map(jnp.asarray, (s, ts))))
    return sigs, out


_JIT_CACHE: Dict[int, Any] = {}


def _jitted(env: Any) -> Tuple[Any, Any]:
    import jax

    if id(env) not in _JIT_CACHE:
        _JIT_CACHE[id(env)] = (jax.jit(env.step), jax.jit(env.reset), env)
    return _JIT_CACHE[id(env)][:2]


class Modes:
    """jit(lax.scan(W.step)) along each path (the reference trajectory) vs jit(vmap(W.step)) over a batch
    of 2-3 different paths (vs the plain eager trajectory of path 0 when given); compiled once per
    (env, setting)."""

    def __init__(self, env: Any, b: bool):
        import jax

        from jumanji.wrappers import AutoResetWrapper

        self.env, self.b = env, b
        W = self.W = AutoResetWrapper(env, next_obs_in_extras=b)
        self.dt = np.asarray(env.action_spec.generate_value()).dtype
        self.jreset = jax.jit(W.reset)
        self.vstep = jax.jit(jax.vmap(W.step))

        def roll(s0: Any, aa: Any) -> Any:
            def body(s: Any, a: Any) -> Any:
                s2, ts2 = W.step(s, a)
                return s2, (s2, ts2)

            return jax.lax.scan(body, s0, aa)

        self.jroll = jax.jit(roll)

    def check(self, seeds: Sequence[int], paths: Sequence[Sequence[Any]],
              eager_ref: Optional[List[Any]] = None) -> List[str]:
        import jax
        import jax.numpy as jnp

        from mc.engine import leaf_diff, t_index, tmap, to_np

        P, D = len(paths), len(paths[0])
        acts = jnp.asarray(np.asarray(paths, dtype=self.dt))  # [P, D, ...]
        keys = [jax.random.PRNGKey(int(k)) for k in seeds]
        fails: List[str] = []
        ref: List[List[Any]] = []
        roots = []
        for p in range(P):  # scan along each path
            s0, t0 = self.jreset(keys[p])
            roots.append((s0, t0))
            sD, ys = self.jroll(s0, acts[p])
            ys, sD = to_np(ys), to_np(sD)
            traj = [to_np((s0, t0))] + [t_index(ys, t) for t in range(D)]
            d = leaf_diff(sD, traj[D][0])
            if d:
                fails.append(f"scan-carry-vs-scan-output path={p}: {d[:3]}")
            ref.append(traj)
        if eager_ref is not None:
            for t in range(len(eager_ref)):
                d = leaf_diff(eager_ref[t], ref[0][t])
                if d:
                    fails.append(f"eager-vs-scan t={t}: {d[:3]}")
                    break
        S, TS = tmap(lambda *xs: jnp.stack(xs), *roots)  # vmap over the batch of different paths
        for t in range(D):
            S, TS = self.vstep(S, acts[:, t])
            got = to_np((S, TS))
            for p in range(P):
                d = leaf_diff(t_index(got, p), ref[p][t + 1])
                if d:
                    fails.append(f"vmap-vs-scan path={p} t={t + 1}: {d[:3]}")
            if fails:
                break
        return fails


def modes_check(env: Any, b: bool, seeds: Sequence[int], paths: Sequence[Sequence[Any]],
                eager_ref: Optional[List[Any]] = None) -> List[str]:
    return Modes(env, b).check(seeds, paths, eager_ref)


# ---------------------------------------------------------------------------------------------
# worker
# ---------------------------------------------------------------------------------------------
def run_model(model: str, tier: str, seed: int) -> Dict[str, Any]:
    import jax

    from jumanji.wrappers import AutoResetWrapper

    from mc.engine import Explorer, row_bytes, to_np

    t_start = time.time()
    opts = MODELS[model]
    ctor = model_ctor(model)
    env = eval(ctor, catalog.namespace())  # noqa: S307
    quick = tier == "quick"
    heavy = bool(opts.get("heavy"))
    keys = list(range(opts.get("kq", 2) if quick else opts.get("kt", 4)))
    D = opts.get("dq", 3) if quick else opts.get("dt", opts.get("dq", 3) + 1)
    if opts.get("alphabet") == "mcvrp-greedy":
        actions, ainfo = mcvrp_alphabet(env, keys)
    else:
        actions, ainfo = pick_alphabet(env, keys, threshold=31 if quick else 50)
    nA = len(actions)
    if not quick:
        while D > 3 and len(keys) * nA ** D > 400_000:
            D -= 1
    bare = Bare(env, actions, buckets=(16, 16) if heavy else (16, 128))
    # is the generator random over the key window?
    wk = np.stack([np.asarray(jax.random.PRNGKey(k)) for k in range(RANDOM_WINDOW)])
    ws, _ = bare.reset(wk)
    ib = instance_bytes(ws)
    n_inst = len({ib[i].tobytes() for i in range(len(wk))})
    is_random = n_inst > 1
    res: Dict[str, Any] = {
        "model": model, "family": opts["fam"], "ctor": ctor, "depth": D, "reset_keys": keys, "n_actions": nA,
        "generator_random_over_key_window": is_random, "distinct_instances_in_key_window": n_inst,
        "states": 0, "transitions": 0, "validated": 0, "violations": [], "vacuity": {}, "samples": [],
        "closed": True, "per_setting": {},
    }
    res.update(ainfo)
    vac = res["vacuity"]

    def bump(k: str, n: int) -> None:
        vac[k] = vac.get(k, 0) + int(n)

    # specs
    for b in (False, True):
        W = AutoResetWrapper(env, next_obs_in_extras=b)
        for nm in ("observation_spec", "action_spec", "reward_spec", "discount_spec"):
            ws_, es_ = getattr(W, nm), getattr(env, nm)
            if ws_ is es_:
                bump("specs_same_object", 1)
            elif spec_sig(ws_) == spec_sig(es_):
                bump("specs_structurally_equal", 1)
            else:
                sig = f"AutoResetWrapper.{nm}:differs-from-wrapped-env"
                res["violations"].append(Violation(PID, model, sig, f"{spec_sig(ws_)} vs {spec_sig(es_)}",
                                                   {"model": model, "ctor": ctor, "kind": "specs", "signature": sig,
                                                    "next_obs_in_extras": b, "property": PID}))
            bump("specs_checked", 1)

    n_eager_want = 1 if (quick or heavy) else 2  # fixed counts: nothing here may depend on the wall clock
    for b in (False, True):
        W = AutoResetWrapper(env, next_obs_in_extras=b)
        mon = AutoResetMonitor(env, bare, b, ctor, model)
        ex = Explorer(W, model, PID, keys=keys, actions=actions, monitors=[mon], max_depth=D, post_terminal=D + 1,
                      max_states=60_000 if quick else 400_000, max_transitions=600_000 if quick else 4_000_000,
                      seed=seed, ctor=ctor, eager_max_paths=0, chunk_rows=(8 if heavy else 32) * nA)
        r = ex.run()
        # `depth>D` is the intended bound, not a cap on the enumeration
        bounded_ok = (r["cap"] is None) or str(r["cap"]).startswith("depth>")
        st = mon.analyse_paths(D, is_random)
        for v in ex.violations:
            if v not in r["violations"]:
                r["violations"].append(v)
        for v in r["violations"]:
            v.replay.setdefault("next_obs_in_extras", b)
            v.replay.setdefault("kind", "path")
        res["violations"] += r["violations"]
        res["states"] += r["states"]
        res["transitions"] += r["transitions"]
        res["validated"] += r["validated"]
        for k, v in r["vacuity"].items():
            bump(k, v)
        bump("boundaries_crossed", st["boundaries_crossed"])
        bump("paths_enumerated", st["paths"])
        bump("paths_crossing_2_or_more_boundaries", sum(n for nb, n in st["paths_by_boundaries"].items() if nb >= 2))
        bump("paths_instances_vary", st["paths_instances_vary"])
        bump("distinct_auto_reset_keys", st["distinct_auto_reset_keys"])
        if r.get("error"):
            res["error"] = r["error"]
        if not bounded_ok or st["paths_truncated"]:
            res["closed"] = False
        # --- replay under per-call jit / vmap / scan / eager ------------------------------------
        picks = mon.picks
        modes = Modes(env, b)
        n_modes = 3 if heavy else (6 if quick else 18)
        chosen = picks[:n_modes]
        t0 = time.time()
        n_eager = 0
        groups = [chosen[i:i + 3] for i in range(0, len(chosen), 3)]
        if len(groups) >= 2 and len(groups[-1]) == 1:  # batches of 2-3 paths
            groups[-2], groups[-1] = groups[-2][:2], groups[-2][2:] + groups[-1]
        for g in groups:
            seeds = [keys[r_] for _, r_, _, _ in g]
            paths = [[np.asarray(actions[a]).tolist() for a in acts] for _, _, _, acts in g]
            eager_ref = None
            if n_eager < n_eager_want and (b or not heavy):
                p0 = paths[0][: (2 if heavy else len(paths[0]))]
                sigs, traj = check_path(env, b, seeds[0], p0, eager=True)
                n_eager += 1
                for sg in sorted(set(sigs)):
                    res["violations"].append(Violation(
                        PID, model, sg, "plain un-jitted per-call W.reset/W.step disagrees with the oracle on an "
                        "explored path", {"model": model, "ctor": ctor, "kind": "path", "signature": sg,
                                          "next_obs_in_extras": b, "reset_key_seed": int(seeds[0]), "actions": p0,
                                          "property": PID}))
                if not sigs:
                    res["validated"] += 1
                    bump("eager_paths_validated", 1)
                    bump("eager_boundaries_crossed", sum(
                        int(np.asarray(t[1].step_type) == 2) for t in traj[1:]))
                eager_ref = traj
            fails = modes.check(seeds, paths, eager_ref)
            bump("mode_replay_paths", len(paths))
            bump("mode_replay_boundaries", sum(nb for _, _, nb, _ in g))
            if fails:
                sig = f"AutoResetWrapper[next_obs_in_extras={b}].step:jit-vmap-scan-eager-disagree"
                res["violations"].append(Violation(
                    PID, model, sig, f"execution modes disagree on explored paths: {fails[:3]}",
                    {"model": model, "ctor": ctor, "kind": "modes", "signature": sig, "next_obs_in_extras": b,
                     "reset_key_seeds": [int(s) for s in seeds], "paths": paths, "property": PID}))
        t_modes = time.time() - t0
        res["per_setting"][str(b)] = {
            "replay_s": round(t_modes, 2),
            "states": r["states"], "transitions": r["transitions"], "terminal_edges": r["terminal_edges"],
            "cap": r["cap"], "explore_s": r["explore_s"], "paths": st["paths"], "path_depth": st["path_depth"],
            "paths_by_boundaries": st["paths_by_boundaries"], "paths_truncated": st["paths_truncated"],
            "paths_instances_all_identical": st["paths_instances_all_identical"],
            "paths_instances_vary": st["paths_instances_vary"],
            "roots_with_instance_change": st["roots_with_instance_change"],
            "distinct_auto_reset_keys": st["distinct_auto_reset_keys"], "eager_paths": n_eager,
            "mode_replay_paths": len(chosen),
        }
        if picks:
            _, r_, nb, acts = picks[0]
            res["samples"].append({"model": model, "next_obs_in_extras": b, "reset_key_seed": keys[r_],
                                   "actions": [np.asarray(actions[a]).tolist() for a in acts],
                                   "auto_resets_on_path": nb})
    res["total_s"] = round(time.time() - t_start, 2)
    return res


# ---------------------------------------------------------------------------------------------
# entry points
# ---------------------------------------------------------------------------------------------
def models_for(tier: str) -> List[str]:
    import os

    only = [m for m in os.environ.get("VERIF_MODELS", "").split(",") if m]  # development knob (subset => exit 2)
    return [m for m, o in MODELS.items() if (m in only if only else (tier != "quick" or o.get("quick", True)))]


def main(tier: str, seed: int) -> int:
    rep = Reporter(PID, tier, seed)
    names = models_for(tier)
    cost = {"binpack-5": 9, "pacman-T3": 8, "rware-tiny-T3": 7, "mcvrp-6x2": 6, "lbf-5-fov1-T2": 5, "game2048-2x2": 4}
    names.sort(key=lambda n: -cost.get(n, 0))
    run_tasks(rep, [("mc.checks.c13", "run_model", dict(model=n, tier=tier, seed=seed)) for n in names])
    fams = {m.get("family") for m in rep.coverage["per_model"]}
    missing = sorted(set(catalog.FAMILIES) - fams)
    if missing:
        rep.errors.append(f"families not covered: {missing}")
    for m in rep.coverage["per_model"]:
        # every model must cross episode boundaries (Game2048 has no short episodes: covered as far as reachable)
        ps = m.get("per_setting", {})
        if m.get("family") != "game_2048" and ps and any(not sum(
                n for nb, n in v["paths_by_boundaries"].items() if int(nb) >= 1) for v in ps.values()):
            rep.errors.append(f"vacuous: model {m.get('model')} crossed no episode boundary")
    rep.coverage["families_covered"] = sorted(f for f in fams if f)
    rep.coverage["exhaustive"] = all(m.get("closed") for m in rep.coverage["per_model"])
    rep.assumptions += [
        "reset keys limited to the window PRNGKey(0..K-1) per model (K in per_model.reset_keys)",
        "all action sequences to the listed depth over the listed alphabet; alphabets with >= 50 joint actions "
        "(> 30 in the quick tier) restricted to <= 12 actions (continuing + episode-ending at the first root)",
        "accepted reset keys: either half of jax.random.split(terminal_state.key); nothing else",
        "fresh-instance clause decided per root (some path must show an instance change), because a random "
        "generator over a small instance space may legitimately repeat an instance on a single path",
        "floats compared with rtol 1e-5 / atol 1e-6, everything else exactly",
    ]
    rep.require_positive("terminal_edges", "nonterminal_edges", "boundaries_crossed",
                         "paths_crossing_2_or_more_boundaries", "paths_instances_vary",
                         "next_obs_checked_on_terminal_edges", "resets_checked", "specs_checked",
                         "eager_paths_validated", "eager_boundaries_crossed", "mode_replay_paths",
                         "mode_replay_boundaries", "distinct_auto_reset_keys")
    return rep.finish()


def replay(doc: Dict[str, Any]) -> int:
    rdoc = doc.get("replay", doc)
    env = eval(rdoc["ctor"], catalog.namespace())  # noqa: S307
    want = rdoc.get("signature") or doc.get("signature")
    kind = rdoc.get("kind", "path")
    print(f"replay {PID}: model={rdoc.get('model')} kind={kind} signature={want}")
    if kind == "specs":
        from jumanji.wrappers import AutoResetWrapper

        W = AutoResetWrapper(env, next_obs_in_extras=bool(rdoc.get("next_obs_in_extras")))
        bad = [nm for nm in ("observation_spec", "action_spec", "reward_spec", "discount_spec")
               if spec_sig(getattr(W, nm)) != spec_sig(getattr(env, nm))]
        print(f"  specs differing: {bad}")
        return 1 if bad else 0
    b = bool(rdoc.get("next_obs_in_extras"))
    if kind == "modes":
        fails = modes_check(env, b, rdoc["reset_key_seeds"], rdoc["paths"])
        sigs, traj = check_path(env, b, rdoc["reset_key_seeds"][0], rdoc["paths"][0], eager=True, verbose=True)
        fails += modes_check(env, b, rdoc["reset_key_seeds"][:1], rdoc["paths"][:1], traj)
        print(f"  mode disagreements: {fails[:4]}")
        return 1 if fails else 0
    sigs, _ = check_path(env, b, int(rdoc["reset_key_seed"]), rdoc["actions"], eager=True, verbose=True)
    if "replays-the-same-instance" in str(want):
        sigs += _instances_all_identical(env, b, int(rdoc["reset_key_seed"]))
    print(f"  signatures reproduced on this path: {sorted(set(sigs))}")
    return 1 if (want in sigs or (want is None and sigs)) else 0


def _instances_all_identical(env: Any, b: bool, seed_key: int, depth: int = 3) -> List[str]:
    """Replay helper for the per-root fresh-instance clause: all action sequences to `depth` from one
    root with the plain API; reproduces iff every automatic reset re-creates the root's instance."""
    import itertools

    import jax
    import jax.numpy as jnp

    from jumanji.wrappers import AutoResetWrapper

    from mc.engine import all_actions, to_np, tmap

    W = AutoResetWrapper(env, next_obs_in_extras=b)
    A, _ = pick_alphabet(env, [seed_key], threshold=13)
    step = jax.jit(W.step)
    s0, _ = W.reset(jax.random.PRNGKey(seed_key))
    root = instance_bytes(tmap(lambda x: np.asarray(x)[None], to_np(s0)))[0].tobytes()
    changed, boundaries = False, 0
    for seq in itertools.product(range(len(A)), repeat=depth):
        s = s0
        for a in seq:
            s, ts = step(s, jnp.asarray(A[a]))
            if int(ts.step_type) == 2:
                boundaries += 1
                if instance_bytes(tmap(lambda x: np.asarray(x)[None], to_np(s)))[0].tobytes() != root:
                    changed = True
        if changed:
            break
    print(f"  boundaries crossed {boundaries}, instance changed: {changed}")
    if boundaries and not changed:
        return [f"AutoResetWrapper[next_obs_in_extras={b}]:random-generator-replays-the-same-instance-after-every-auto-reset"]
    return []
