"""C14 — batched wrappers equal per-instance execution; VmapAutoReset == Vmap(AutoReset) (DESIGN §4 C14).

Per model (one short-episode configuration of an environment family), batch size B and setting
b = next_obs_in_extras, the three batched systems
    VW  = VmapWrapper(env)
    VAR = VmapAutoResetWrapper(env, next_obs_in_extras=b)
    VA  = VmapWrapper(AutoResetWrapper(env, next_obs_in_extras=b))
are explored together, by an explicit BFS over *joint* states (called through `jax.jit(X.step)` exactly
as a user would, i.e. VAR's `lax.map`/`lax.cond` path runs un-transformed):

* roots: for every stagger vector o in {0,1}^B, element i starts from env.reset(PRNGKey(seed_i)) (o_i=0)
  or from the nearest state reachable from that reset that has an episode-ending action (o_i=1; found
  by a BFS with the bare env: for time_limit<=2 configurations that is the state after one step).  Seeds
  differ per element, so all batch elements are different (asserted), with different step counts.
* per-element action alphabet at an element state x: {first action that continues the episode from x,
  first action that ends it} (decided with the bare env over the full alphabet, or 256 spread actions
  when it has > 1024); when only one kind exists, the first two actions of the alphabet.
* ALL 2^B joint choice vectors on every joint state, to depth D (quick 3; thorough 4 — with B=3 from the
  stagger vectors 000/010/111 only, depth 3 from the other five, and B=4 to depth 3 from 4 stagger vectors);
  successors are those of VAR.  Batch sizes 1-3 (quick), 1-4 (thorough).

Oracles on every joint step (S, A), per-instance reference = bare env per element through un-batched
`jit(env.step)` / `jit(env.reset)` (memoised):
 (1) VW.step(S, A)[i] == env.step(S[i], A[i]) on every leaf of state and timestep, every i;
     VW.reset(keys)[i] == env.reset(keys[i]).
 (2) VAR.step(S, A) == VA.step(S, A) leaf for leaf on the same inputs (reset too); and both are rolled
     forward on their *own* states along every explored path (pair nodes) and — for a subset of
     full-depth paths — inside one `jit(lax.scan)` program each, compared at every step.
 (2') VAR.step(S, A)[i] (and VA's) == the per-instance auto-reset semantics of C13 computed from the
     bare env: not LAST -> env.step's output; LAST -> env.reset(split(e'.key)[0]) state and observation,
     step_type/reward/discount/extras of the terminal step (+ next_obs = true successor observation).
     (Implied by (1), (2) and C13; checked directly because it makes cross-element contamination by the
     sequential `lax.map` visible against a reference that never sees a batch.)
 (3) render: `X(Rec(env)).render(S)` for X in {VmapWrapper, VmapAutoResetWrapper}, Rec a recording
     Wrapper stub: the stub receives exactly element 0 (== numpy-indexed S[0], no batch axis) once and
     its return value is passed through; tree_slice(S, i) == numpy indexing for every i.
Vacuity: the 2^B termination patterns (which elements' episodes end on the step) are counted per model
and B; a pattern that never occurs for B <= 3 fails the run.
A subset of joint steps (and resets) is re-executed with the plain un-jitted wrapper calls (`validated`).
"""
from __future__ import annotations

import hashlib
import itertools
import time
from typing import Any, Dict, List, Optional, Sequence, Tuple

from mc import boot  # noqa: F401

import numpy as np

from mc import catalog
from mc.report import Reporter, Violation
from mc.runner import run_tasks

PID = "C14"
NEXT_OBS = "next_obs"
SENTINEL = "c14-render-sentinel"

RW_TINY = catalog.RW_TINY
# model -> family, constructor (None: catalogue entry of that name), quick tier?, options
MODELS: Dict[str, Dict[str, Any]] = {
    "game2048-2x2": dict(fam="game_2048"),
    "graphcol-4": dict(fam="graph_coloring"),
    "mines-3x3-2": dict(fam="minesweeper"),
    "rubik-3-T2": dict(fam="rubiks_cube", quick=False),  # slowest compile of the cheap families
    "slide-3-T2": dict(fam="sliding_tile_puzzle",
                       ctor="SlidingTilePuzzle(G.sliding_tile_puzzle.RandomWalkGenerator(3, 20), time_limit=2)"),
    "sudoku-near": dict(fam="sudoku"),
    "binpack-5": dict(fam="bin_pack", quick=False, heavy=True),
    "flatpack-1x3-block": dict(fam="flat_pack", quick=False),
    "jobshop-2311": dict(fam="job_shop"),
    "knapsack-6": dict(fam="knapsack"),
    "tetris-4x7-T2": dict(fam="tetris"),
    "cleaner-5x3x2-T3": dict(fam="cleaner"),
    "connector-3x2-T2": dict(fam="connector", quick=False,
                             ctor="Connector(G.connector.UniformRandomGenerator(3, 2), time_limit=2)"),
    "cvrp-4": dict(fam="cvrp"),
    "lbf-5-fov1-T2": dict(fam="lbf"),  # the only environment that truncates (LAST with discount 1): quick tier too
    "maze-5x5-T2": dict(fam="maze", ctor="Maze(G.maze.RandomGenerator(5, 5), time_limit=2)"),
    "mmst-12-T2": dict(fam="mmst", quick=False,
                       ctor="MMST(G.mmst.SplitRandomGenerator(12, 18, 4, 2, 3, 2), time_limit=2)"),
    "mcvrp-6x2": dict(fam="multi_cvrp", quick=False, prefix="mcvrp-greedy"),
    "pacman-T2": dict(fam="pac_man", quick=False, ctor="PacMan(time_limit=2)", heavy=True),
    "rware-tiny-T2": dict(fam="robot_warehouse", quick=False, heavy=True,
                          ctor=f"RobotWarehouse(G.robot_warehouse.RandomGenerator({RW_TINY}), time_limit=2)"),
    "snake-5x2-T3": dict(fam="snake"),
    "sokoban-toy-sparse-T2": dict(fam="sokoban"),
    "tsp-4-sparse": dict(fam="tsp"),
}


def model_ctor(name: str) -> str:
    return MODELS[name].get("ctor") or catalog.BY_NAME[name].ctor


# ---------------------------------------------------------------------------------------------
# helpers
# ---------------------------------------------------------------------------------------------
def _digest(tree_np: Any) -> bytes:
    import jax

    h = hashlib.blake2b(digest_size=16)
    for x in jax.tree_util.tree_leaves(tree_np):
        x = np.ascontiguousarray(np.asarray(x))
        if x.dtype == np.bool_:
            x = x.astype(np.uint8)
        h.update(x.view(np.uint8).tobytes() if x.ndim else x.reshape(1).view(np.uint8).tobytes())
    return h.digest()


def _np(tree: Any) -> Any:
    import jax
    import jax.numpy as jnp

    # python-scalar leaves (FlatPack's num_blocks, ...) are canonicalised through jnp.asarray (DESIGN §2)
    return jax.tree_util.tree_map(lambda x: x if isinstance(x, np.ndarray) else np.asarray(jnp.asarray(x)),
                                  jax.device_get(tree))


def _stack(trees: Sequence[Any]) -> Any:
    import jax

    return jax.tree_util.tree_map(lambda *xs: np.stack(xs, axis=0), *trees)


def _idx(tree: Any, i: Any) -> Any:
    import jax

    return jax.tree_util.tree_map(lambda x: x[i], tree)


def _parts(state: Any, ts: Any) -> Dict[str, Any]:
    return {"state": state, "step_type": ts.step_type, "reward": ts.reward, "discount": ts.discount,
            "observation": ts.observation, "extras": dict(ts.extras)}


def _diff(got: Dict[str, Any], exp: Dict[str, Any]) -> List[str]:
    from mc.engine import leaf_diff

    import jax

    out: List[str] = []
    for part in exp:
        la, ta = jax.tree_util.tree_flatten(got[part])
        lb, tb = jax.tree_util.tree_flatten(exp[part])
        if ta == tb and all(x.dtype == y.dtype and x.shape == y.shape and np.array_equal(x, y) for x, y in zip(la, lb)):
            continue  # fast path: bit-identical
        for d in leaf_diff(got[part], exp[part]):
            out.append(f"{part}: {d}" if d.startswith("tree structure") else f"{part}{d}")
    return out


def make_rec(env: Any) -> Any:
    """Recording stub: a jumanji Wrapper whose render records the state it is handed."""
    from jumanji.wrappers import Wrapper

    class Rec(Wrapper):
        def __init__(self, env: Any):
            super().__init__(env)
            self.calls: List[Any] = []

        def render(self, state: Any) -> Any:
            self.calls.append(state)
            return SENTINEL

    return Rec(env)


# ---------------------------------------------------------------------------------------------
# per-instance reference (bare env, never batched over elements)
# ---------------------------------------------------------------------------------------------
class Elem:
    def __init__(self, env: Any):
        import jax
        import jax.numpy as jnp

        from mc.engine import all_actions

        self.env = env
        self.step1 = jax.jit(env.step)
        self.reset1 = jax.jit(env.reset)
        A = all_actions(env.action_spec)
        self.n_full = len(A)
        if len(A) > 1024:
            A = A[np.unique(np.linspace(0, len(A) - 1, 256).round().astype(int))]
        self.A = A
        self._stepA = jax.jit(jax.vmap(lambda s, a: env.step(s, a), in_axes=(None, 0)))
        self._Aj = jnp.asarray(A)
        self.dt = A.dtype
        self.memo_step: Dict[Tuple[bytes, bytes], Any] = {}
        self.memo_choice: Dict[bytes, Any] = {}
        self.memo_reset: Dict[bytes, Any] = {}

    def reset(self, key: Any) -> Tuple[Any, Any]:
        kb = np.asarray(key).tobytes()
        r = self.memo_reset.get(kb)
        if r is None:
            import jax.numpy as jnp

            r = _np(self.reset1(jnp.asarray(np.asarray(key))))
            self.memo_reset[kb] = r
        return r

    def expand(self, x: Any) -> Tuple[Any, Any]:
        """All actions of the (possibly thinned) alphabet from element state x: numpy [nA, ...]."""
        import jax
        import jax.numpy as jnp

        s2, t2 = self._stepA(jax.tree_util.tree_map(jnp.asarray, x), self._Aj)
        return _np(s2), _np(t2)

    def choices(self, dig: bytes, x: Any) -> Tuple[np.ndarray, np.ndarray, str]:
        c = self.memo_choice.get(dig)
        if c is None:
            _, t2 = self.expand(x)
            last = np.asarray(t2.step_type) == 2
            cont, end = np.nonzero(~last)[0], np.nonzero(last)[0]
            if len(cont) and len(end):
                c = (self.A[cont[0]], self.A[end[0]], "cont+end")
            elif len(end):
                c = (self.A[0], self.A[min(1, len(self.A) - 1)], "end+end")
            else:
                c = (self.A[0], self.A[min(1, len(self.A) - 1)], "cont+cont")
            self.memo_choice[dig] = c
        return c

    def step(self, dig: bytes, x: Any, a: np.ndarray) -> Dict[str, Any]:
        """Per-instance reference for (x, a): bare step, and the auto-reset semantics derived from it."""
        import jax
        import jax.numpy as jnp

        k = (dig, np.asarray(a).tobytes())
        r = self.memo_step.get(k)
        if r is None:
            e2, t2 = self.step1(jax.tree_util.tree_map(jnp.asarray, x), jnp.asarray(a))
            e2n, t2n = _np(e2), _np(t2)
            last = int(t2n.step_type) == 2
            if last:
                # fresh keys accepted for the automatic reset (as in C13): either half of split(e'.key)
                halves = np.asarray(jax.random.split(e2.key))
                cands = []
                for h in halves:
                    F_s, F_t = self.reset(h)
                    cands.append((F_s, F_t.observation, _digest(F_s)))
            else:
                cands = [(e2n, t2n.observation, _digest(e2n))]
            r = {"bare": (e2n, t2n), "last": last, "cands": cands}
            self.memo_step[k] = r
        return r


def near_terminal(el: Elem, x0: Any, max_depth: int = 8, max_states: int = 3000) -> Tuple[Any, List[Any], str]:
    """Nearest state at depth >= 1 (BFS over continuing transitions of the bare env) that has an
    episode-ending action.  Returns (state, prefix of concrete actions, note)."""
    frontier = [(x0, [])]
    seen = {_digest(x0)}
    for depth in range(1, max_depth + 1):
        nxt = []
        for x, pre in frontier:
            s2, t2 = el.expand(x)
            last = np.asarray(t2.step_type) == 2
            for j in np.nonzero(~last)[0]:
                y = _idx(s2, int(j))
                d = _digest(y)
                if d in seen:
                    continue
                seen.add(d)
                nxt.append((y, pre + [np.asarray(el.A[j]).tolist()]))
                if len(seen) >= max_states:
                    break
            if len(seen) >= max_states:
                break
        for y, pre in nxt:
            _, ty = el.expand(y)
            if (np.asarray(ty.step_type) == 2).any():
                return y, pre, f"depth {depth}"
        frontier = nxt
        if not frontier or len(seen) >= max_states:
            break
    # fall back: any state one continuing step away (different step count at least)
    if frontier:
        return frontier[0][0], frontier[0][1], "no state with an ending action found within the search bound"
    return x0, [], "no continuing action from the reset state"


def mcvrp_prefix(el: Elem, x0: Any, ts0: Any) -> Tuple[Any, List[Any], str]:
    """MultiCVRP: follow the action mask greedily (distinct customers per vehicle) until the next step can end."""
    import jax
    import jax.numpy as jnp

    x, ts, pre = x0, ts0, []
    for t in range(14):
        m = np.asarray(ts.observation.action_mask)
        a, used = [], set()
        for v in range(m.shape[0]):
            c = [j for j in range(1, m.shape[1]) if m[v, j] and j not in used]
            a.append(c[0] if c else 0)
            used.add(a[-1])
        x2, ts2 = el.step1(jax.tree_util.tree_map(jnp.asarray, x), jnp.asarray(np.asarray(a, el.dt)))
        if int(ts2.step_type) == 2:
            return x, pre, f"greedy mask schedule, depth {t}"
        x, ts, pre = _np(x2), _np(ts2), pre + [a]
    return x, pre, "greedy schedule did not end"


# ---------------------------------------------------------------------------------------------
# the three systems
# ---------------------------------------------------------------------------------------------
class Systems:
    def __init__(self, env: Any, b: bool, eager: bool = False):
        import jax

        from jumanji.wrappers import AutoResetWrapper, VmapAutoResetWrapper, VmapWrapper

        self.b, self.eager = b, eager
        self.VW = VmapWrapper(env)
        self.VAR = VmapAutoResetWrapper(env, next_obs_in_extras=b)
        self.VA = VmapWrapper(AutoResetWrapper(env, next_obs_in_extras=b))
        wrap = (lambda f: f) if eager else jax.jit
        self.step = {n: wrap(getattr(self, n).step) for n in ("VW", "VAR", "VA")}
        self.reset = {n: wrap(getattr(self, n).reset) for n in ("VW", "VAR", "VA")}


NAMES = {"VW": "VmapWrapper", "VAR": "VmapAutoResetWrapper", "VA": "VmapWrapper(AutoResetWrapper)"}


def sys_name(n: str, b: bool) -> str:
    return NAMES[n] if n == "VW" else f"{NAMES[n]}[next_obs_in_extras={b}]"


def expected_joint(el: Elem, S: Any, A: np.ndarray, b: bool, got_state: Any = None
                   ) -> Tuple[Dict[str, Any], Dict[str, Any], Tuple[bool, ...]]:
    """Per-instance expectations for a joint step: (VW expectation, auto-reset expectation, pattern).
    `got_state`: the batched state a system returned; for an element whose episode ended, the reset from
    the second half of the split key is the expectation iff that is what the system's state equals."""
    B = len(A)
    refs = []
    for i in range(B):
        x = _idx(S, i)
        refs.append(el.step(_digest(x), x, A[i]))
    bare_s = _stack([r["bare"][0] for r in refs])
    bare_t = _stack([r["bare"][1] for r in refs])
    exp_vw = _parts(bare_s, bare_t)
    pick = []
    for i, r in enumerate(refs):
        c = r["cands"][0]
        if len(r["cands"]) > 1 and got_state is not None and _digest(_idx(got_state, i)) == r["cands"][1][2]:
            c = r["cands"][1]
        pick.append(c)
    exp_ar = _parts(_stack([c[0] for c in pick]), bare_t)
    exp_ar["observation"] = _stack([c[1] for c in pick])
    if b:
        exp_ar["extras"] = dict(exp_ar["extras"])
        exp_ar["extras"][NEXT_OBS] = bare_t.observation
    return exp_vw, exp_ar, tuple(bool(r["last"]) for r in refs)


def check_joint_step(sysm: Systems, el: Elem, S: Any, A: np.ndarray, S_va_own: Any = None,
                     with_vw: bool = True) -> Dict[str, Any]:
    """Run the systems on (S, A) and evaluate oracles (1), (2), (2')."""
    import jax
    import jax.numpy as jnp

    b = sysm.b
    if sysm.eager:
        Sj, Aj = jax.tree_util.tree_map(jnp.asarray, S), jnp.asarray(A)
    else:  # jitted callables take the numpy pytrees as they are
        Sj, Aj = S, A
    exp_vw, exp_ar, pattern = expected_joint(el, S, A, b)
    fails: List[Tuple[str, str]] = []
    var_s, var_t = sysm.step["VAR"](Sj, Aj)
    va_s, va_t = sysm.step["VA"](Sj, Aj)
    var, va = _parts(_np(var_s), _np(var_t)), _parts(_np(va_s), _np(va_t))
    d = _diff(var, va)
    if d:
        fails.append((f"{sys_name('VAR', b)}.step:differs-from-VmapWrapper(AutoResetWrapper)-on-same-inputs", str(d[:3])))
    for n, got in (("VAR", var), ("VA", va)):
        d = _diff(got, exp_ar)
        if d:
            d = _diff(got, expected_joint(el, S, A, b, got_state=got["state"])[1])
        if d:
            fails.append((f"{sys_name(n, b)}.step:element-differs-from-per-instance-auto-reset", str(d[:3])))
    if with_vw:
        vw_s, vw_t = sysm.step["VW"](Sj, Aj)
        d = _diff(_parts(_np(vw_s), _np(vw_t)), exp_vw)
        if d:
            fails.append((f"{sys_name('VW', b)}.step:element-differs-from-unbatched-env", str(d[:3])))
    own = None
    if S_va_own is not None:
        o_s, o_t = sysm.step["VA"](jax.tree_util.tree_map(jnp.asarray, S_va_own) if sysm.eager else S_va_own, Aj)
        own = _parts(_np(o_s), _np(o_t))
        d = _diff(var, own)
        if d:
            fails.append((f"{sys_name('VAR', b)}.step:own-roll-diverges-from-VmapWrapper(AutoResetWrapper)-own-roll",
                          str(d[:3])))
    return {"fails": fails, "var": var, "va": va, "own": own, "pattern": pattern}


def check_joint_reset(sysm: Systems, el: Elem, seeds: Sequence[int], with_vw: bool = True) -> List[Tuple[str, str]]:
    import jax
    import jax.numpy as jnp

    b = sysm.b
    keys = np.stack([np.asarray(jax.random.PRNGKey(int(k))) for k in seeds])
    per = [el.reset(k) for k in keys]
    s0, t0 = _stack([p[0] for p in per]), _stack([p[1] for p in per])
    exp = _parts(s0, t0)
    exp_ar = dict(exp)
    if b:
        exp_ar["extras"] = dict(exp["extras"])
        exp_ar["extras"][NEXT_OBS] = t0.observation
    fails = []
    outs = {}
    for n in (("VW", "VAR", "VA") if with_vw else ("VAR", "VA")):
        s, t = sysm.reset[n](jnp.asarray(keys))
        outs[n] = _parts(_np(s), _np(t))
        d = _diff(outs[n], exp if n == "VW" else exp_ar)
        if d:
            fails.append((f"{sys_name(n, b)}.reset:element-differs-from-unbatched-env.reset", str(d[:3])))
    d = _diff(outs["VAR"], outs["VA"])
    if d:
        fails.append((f"{sys_name('VAR', b)}.reset:differs-from-VmapWrapper(AutoResetWrapper)", str(d[:3])))
    return fails


def check_render(env: Any, S: Any, B: int) -> List[Tuple[str, str]]:
    """Oracle (3) on one joint state."""
    import jax
    import jax.numpy as jnp

    from jumanji import tree_utils
    from jumanji.wrappers import VmapAutoResetWrapper, VmapWrapper

    from mc.engine import leaf_diff

    fails = []
    Sj = jax.tree_util.tree_map(jnp.asarray, S)
    want = _idx(S, 0)
    for nm, mk in (("VmapWrapper", lambda e: VmapWrapper(e)), ("VmapAutoResetWrapper", lambda e: VmapAutoResetWrapper(e)),
                   ("VmapAutoResetWrapper[next_obs_in_extras=True]", lambda e: VmapAutoResetWrapper(e, next_obs_in_extras=True))):
        rec = make_rec(env)
        out = mk(rec).render(Sj)
        if out != SENTINEL:
            fails.append((f"{nm}.render:return-value-of-wrapped-render-not-passed-through", repr(out)[:80]))
        if len(rec.calls) != 1:
            fails.append((f"{nm}.render:wrapped-render-called-{len(rec.calls)}-times", ""))
            continue
        d = leaf_diff(_np(rec.calls[0]), want)
        if d:
            fails.append((f"{nm}.render:does-not-pass-element-0-of-the-batch", str(d[:3])))
    for i in range(B):
        d = leaf_diff(_np(tree_utils.tree_slice(Sj, i)), _idx(S, i))
        if d:
            fails.append(("tree_slice:differs-from-indexing-every-leaf", f"i={i}: {d[:3]}"))
    return fails


# ---------------------------------------------------------------------------------------------
# roots
# ---------------------------------------------------------------------------------------------
def element_seed(B: int, i: int) -> int:
    return 11 * B + 3 * i + 1


def build_element_starts(env: Any, el: Elem, B: int, opts: Dict[str, Any]) -> List[Dict[str, Any]]:
    import jax

    out = []
    for i in range(B):
        seed = element_seed(B, i)
        x0, t0 = el.reset(np.asarray(jax.random.PRNGKey(seed)))
        if opts.get("prefix") == "mcvrp-greedy":
            x1, pre, note = mcvrp_prefix(el, x0, t0)
        else:
            x1, pre, note = near_terminal(el, x0)
        out.append({"seed": seed, "x0": x0, "x1": x1, "prefix": pre, "note": note})
    return out


def rebuild_root(env: Any, desc: List[Dict[str, Any]]) -> Any:
    """Plain-API reconstruction of a joint root from its description (replay / eager validation)."""
    import jax
    import jax.numpy as jnp

    dt = np.asarray(env.action_spec.generate_value()).dtype
    elems = []
    for d in desc:
        s, _ = env.reset(jax.random.PRNGKey(int(d["seed"])))
        for a in d["prefix"]:
            s, _ = jax.jit(env.step)(s, jnp.asarray(np.asarray(a, dtype=dt)))
        elems.append(_np(s))
    return _stack(elems)


# ---------------------------------------------------------------------------------------------
# worker
# ---------------------------------------------------------------------------------------------
def run_model(model: str, tier: str, seed: int) -> Dict[str, Any]:
    import jax
    import jax.numpy as jnp

    t_start = time.time()
    opts = MODELS[model]
    ctor = model_ctor(model)
    env = eval(ctor, catalog.namespace())  # noqa: S307
    quick = tier == "quick"
    heavy = bool(opts.get("heavy"))
    Bs = [1, 2, 3] if quick else [1, 2, 3, 4]
    if heavy:
        Bs = [1, 2, 3]
    el = Elem(env)
    res: Dict[str, Any] = {"model": model, "family": opts["fam"], "ctor": ctor, "states": 0, "transitions": 0,
                           "validated": 0, "violations": [], "vacuity": {}, "samples": [], "closed": True,
                           "alphabet_full": el.n_full, "alphabet_scanned_per_state": int(len(el.A)),
                           "patterns": {}, "per_B": {}}
    vac = res["vacuity"]
    sig_count: Dict[str, int] = {}

    def bump(k: str, n: int = 1) -> None:
        vac[k] = vac.get(k, 0) + int(n)

    def report(fails: List[Tuple[str, str]], doc: Dict[str, Any]) -> None:
        for sig, msg in fails:
            n = sig_count.get(sig, 0)
            sig_count[sig] = n + 1
            if n >= 2:
                continue
            d = dict(doc, model=model, ctor=ctor, signature=sig, property=PID)
            res["violations"].append(Violation(PID, model, sig, f"{msg} [B={doc.get('B')}]", d))

    seedb = int(seed).to_bytes(8, "little", signed=True)
    eager_done = 0
    timing = res["timing_s"] = {"roots": 0.0, "explore": 0.0, "scan": 0.0, "render": 0.0, "eager": 0.0}
    tick = [time.time()]

    def lap(k: str) -> None:
        now = time.time()
        timing[k] = round(timing[k] + now - tick[0], 2)
        tick[0] = now
    for B in Bs:
        D = (3 if quick else 4) if B <= 3 else 3
        if heavy:
            D = 2 if quick else 3
        starts = build_element_starts(env, el, B, opts)
        if B <= 3:
            staggers = list(itertools.product((0, 1), repeat=B))
        else:
            staggers = [(0,) * B, (1,) * B, tuple(i % 2 for i in range(B)), tuple(int(i >= B // 2) for i in range(B))]
        deep = set(range(len(staggers)))
        if not quick and not heavy and B == 3:
            deep = {0, 2, 7}  # staggers 000, 010, 111 go to depth 4, the other five to depth 3
        root_depth = [D if r in deep else min(D, 3) for r in range(len(staggers))]
        roots = []
        for o in staggers:
            S = _stack([starts[i]["x1"] if o[i] else starts[i]["x0"] for i in range(B)])
            desc = [{"seed": starts[i]["seed"], "prefix": (starts[i]["prefix"] if o[i] else [])} for i in range(B)]
            roots.append((S, desc, o))
            digs = {_digest(_idx(S, i)) for i in range(B)}
            if len(digs) == B:
                bump("roots_with_pairwise_different_elements")
            elif B > 1:
                res["error"] = f"root batch elements are not pairwise different (B={B}, stagger={o})"
        lap("roots")
        pat: Dict[str, int] = {}
        perB = {"depth": D, "root_depths": root_depth, "roots": len(roots), "stagger_notes": sorted({s["note"] for s in starts}),
                "prefix_lengths": [len(s["prefix"]) for s in starts]}
        for b in (False, True):
            sysm = Systems(env, b)
            with_vw = not b  # VW does not depend on b: checked once per joint step
            seeds = [s["seed"] for s in starts]
            report(check_joint_reset(sysm, el, seeds, with_vw=True), {"kind": "reset", "B": B, "b": b, "seeds": seeds})
            bump("batched_resets_checked")
            # BFS over pair nodes (VAR state fed forward, VA's own state alongside)
            seen: Dict[bytes, int] = {}
            frontier = []
            for r, (S, desc, o) in enumerate(roots):
                seen[_digest(S)] = 1
                frontier.append((S, S, r, []))
            n_steps = 0
            n_own_same = n_own_diff = 0
            leaf_paths: List[Tuple[bytes, int, List[Any]]] = []
            sample_nodes: List[Any] = []
            choice_kinds: Dict[str, int] = {}
            for depth in range(1, D + 1):
                nxt = []
                for S, S_own, r, acts in frontier:
                    ch = []
                    for i in range(B):
                        x = _idx(S, i)
                        c = el.choices(_digest(x), x)
                        ch.append(c)
                        choice_kinds[c[2]] = choice_kinds.get(c[2], 0) + 1
                    same_own = _digest(S_own) == _digest(S)
                    for cv in itertools.product((0, 1), repeat=B):
                        A = np.stack([np.asarray(ch[i][cv[i]], el.dt) for i in range(B)])
                        out = check_joint_step(sysm, el, S, A, None if same_own else S_own, with_vw=with_vw)
                        n_steps += 1
                        if same_own:
                            n_own_same += 1
                        else:
                            n_own_diff += 1
                        acts2 = acts + [A.tolist()]
                        if out["fails"]:
                            report(out["fails"], {"kind": "joint-path", "B": B, "b": b, "root": roots[r][1],
                                                  "joint_actions": acts2})
                        p = "".join("1" if v else "0" for v in out["pattern"])
                        pat[p] = pat.get(p, 0) + 1
                        S2 = out["var"]["state"]
                        S2_own = out["own"]["state"] if out["own"] is not None else out["va"]["state"]
                        dg = _digest(S2) + _digest(S2_own)
                        if depth == root_depth[r]:
                            pr = hashlib.sha1(seedb + repr((B, b, r, acts2)).encode()).digest()[:6]
                            leaf_paths.append((pr, r, acts2))
                            if len(leaf_paths) > 256:
                                leaf_paths.sort(key=lambda z: (-len(z[2]), z[0]))
                                del leaf_paths[16:]
                        if dg in seen:
                            continue
                        seen[dg] = 1
                        if depth < root_depth[r]:
                            nxt.append((S2, S2_own, r, acts2))
                        if len(sample_nodes) < 3 and depth >= 2:
                            sample_nodes.append((S2, r, acts2))
                frontier = nxt
            lap("explore")
            res["states"] += len(seen)
            res["transitions"] += n_steps * (3 if with_vw else 2)
            bump("joint_steps", n_steps)
            bump("own_roll_inputs_identical", n_own_same)
            bump("own_roll_inputs_differ", n_own_diff)
            for k, v in choice_kinds.items():
                bump(f"element_alphabets_{k}", v)
            # scan-roll of both stacks on their own states, whole path in one program each
            leaf_paths.sort(key=lambda z: (-len(z[2]), z[0]))
            n_scan = (2 if quick else 6) if (b and (B == Bs[-1] or not quick)) else 0
            if n_scan:
                def mk_roll(W: Any) -> Any:
                    def roll(s0: Any, aa: Any) -> Any:
                        def body(s: Any, a: Any) -> Any:
                            s2, ts2 = W.step(s, a)
                            return s2, (s2, ts2)

                        return jax.lax.scan(body, s0, aa)

                    return jax.jit(roll)

                roll_var, roll_va = mk_roll(sysm.VAR), mk_roll(sysm.VA)
                for _, r, acts in leaf_paths[:n_scan]:
                    S0 = jax.tree_util.tree_map(jnp.asarray, roots[r][0])
                    aa = jnp.asarray(np.asarray(acts, el.dt))
                    f1, y1 = roll_var(S0, aa)
                    f2, y2 = roll_va(S0, aa)
                    d = _diff(_parts(*_np(y1)), _parts(*_np(y2))) + _diff({"state": _np(f1)}, {"state": _np(f2)})
                    # and against the step-by-step exploration (per-instance reference) at the last step
                    Sx = roots[r][0]
                    for t in range(len(acts)):
                        got = _parts(*_idx(_np(y1), t))
                        _, exp_ar, _ = expected_joint(el, Sx, np.asarray(acts[t], el.dt), b, got_state=got["state"])
                        d += [f"t={t + 1} vs per-instance: {x}" for x in _diff(got, exp_ar)]
                        Sx = got["state"]
                    if d:
                        report([(f"{sys_name('VAR', b)}.step:scan-roll-diverges-from-VmapWrapper(AutoResetWrapper)-scan-roll",
                                 str(d[:3]))], {"kind": "joint-path", "B": B, "b": b, "root": roots[r][1],
                                                "joint_actions": acts})
                    bump("scan_rolls_compared")
            lap("scan")
            # render (3): roots + a few deeper joint states
            if not b:
                for S, r, acts in [(roots[0][0], 0, []), (roots[-1][0], len(roots) - 1, [])] + sample_nodes:
                    report(check_render(env, S, B), {"kind": "render", "B": B, "b": b, "root": roots[r][1],
                                                     "joint_actions": acts})
                    bump("renders_checked", 3)
                    bump("tree_slices_checked", B)
            lap("render")
            # eager validation: one joint path per (B, b) on the cheapest settings, un-jitted wrapper calls
            want_eager = (B == 2) if quick else (B in (2, 3))
            if heavy:
                want_eager = B == 2 and b
            if want_eager and leaf_paths:
                _, r, acts = leaf_paths[0]
                acts_e = acts[: (1 if heavy else 2)]
                sigs = check_joint_path(env, B, b, roots[r][1], acts_e, seeds=seeds, eager=True)
                if sigs:
                    report([(s_, "plain un-jitted wrapper calls: " + m_) for s_, m_ in sigs],
                           {"kind": "joint-path", "B": B, "b": b, "root": roots[r][1], "joint_actions": acts_e})
                else:
                    res["validated"] += 1
                    bump("eager_joint_paths_validated")
                    bump("eager_joint_steps_validated", len(acts_e))
                eager_done += 1
            lap("eager")
            if leaf_paths and len(res["samples"]) < 4 and B >= 2:
                res["samples"].append({"model": model, "B": B, "next_obs_in_extras": b, "root": roots[leaf_paths[0][1]][1],
                                       "joint_actions": leaf_paths[0][2]})
        res["patterns"][str(B)] = dict(sorted(pat.items()))
        perB["patterns_seen"] = len(pat)
        res["per_B"][str(B)] = perB
        for p, n in pat.items():
            bump(f"patterns_B{B}_seen", 1)
        bump("patterns_mixed_some_but_not_all_end", sum(n for p, n in pat.items() if "1" in p and "0" in p))
        bump("patterns_all_end", sum(n for p, n in pat.items() if "0" not in p))
        bump("patterns_none_end", sum(n for p, n in pat.items() if "1" not in p))
        if B <= 3:
            missing = [p for p in ("".join(t) for t in itertools.product("01", repeat=B)) if p not in pat]
            if missing:
                res["error"] = (res.get("error", "") + f" vacuous: termination patterns never seen for B={B}: {missing}").strip()
    res["total_s"] = round(time.time() - t_start, 2)
    return res


def check_joint_path(env: Any, B: int, b: bool, root_desc: List[Dict[str, Any]], joint_actions: Sequence[Any],
                     seeds: Optional[Sequence[int]] = None, eager: bool = True, verbose: bool = False) -> List[Tuple[str, str]]:
    """Plain loop over one joint path with (un-jitted when eager) wrapper calls; all oracles."""
    sysm = Systems(env, b, eager=eager)
    el = Elem(env)
    fails: List[Tuple[str, str]] = []
    fails += check_joint_reset(sysm, el, seeds or [d["seed"] for d in root_desc])
    S = rebuild_root(env, root_desc)
    S_own = S
    for t, A in enumerate(joint_actions):
        A = np.asarray(A, el.dt)
        out = check_joint_step(sysm, el, S, A, S_own if t else None)
        if verbose:
            print(f"  t={t + 1} joint action={A.tolist()} episodes ending={out['pattern']} "
                  f"failures={[f[0] for f in out['fails']]}")
        fails += out["fails"]
        S_own = (out["own"] or out["va"])["state"]
        S = out["var"]["state"]
    fails += check_render(env, S, B)
    return fails


# ---------------------------------------------------------------------------------------------
# entry points
# ---------------------------------------------------------------------------------------------
def models_for(tier: str) -> List[str]:
    import os

    only = [m for m in os.environ.get("VERIF_MODELS", "").split(",") if m]  # development knob (subset => exit 2)
    return [m for m, o in MODELS.items() if (m in only if only else (tier != "quick" or o.get("quick", True)))]


def main(tier: str, seed: int) -> int:
    rep = Reporter(PID, tier, seed)
    names = models_for(tier)
    cost = {"binpack-5": 9, "pacman-T2": 8, "rware-tiny-T2": 7, "mmst-12-T2": 6, "mcvrp-6x2": 5, "lbf-5-fov1-T2": 4,
            "sudoku-near": 3, "rubik-3-T2": 3}
    names.sort(key=lambda n: -cost.get(n, 0))
    run_tasks(rep, [("mc.checks.c14", "run_model", dict(model=n, tier=tier, seed=seed)) for n in names])
    fams = {m.get("family") for m in rep.coverage["per_model"]}
    need = set(catalog.FAMILIES) if tier != "quick" else set()
    missing = sorted(need - fams)
    if missing:
        rep.errors.append(f"families not covered: {missing}")
    if len(fams) < 12:
        rep.errors.append(f"only {len(fams)} families covered")
    rep.coverage["families_covered"] = sorted(f for f in fams if f)
    tot: Dict[str, Dict[str, int]] = {}
    for m in rep.coverage["per_model"]:
        for B, pats in (m.get("patterns") or {}).items():
            for p, n in pats.items():
                tot.setdefault(B, {})[p] = tot.setdefault(B, {}).get(p, 0) + n
    rep.coverage["termination_patterns_total"] = {B: dict(sorted(v.items())) for B, v in sorted(tot.items())}
    rep.coverage["exhaustive"] = all(m.get("closed") for m in rep.coverage["per_model"])
    rep.assumptions += [
        "element reset keys: PRNGKey(11*B + 3*i + 1) for element i of a batch of B (all different)",
        "per-element action alphabet {first continuing action, first episode-ending action} of the element's "
        "current state (bare env over the full alphabet, 256 spread actions when it exceeds 1024)",
        "all 2^B joint choice vectors per step to depth 3 (quick) / 4 (thorough), from all 2^B stagger vectors of "
        "{fresh reset, nearest state with an episode-ending action}; thorough-tier reductions: for B=3 only the "
        "stagger vectors 000, 010, 111 go to depth 4 (the other five to depth 3), B=4 uses 4 stagger vectors to "
        "depth 3, and the three slow families (BinPack, PacMan, RobotWarehouse) use B<=3 and depth 3",
        "floats compared with rtol 1e-5 / atol 1e-6, everything else exactly",
    ]
    rep.require_positive("joint_steps", "batched_resets_checked", "renders_checked", "tree_slices_checked",
                         "patterns_mixed_some_but_not_all_end", "patterns_all_end", "patterns_none_end",
                         "scan_rolls_compared", "eager_joint_paths_validated", "roots_with_pairwise_different_elements",
                         "own_roll_inputs_identical")
    return rep.finish()


def replay(doc: Dict[str, Any]) -> int:
    rdoc = doc.get("replay", doc)
    env = eval(rdoc["ctor"], catalog.namespace())  # noqa: S307
    want = rdoc.get("signature")
    B, b = int(rdoc["B"]), bool(rdoc.get("b"))
    print(f"replay {PID}: model={rdoc.get('model')} kind={rdoc.get('kind')} B={B} next_obs_in_extras={b} signature={want}")
    if rdoc.get("kind") == "reset":
        fails = check_joint_reset(Systems(env, b, eager=True), Elem(env), rdoc["seeds"])
    else:
        fails = check_joint_path(env, B, b, rdoc["root"], rdoc.get("joint_actions", []), eager=True, verbose=True)
    sigs = sorted({f[0] for f in fails})
    print(f"  signatures reproduced: {sigs}")
    for s_, m_ in fails[:4]:
        print(f"    {s_}: {m_[:300]}")
    if want is not None and "scan-roll" in want:
        return 1 if sigs else 0
    return 1 if (want in sigs or (want is None and sigs)) else 0
