"""C03 — FIRST, MID*, LAST protocol with sane reward and discount (DESIGN §4 C03).

Explored: every reset of the key window and every edge of the closed / bounded transition graph of
every catalogue configuration, *plus two further steps (all actions) from every terminal state*.
"""
from __future__ import annotations

from typing import Any, Dict

from mc import boot  # noqa: F401

import numpy as np

from mc import catalog
from mc.engine import Batch, Monitor
from mc.graphprops import run_property

PID = "C03"


class ProtocolMonitor(Monitor):
    def __init__(self, cfg: catalog.Cfg, env: Any):
        self.cfg = cfg
        self.env = env
        self.fam = cfg.family

    def on_roots(self, roots: Batch) -> None:
        ex, ts = self.ex, roots.ts
        rs, ds = self.env.reward_spec, self.env.discount_spec
        st = np.asarray(ts.step_type)
        for i in np.nonzero(st != 0)[0]:
            ex.violation(f"{self.fam}:reset-not-FIRST", f"reset returned step_type {st[i]}", int(roots.ids[i]))
        r, d = np.asarray(ts.reward), np.asarray(ts.discount)
        for nm, v, spec, want in (("reward", r, rs, 0.0), ("discount", d, ds, 1.0)):
            if tuple(v.shape[1:]) != tuple(spec.shape) or v.dtype != np.dtype(spec.dtype):
                ex.violation(f"{self.fam}:reset-{nm}-shape-dtype",
                             f"reset {nm} has shape {v.shape[1:]} dtype {v.dtype}; spec {spec.shape} {spec.dtype}",
                             int(roots.ids[0]))
            bad = ~(v == want).reshape(len(st), -1).all(axis=1)
            for i in np.nonzero(bad)[0]:
                ex.violation(f"{self.fam}:reset-{nm}-not-{want:g}", f"reset {nm} = {v[i]}", int(roots.ids[i]))
        ex.count("resets", len(st))

    def on_edges(self, parents: Batch, actions: np.ndarray, children: Batch, enabled: np.ndarray) -> None:
        ex, ts = self.ex, children.ts
        m, nA = enabled.shape
        st = np.asarray(ts.step_type).reshape(m, nA)
        d = np.asarray(ts.discount).reshape(m, nA, -1).astype(np.float64)
        r = np.asarray(ts.reward).reshape(m, nA, -1)

        def report(mask: np.ndarray, sig: str, msg) -> None:
            for i, a in zip(*np.nonzero(mask & enabled)):
                ex.violation(f"{self.fam}:{sig}", msg(i, a), int(parents.ids[i]), int(a))

        report(~np.isin(st, (1, 2)), "step-type-not-MID-or-LAST", lambda i, a: f"step returned step_type {st[i, a]}")
        out = ((d < 0) | (d > 1) | np.isnan(d)).any(axis=2)
        report(out, "discount-outside-[0,1]", lambda i, a: f"discount {d[i, a]}")
        allzero = (d == 0).all(axis=2)
        report((st == 1) & allzero, "MID-with-all-zero-discount", lambda i, a: f"MID step with discount {d[i, a]}")
        last_nz = (st == 2) & ~allzero
        if self.fam == "lbf" and last_nz.any():
            # documented truncation: time limit reached and food left
            sc = np.asarray(children.state.step_count).reshape(m, nA)
            eaten = np.asarray(children.state.food_items.eaten).reshape(m, nA, -1).all(axis=2)
            trunc_ok = (sc >= self.env.time_limit) & ~eaten
            ex.count("lbf_truncations", int((last_nz & trunc_ok & enabled).sum()))
            last_nz = last_nz & ~trunc_ok
        report(last_nz, "LAST-with-nonzero-discount", lambda i, a: f"LAST step with discount {d[i, a]}")
        report(np.isnan(r.astype(np.float64)).any(axis=2), "reward-nan", lambda i, a: f"reward {r[i, a]}")
        post = parents.post > 0
        ex.count("post_terminal_edges", int((enabled & post[:, None]).sum()))
        ex.count("mid_edges", int(((st == 1) & enabled).sum()))
        ex.count("last_edges", int(((st == 2) & enabled).sum()))


def plan(cfg: catalog.Cfg, env: Any, tier: str) -> Dict[str, Any]:
    return dict(monitors=[ProtocolMonitor(cfg, env)], post_terminal=2)


def main(tier: str, seed: int) -> int:
    cfgs = catalog.select(tier)
    rep = run_property(
        PID, tier, seed, cfgs,
        assumptions=[
            "reset keys limited to the per-configuration window PRNGKey(0..K-1)",
            "default-size configurations explored to the listed depth only (closed=false entries)",
            "LevelBasedForaging truncation (LAST with non-zero discount) accepted only when "
            "step_count >= time_limit and food is left, as documented",
        ],
        require=["resets", "mid_edges", "last_edges", "post_terminal_edges", "lbf_truncations"],
    )
    return rep.finish()


def replay(doc: Dict[str, Any]) -> int:
    from mc.graphprops import replay as _r

    return _r(PID, doc)
