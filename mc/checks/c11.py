"""C11 — episodes end exactly at the configured time limit / within the structural horizon.

Explored: the 12 time_limit environments with limits {1,2,3,...,default} (catalogue), every action
sequence up to the limit on tiny configurations (so the longest-surviving ones too), and
step-counter injection at limit-2 / limit-1 where the limit is beyond the exploration depth.
Oracle (step number = number of steps since reset, counted by the explorer, not read from the
state): *never later* — an edge leaving step number T-1 is LAST; *never earlier* — a LAST edge
before step T has an independent documented reason (solved, dead, collision, invalid action, ...);
`env.time_limit` equals the constructor argument.  Horizon-only environments: the closed graph's
depth is at most the structural bound.
"""
from __future__ import annotations

from typing import List,  Any, Dict

from mc import boot  # noqa: F401

import numpy as np

from mc import catalog
from mc.checks import horizon
from mc.engine import Batch, Monitor
from mc.graphprops import run_property

PID = "C11"


def _mask_of(ts: Any) -> np.ndarray | None:
    m = getattr(ts.observation, "action_mask", None)
    return None if m is None else np.asarray(m)


def other_reason(fam: str, env: Any, parents: Batch, actions: np.ndarray, children: Batch) -> np.ndarray:
    """bool[m, nA]: the documented non-time-limit cause of termination holds on this edge."""
    cs, cts = children.state, children.ts
    m, nA = np.asarray(cts.step_type).shape[:2]

    def red(x: Any, op=np.all) -> np.ndarray:
        x = np.asarray(x)
        return op(x.reshape(m, nA, -1), axis=2)

    if fam == "rubiks_cube":
        cube = np.asarray(cs.cube)  # [m,nA,6,n,n]
        return red(cube == cube[:, :, :, :1, :1])
    if fam == "sliding_tile_puzzle":
        p = np.asarray(cs.puzzle)
        n = p.shape[-1]
        goal = np.concatenate([np.arange(1, n * n), [0]]).reshape(n, n)
        return red(p == goal)
    if fam == "tetris":
        pm = _mask_of(parents.ts)  # [m, 4, cols]
        a = np.asarray(actions)  # [nA, 2] (rotation, column)
        invalid = ~pm[:, a[:, 0], a[:, 1]]
        stuck = ~red(np.asarray(cts.observation.action_mask), np.any)
        return invalid | stuck
    if fam == "cleaner":
        pm = _mask_of(parents.ts)  # [m, agents, 4]
        a = np.asarray(actions)  # [nA, agents]
        ag = np.arange(a.shape[1])
        invalid = ~pm[:, ag[None, :], a].all(axis=2)  # [m, nA]
        grid = np.asarray(cs.grid)
        clean = ~red(grid == 0, np.any)  # DIRTY == 0
        return invalid | clean
    if fam == "connector":
        conn = np.asarray(cs.agents.connected)  # [m,nA,agents]
        cm = np.asarray(cts.observation.action_mask)  # [m,nA,agents,5]
        blocked = ~cm[..., 1:].any(axis=-1)
        return (conn | blocked).all(axis=2)
    if fam == "lbf":
        return red(cs.food_items.eaten)
    if fam == "maze":
        ap, tp = cs.agent_position, cs.target_position
        at_target = (np.asarray(ap.row) == np.asarray(tp.row)) & (np.asarray(ap.col) == np.asarray(tp.col))
        stuck = ~red(np.asarray(cts.observation.action_mask), np.any)
        return at_target | stuck
    if fam == "mmst":
        return red(cs.finished_agents)
    if fam == "pac_man":
        return np.asarray(cs.dead).astype(bool) | (np.asarray(cs.pellets) == 0)
    if fam == "robot_warehouse":
        pos = cs.agents.position
        x, y = np.asarray(pos.x), np.asarray(pos.y)  # [m,nA,agents]
        grid = np.asarray(cs.grid)  # [m,nA,2,H,W]
        n_ag = x.shape[2]
        mi, ai = np.meshgrid(np.arange(m), np.arange(nA), indexing="ij")
        coll = np.zeros((m, nA), bool)
        for k in range(n_ag):
            coll |= grid[mi, ai, 1, x[:, :, k], y[:, :, k]] != k + 1
            for k2 in range(k):
                coll |= (x[:, :, k] == x[:, :, k2]) & (y[:, :, k] == y[:, :, k2])
        return coll
    if fam == "snake":
        pm = _mask_of(parents.ts)  # [m,4]
        invalid = ~pm[:, np.asarray(actions)]
        body = np.asarray(cs.body)
        full = np.asarray(cs.length) >= body.shape[-1] * body.shape[-2]
        return invalid | full
    if fam == "sokoban":
        vg, fg = np.asarray(cs.variable_grid), np.asarray(cs.fixed_grid)
        boxes = vg == 4  # BOX
        targets = fg == 2  # TARGET
        return red(~boxes | targets) & red(boxes, np.any)
    raise KeyError(fam)


class TimeLimitMonitor(Monitor):
    def __init__(self, cfg: catalog.Cfg, env: Any):
        self.cfg, self.env, self.fam = cfg, env, cfg.family
        self.T = cfg.time_limit

    def start(self, ex: Any) -> None:
        super().start(ex)
        got = getattr(self.env, "time_limit", None)
        if got is None or int(got) != int(self.T):
            from mc.report import Violation

            sig = f"{self.fam}:time_limit-attribute-differs-from-argument"
            ex.violations.append(Violation(PID, ex.model_name, sig,
                                           f"constructed with time limit {self.T} but env.time_limit == {got}",
                                           {"model": ex.model_name, "ctor": ex.ctor, "kind": "static",
                                            "signature": sig, "property": PID}))
        self.base = None

    def on_roots(self, roots: Batch) -> None:
        # step number of a root: 0 after reset, the injected counter for horizon models
        sc = np.asarray(roots.state.step_count)
        self.root_step = {int(i): int(v) if self.ex.injected_roots else 0 for i, v in zip(roots.ids, sc)}

    def _step_no(self, ids: np.ndarray) -> np.ndarray:
        out = np.zeros(len(ids), np.int64)
        for j, nid in enumerate(ids):
            root, _ = self.ex.path_to(int(nid))
            out[j] = self.root_step[root] + self.ex.depth[int(nid)]
        return out

    def on_edges(self, parents: Batch, actions: np.ndarray, children: Batch, enabled: np.ndarray) -> None:
        ex, T = self.ex, int(self.T)
        live = parents.post == 0
        k = self._step_no(parents.ids) + 1  # step number of the children
        st = np.asarray(children.ts.step_type)
        last = st == 2
        en = enabled & live[:, None]
        late = en & ~last & (k[:, None] >= T)
        for i, a in zip(*np.nonzero(late)):
            ex.violation(f"{self.fam}:episode-continues-at-time-limit",
                         f"step number {k[i]} >= time_limit {T} but the timestep is not LAST",
                         int(parents.ids[i]), int(a))
        early = en & last & (k[:, None] < T)
        if early.any():
            reason = other_reason(self.fam, self.env, parents, actions, children)
            for i, a in zip(*np.nonzero(early & ~reason)):
                ex.violation(f"{self.fam}:episode-ends-before-time-limit-without-reason",
                             f"LAST at step number {k[i]} < time_limit {T} and no documented cause holds",
                             int(parents.ids[i]), int(a))
            ex.count("early_last_with_reason", int((early & reason).sum()))
        at = en & last & (k[:, None] == T)
        if at.any():
            reason = other_reason(self.fam, self.env, parents, actions, children)
            ex.count("last_exactly_at_limit_no_other_reason", int((at & ~reason).sum()))
        ex.count("mid_edges_below_limit", int((en & ~last & (k[:, None] < T)).sum()))


class HorizonMonitor(Monitor):
    def __init__(self, cfg: catalog.Cfg, env: Any):
        self.cfg, self.env, self.fam = cfg, env, cfg.family
        self.bound = int(eval(cfg.horizon, {"env": env}))  # noqa: S307

    def on_edges(self, parents: Batch, actions: np.ndarray, children: Batch, enabled: np.ndarray) -> None:
        ex = self.ex
        st = np.asarray(children.ts.step_type)
        d = np.array([ex.depth[int(i)] for i in parents.ids]) + 1
        over = enabled & (st != 2) & (d[:, None] >= self.bound)
        for i, a in zip(*np.nonzero(over)):
            ex.violation(f"{self.fam}:episode-exceeds-structural-horizon",
                         f"still running after {d[i]} steps; structural horizon is {self.bound}",
                         int(parents.ids[i]), int(a))
        ex.count("horizon_edges", int(enabled.sum()))
        ex.count("horizon_last_edges", int((enabled & (st == 2)).sum()))

    # -- all non-terminal edges (also those into states seen before): longest path / cycles -----------------
    def after_edges(self, parents: Batch, actions: np.ndarray, children: Batch, enabled: np.ndarray,
                    child_ids: np.ndarray) -> None:
        st = np.asarray(children.ts.step_type)
        keep = enabled & (st != 2) & (child_ids >= 0)
        ii, aa = np.nonzero(keep)
        if len(ii):
            if not hasattr(self, "_edges"):
                self._edges = []
            self._edges.append(np.stack([np.asarray(parents.ids)[ii], aa, child_ids[ii, aa]], axis=1).astype(np.int64))

    def finish(self) -> Dict[str, Any]:
        """BFS depth is the SHORTEST way to a state.  An episode can be longer than that if a non-terminal step
        leads back to a state seen before: the graph of non-terminal edges must be acyclic and its longest path
        (plus the closing step) must stay within the structural horizon."""
        ex = self.ex
        out: Dict[str, Any] = {"structural_horizon": self.bound}
        if not getattr(self, "_edges", None):
            return out
        E = np.concatenate(self._edges, axis=0)
        n = len(ex.parent)
        succ: Dict[int, List[Any]] = {}
        indeg = np.zeros(n, np.int64)
        for u, a, v in E:
            succ.setdefault(int(u), []).append((int(a), int(v)))
            indeg[int(v)] += 1
        longest = np.zeros(n, np.int64)  # number of non-terminal steps on the longest way into the node
        pred: Dict[int, Any] = {}
        queue = [i for i in range(n) if indeg[i] == 0]
        seen = 0
        while queue:
            u = queue.pop()
            seen += 1
            for a, v in succ.get(u, ()):
                if longest[u] + 1 > longest[v]:
                    longest[v] = longest[u] + 1
                    pred[v] = (u, a)
                indeg[v] -= 1
                if indeg[v] == 0:
                    queue.append(v)
        out["longest_nonterminal_path"] = int(longest.max()) if n else 0
        ex.count("horizon_longest_path_nodes", seen)
        if seen < n:  # a cycle of non-terminal steps: the episode can be made arbitrarily long
            left = [i for i in range(n) if indeg[i] > 0]
            w = min(left, key=lambda i: ex.depth[i])
            walk, acts, pos = [w], [], {w: 0}
            while True:
                a, v = next((a, v) for a, v in succ[walk[-1]] if indeg[v] > 0)
                acts.append(a)
                if v in pos:
                    cyc = acts[pos[v]:]
                    start = v
                    break
                pos[v] = len(walk)
                walk.append(v)
            k = self.bound // max(1, len(cyc)) + 2
            ex.violation(f"{self.fam}:non-terminal-steps-form-a-cycle",
                         f"a cycle of {len(cyc)} non-terminal step(s) leads back to the same state: the episode can run "
                         f"past any horizon (structural horizon {self.bound})", start, None,
                         extra={"cycle_action_indices": [int(a) for a in cyc]})
            v_ = ex.violations[-1] if ex.violations else None
            if v_ is not None and v_.signature.endswith("non-terminal-steps-form-a-cycle"):
                rp = v_.replay
                rp["action_indices"] = list(rp["action_indices"]) + [int(a) for a in cyc] * k
                rp["actions"] = list(rp["actions"]) + [np.asarray(ex.actions[a]).tolist() for a in cyc] * k
        else:
            over = np.nonzero(longest >= self.bound)[0]
            if len(over):
                w = int(over[np.argmin(longest[over])])
                acts = []
                while w in pred:
                    u, a = pred[w]
                    acts.append(int(a))
                    w = u
                acts = acts[::-1]
                ex.violation(f"{self.fam}:episode-exceeds-structural-horizon",
                             f"a way of {len(acts)} non-terminal steps exists (longer than the shortest way to the same "
                             f"state); structural horizon is {self.bound}", w, None)
                v_ = ex.violations[-1] if ex.violations else None
                if v_ is not None:
                    rp = v_.replay
                    rp["action_indices"] = list(rp["action_indices"]) + acts
                    rp["actions"] = list(rp["actions"]) + [np.asarray(ex.actions[a]).tolist() for a in acts]
        return out


def plan(cfg: catalog.Cfg, env: Any, tier: str) -> Dict[str, Any] | None:
    if cfg.time_limit is not None and cfg.family in horizon.TL_FAMILIES:
        return dict(monitors=[TimeLimitMonitor(cfg, env)])
    if cfg.horizon is not None:
        return dict(monitors=[HorizonMonitor(cfg, env)])
    return None


def main(tier: str, seed: int) -> int:
    cfgs = [c for c in catalog.select(tier) if (c.time_limit is not None and c.family in horizon.TL_FAMILIES)
            or c.horizon is not None]
    rep = run_property(
        PID, tier, seed, cfgs,
        assumptions=[
            "time limits exercised: the catalogue's {1,2,3,4,5,6,7,12,default} per environment",
            "long limits are reached by step-counter injection (models <cfg>@horizon), which trusts that the "
            "state's step counter is what the limit is compared with; short limits are reached by real play",
            "the 'other reason' predicates are recomputed from child-state arrays (solved cube/puzzle, target "
            "reached, dead, collision marker mismatch, invalid action under the parent's mask, ...)",
        ],
        require=["mid_edges_below_limit", "last_exactly_at_limit_no_other_reason", "early_last_with_reason",
                 "horizon_edges", "horizon_last_edges"],
        extra_tasks=horizon.tasks(PID, tier, seed) + _modeb_tasks(tier, seed),
    )
    return rep.finish()


def _modeb_tasks(tier: str, seed: int) -> List[Any]:
    """Whole episodes of the default-size horizon-only configurations (mode B: base schedules + every single-step
    deviation) and MultiCVRP's idle-prefix schedules: the structural horizon is checked where the closed tiny graphs
    cannot reach it (2 x customers steps of MultiCVRP, 20 items of BinPack, 40 nodes of CVRP ...)."""
    from mc.checks import modeb

    fams = sorted({c.family for c in catalog.CATALOG if c.horizon is not None})
    return modeb.tasks(PID, tier, seed, families=fams)


def replay(doc: Dict[str, Any]) -> int:
    from mc.graphprops import replay as _r

    return _r(PID, doc)
