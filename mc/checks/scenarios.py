"""State injection for environments whose interesting states are far from reset:
  * PacMan: the player placed on every corridor cell of the maze (318 cells) — models <cfg>@corridor;
  * RobotWarehouse: agent 0 on every cell x direction x {empty, carrying a requested shelf} — models <cfg>@scenarios.
Injected roots are described in the replay documents; the rest of the state is a real reset state."""
from __future__ import annotations

import importlib
from typing import Any, Dict, List

from mc import boot  # noqa: F401

from mc import catalog

MODELS = {
    "pacman-default@corridor": ("pacman-default", "pac_man"),
    # PacMan: ghost 0 on every corridor cell x travel direction (tunnel exits included), all ghosts released
    "pacman-default@ghosts": ("pacman-default", "pac_man"),
    "rware-tiny-T3@scenarios": ("rware-tiny-T3", "robot_warehouse"),
    "rware-awk-T2@scenarios": ("rware-awk-T2", "robot_warehouse"),
    # two LOADED agents within Manhattan distance 2 of each other, every position x direction pair
    "rware-tiny-T3@pairs": ("rware-tiny-T3", "robot_warehouse"),
    # agent 1 has carried its shelf away (three different poses), agent 0 stands EMPTY-HANDED on every cell x direction -
    # in particular on the rack cell the carried shelf came from
    "rware-tiny-T3@mixed": ("rware-tiny-T3", "robot_warehouse"),
    # LBF: reset states of 6 keys with one food item already marked eaten (so that agents can walk onto its cell)
    "lbf-6x2x2-grid-T3@eaten": ("lbf-6x2x2-grid-T3", "lbf"),
    "lbf-6x2x2-vec-T3@eaten": ("lbf-6x2x2-vec-T3", "lbf"),
    # LBF: every placement of 2 agents and 1 food (x level combinations) on the 5x5 grid, one step, all 36 joint actions
    "lbf-5x2x1-T3@pairs": ("lbf-5x2x1-T3", "lbf"),
    # LBF: three agents on every ordered triple of cells of a 2x4 window (queues, three-way collisions), 216 joint actions
    "lbf-6x3x2-grid-T2@triples": ("lbf-6x3x2-grid-T2", "lbf"),
}


def tasks(pid: str, tier: str, seed: int, families=None) -> List[Any]:
    import os

    only_f = os.environ.get("VERIF_FAMILIES")
    only_m = os.environ.get("VERIF_MODELS")
    out = []
    for name, (cfg_name, fam) in MODELS.items():
        if families is not None and fam not in families:
            continue
        if only_f and fam not in only_f.split(","):
            continue
        if only_m and name not in only_m.split(","):
            continue
        if tier == "quick" and name in ("rware-awk-T2@scenarios", "lbf-6x2x2-vec-T3@eaten"):
            continue
        out.append(("mc.checks.scenarios", "explore", dict(pid=pid, model=name, tier=tier, seed=seed)))
    return out


def build_roots(env: Any, model: str, key_seed: int = 0):
    import jax

    from mc.engine import t_index, to_np

    cfg_name, fam = MODELS[model]
    ref = importlib.import_module(f"mc.ref.{fam}")
    if model.endswith("@eaten"):
        import jax.numpy as jnp
        import numpy as np

        keys = list(range(6))
        st, ts = jax.jit(jax.vmap(env.reset))(jnp.stack([jax.random.PRNGKey(k) for k in keys]))
        st, ts = to_np(st), to_np(ts)
        nf = np.asarray(st.food_items.eaten).shape[1]
        parts, tparts, descs = [], [], []
        for j in range(nf):
            e = np.asarray(st.food_items.eaten).copy()
            e[:, j] = True
            parts.append(st.replace(food_items=st.food_items.replace(eaten=e)))
            tparts.append(ts)
            descs += [{"reset_key_seed": k, "injection": "eaten", "food_marked_eaten": j} for k in keys]
        cat = lambda xs: jax.tree_util.tree_map(lambda *a: np.concatenate(a, axis=0), *xs)  # noqa: E731
        return cat(parts), cat(tparts), descs, True
    s0, ts0 = jax.jit(env.reset)(jax.random.PRNGKey(key_seed))
    s0, ts0 = to_np(s0), to_np(ts0)
    if fam == "lbf":
        import numpy as np

        states, descs = ref.placement_states(env, s0, model.split("@")[1], boot.tier())
        n = len(descs)
        ts = jax.tree_util.tree_map(lambda x: np.repeat(x[None], n, axis=0), ts0)
        stale = True
    elif fam == "pac_man" and model.endswith("@ghosts"):
        states, descs = ref.ghost_states(env, s0)
        ts = ref.corridor_timesteps(env, states)
        stale = False
    elif fam == "pac_man":
        states, descs = ref.corridor_states(env, s0)
        ts = ref.corridor_timesteps(env, states)
        stale = False
    elif model.endswith("@mixed"):
        import numpy as np

        q = np.asarray(s0.request_queue).ravel()
        s1s, d1s = ref.scenario_states(env, s0, agent=1, load_shelf=int(q[1]))
        carrying = [i for i, d1 in enumerate(d1s) if d1["carrying_shelf"] is not None]
        chosen = [carrying[0], carrying[len(carrying) // 2], carrying[-1]] if carrying else []
        parts, descs = [], []
        for i in chosen:
            st, ds = ref.scenario_states(env, t_index(s1s, i), agent=0, load_shelf=int(q[0]))
            keep = [j for j, d0 in enumerate(ds) if d0["carrying_shelf"] is None]
            parts.append(t_index(st, np.array(keep)))
            descs += [{"agent0": ds[j], "agent1": d1s[i]} for j in keep]
        states = jax.tree_util.tree_map(lambda *xs: np.concatenate(xs, axis=0), *parts)
        n = len(descs)
        ts = jax.tree_util.tree_map(lambda x: np.repeat(x[None], n, axis=0), ts0)
        stale = True
    elif model.endswith("@pairs"):
        import numpy as np

        q = np.asarray(s0.request_queue).ravel()
        s1s, d1s = ref.scenario_states(env, s0, agent=1, load_shelf=int(q[1]))
        parts, descs = [], []
        for i, d1 in enumerate(d1s):
            if d1["carrying_shelf"] is None:
                continue
            st, ds = ref.scenario_states(env, t_index(s1s, i), agent=0, load_shelf=int(q[0]))
            keep = [j for j, d0 in enumerate(ds) if d0["carrying_shelf"] is not None
                    and 0 < abs(d0["x"] - d1["x"]) + abs(d0["y"] - d1["y"]) <= 2]
            if keep:
                parts.append(t_index(st, np.array(keep)))
                descs += [{"agent0": ds[j], "agent1": d1} for j in keep]
        states = jax.tree_util.tree_map(lambda *xs: np.concatenate(xs, axis=0), *parts)
        n = len(descs)
        ts = jax.tree_util.tree_map(lambda x: np.repeat(x[None], n, axis=0), ts0)
        stale = True
    else:
        states, descs = ref.scenario_states(env, s0, agent=0)
        n = len(descs)
        ts = jax.tree_util.tree_map(lambda x: __import__("numpy").repeat(x[None], n, axis=0), ts0)
        stale = True
    descs = [dict(d, reset_key_seed=key_seed, injection=model.split("@")[1]) for d in descs]
    return states, ts, descs, stale


def explore(pid: str, model: str, tier: str, seed: int) -> Dict[str, Any]:
    from mc.engine import Explorer

    cfg_name, fam = MODELS[model]
    cfg = catalog.BY_NAME[cfg_name]
    env = cfg.make()
    mod = importlib.import_module(f"mc.checks.{pid.lower()}")
    plan = mod.plan(cfg, env, tier)
    if plan is None:
        return {"model": model, "skipped": True, "states": 0, "transitions": 0}
    monitors = plan.pop("monitors")
    plan.pop("pre", None)
    plan.pop("post_terminal", None)
    plan.pop("max_states", None)
    plan.pop("time_budget_s", None)
    states, ts, descs, stale = build_roots(env, model)
    depth = 1 if (not stale or model.startswith("rware-awk") or model.endswith("@pairs") or model.endswith("@triples") or model.endswith("@mixed")) else 2
    if tier == "thorough" and fam == "pac_man":
        depth = 2
    ex = Explorer(env, model, pid, roots=(states, ts), root_desc=descs, monitors=monitors, max_depth=depth,
                  max_states=200_000, seed=seed, ctor=cfg.ctor, eager_budget_s=4.0, eager_max_paths=1,
                  time_budget_s=120.0 if tier == "quick" else 900.0, **plan)
    ex.injected_roots = stale
    res = ex.run()
    res["family"] = fam
    res["kind"] = "state-injected"
    res["injected_roots"] = len(descs)
    return res
