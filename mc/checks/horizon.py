"""Horizon injection: reach the time-limit boundary of long limits by setting the step counter of
explored states to time_limit-2 / time_limit-1 and exploring all actions from there (C01, C03, C11,
C12 use it on configurations whose limit is beyond the exploration depth)."""
from __future__ import annotations

import importlib
from typing import Any, Dict, List

from mc import boot  # noqa: F401

from mc import catalog

TL_FAMILIES = ("rubiks_cube", "sliding_tile_puzzle", "tetris", "cleaner", "connector", "lbf", "maze", "mmst",
               "pac_man", "robot_warehouse", "snake", "sokoban")


def horizon_cfgs(tier: str) -> List[catalog.Cfg]:
    out = []
    for c in catalog.select(tier):
        if c.family in TL_FAMILIES and c.time_limit is not None and c.time_limit > c.depth:
            out.append(c)
    return out


def tasks(pid: str, tier: str, seed: int) -> List[Any]:
    return [("mc.checks.horizon", "explore", dict(pid=pid, cfg_name=c.name, tier=tier, seed=seed))
            for c in horizon_cfgs(tier)]


def explore(pid: str, cfg_name: str, tier: str, seed: int) -> Dict[str, Any]:
    import jax
    import jax.numpy as jnp
    import numpy as np

    from mc.engine import Explorer, all_actions, t_concat, t_flatten2, t_index, to_np

    cfg = catalog.BY_NAME[cfg_name]
    env = cfg.make()
    T = int(env.time_limit)
    mod = importlib.import_module(f"mc.checks.{pid.lower()}")
    keys = cfg.keys(tier, env)
    st, ts = jax.jit(jax.vmap(env.reset))(jnp.stack([jax.random.PRNGKey(k) for k in keys]))
    from mc.graphprops import choose_alphabet

    sub, sub_note = choose_alphabet(env)
    A = all_actions(env.action_spec) if sub is None else sub
    if len(A) > 64:  # joint alphabets: a spread of 64 actions is enough to diversify the injected roots
        A1 = A[:: max(1, len(A) // 64)][:64]
    else:
        A1 = A
    s1, ts1 = jax.jit(jax.vmap(lambda s, AA: jax.vmap(lambda a: env.step(s, a))(AA), in_axes=(0, None)))(
        st, jnp.asarray(A1))
    st, ts, s1, ts1 = to_np(st), to_np(ts), t_flatten2(to_np(s1)), t_flatten2(to_np(ts1))
    alive = np.asarray(ts1.step_type) != 2
    desc0 = [{"reset_key_seed": int(k), "prefix_actions": []} for k in keys]
    desc1 = [{"reset_key_seed": int(keys[i // len(A1)]), "prefix_actions": [np.asarray(A1[i % len(A1)]).tolist()]}
             for i in range(len(alive))]
    idx = np.nonzero(alive)[0][: (24 if tier == "quick" else 96)]
    base_s = t_concat([st, t_index(s1, idx)])
    base_ts = t_concat([ts, t_index(ts1, idx)])
    base_desc = desc0 + [desc1[i] for i in idx]
    roots_s, roots_ts, descs = [], [], []
    for v in sorted({max(0, T - 2), max(0, T - 1)}):
        sc = np.asarray(base_s.step_count)
        rep = getattr(base_s, 'replace', None) or base_s._replace
        roots_s.append(rep(step_count=np.full_like(sc, v)))
        roots_ts.append(base_ts)
        descs += [dict(d, set_step_count=int(v)) for d in base_desc]
    plan = mod.plan(cfg, env, tier)
    monitors = plan.pop("monitors")
    pre = plan.pop("pre", None)
    plan.pop("post_terminal", None)
    max_states = plan.pop("max_states", cfg.max_states(tier))
    plan.pop("time_budget_s", None)
    ex = Explorer(env, f"{cfg_name}@horizon", pid, roots=(t_concat(roots_s), t_concat(roots_ts)), root_desc=descs,
                  monitors=monitors, max_depth=3, max_states=max_states, seed=seed, ctor=cfg.ctor,
                  eager_budget_s=4.0, eager_max_paths=2, **dict(plan, **({} if sub is None or "actions" in plan
                                                                         else {"actions": sub})))
    ex.injected_roots = True
    res = ex.run()
    if sub_note:
        res["alphabet"] = sub_note
        res["closed"] = False
    res["family"] = cfg.family
    res["kind"] = "horizon-injected"
    res["injected_step_counts"] = sorted({max(0, T - 2), max(0, T - 1)})
    return res


def rebuild_root(env: Any, desc: Dict[str, Any]) -> Any:
    """Replay helper: rebuild an injected root from its description with the plain API."""
    import jax
    import jax.numpy as jnp
    import numpy as np

    s, ts = env.reset(jax.random.PRNGKey(int(desc["reset_key_seed"])))
    dt = np.asarray(env.action_spec.generate_value()).dtype
    for a in desc.get("prefix_actions", []):
        s, ts = env.step(s, jnp.asarray(np.asarray(a, dtype=dt)))
    if "set_step_count" in desc:
        s = s.replace(step_count=jnp.asarray(desc["set_step_count"], jnp.asarray(s.step_count).dtype))
    return s, ts
