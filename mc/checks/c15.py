"""C15 — gym, dm_env and multi-to-single adapters relay the native episode faithfully (DESIGN §4 C15).

Technique: stateful model checking of the only mutable objects of the library.  Three kinds of
pooled tasks (helpers: mc/c15_adapters.py, mc/c15_mts.py):

1. `adapter-histories` (one task per family and configuration, all 23 families, short-episode
   configurations, Connector/LBF behind MultiToSingleWrapper): **every** operation history up to the
   tier's length bound over
       gym     {reset(), reset(seed=1), reset(seed=2), seed(1), step(a0), step(a1)}  x ctor seeds {0,1}
               (+ reset(seed=0) as a seventh operation up to the bound minus one)
       dm_env  {reset(), step(a0), step(a1)}                                         x ctor keys {None, PRNGKey(1)}
   (a0 = action_spec.generate_value(), a1 = a second in-spec action; histories with a step before
   the first reset are skipped) is executed and compared, operation by operation, with a pure
   reference that drives the native API under the documented key schedule:
   observation (independent re-implementation of the "nested dict of numpy arrays" conversion),
   float reward, `terminated == (native discount == 0)`, `truncated == (native step is LAST)`,
   info == extras; dm_env: FIRST with `reward is None and discount is None`, then native step_type /
   reward / discount / observation.  Re-seeding: any two episodes with the same (seed, reset number
   since that seed, actions) must give identical adapter outputs (adapter against adapter).
   Every in-episode observation is tested for membership in the converted gym space / dm_env spec
   tree (independent exact test + the library's own contains/validate).
2. `action-space-members` (one task per family, every catalogue configuration of the tier): every
   member of the converted gym action space (all of them up to 20 000; beyond that every
   per-coordinate extreme, which decides the question for product spaces checked against
   coordinate-wise bounds) is converted as the adapter does (`jnp.asarray`) and tested against the
   original jumanji action spec (independent test on all, `spec.validate` on up to 1 500 / 20 000
   per space).  `space.sample()` is never used.
3. `multi-to-single` (Explorer over tiny Connector / LBF / single-agent configurations and a stub
   3-agent environment whose per-agent rewards and discounts are pairwise different): on every
   root and edge the wrapper's reset/step equals the native one except for reward/discount, which
   equal the aggregators of the native values, for the default (sum, max) and custom pairs.

Counters: states = distinct histories (+ members, + explored states), transitions = adapter
operations executed and compared (+ members, + edges), validated = histories run on genuinely new
adapter objects (+ spec.validate calls, + eager wrapper edges).
See mc/c15_adapters.py for the oracle decisions (post-LAST steps, dm_env docstring vs code).
"""
from __future__ import annotations

import os
from typing import Any, Dict, List

from mc import boot  # noqa: F401

from mc import catalog
from mc.report import Reporter
from mc.runner import run_tasks

PID = "C15"

# slowest first (pool scheduling)
_ORDER = ["bin_pack", "mmst", "robot_warehouse", "pac_man", "rubiks_cube", "lbf", "flat_pack", "multi_cvrp"]


def tasks_for(tier: str, seed: int) -> List[Any]:
    from mc import c15_adapters as A
    from mc import c15_mts as M

    fams = _ORDER + [f for f in catalog.FAMILIES if f not in _ORDER]
    only = [f for f in os.environ.get("VERIF_C15_ONLY", "").split(",") if f]
    if only:  # development aid (mutation runs); main() turns such a run into an error, it can never pass
        fams = [f for f in fams if f in only]
    tasks: List[Any] = []
    for fam in fams:
        n = 1 if tier == "quick" else len(A.CONFIGS[fam])
        for i in range(n):
            tasks.append(("mc.c15_adapters", "run_config", dict(family=fam, index=i, tier=tier, seed=seed,
                                                               model=A.CONFIGS[fam][i][0])))
    if not only:
        tasks.append(("mc.c15_adapters", "run_config", dict(family="_scripted", index=0, tier=tier, seed=seed,
                                                           model=A.STUBS[0][0])))
    for name, in_quick in M.MTS_CONFIGS:
        if only and catalog.BY_NAME[name].family not in only:
            continue
        if in_quick or tier != "quick":
            tasks.append(("mc.c15_mts", "run_mts", dict(cfg_name=name, tier=tier, seed=seed, model=f"mts:{name}")))
    tasks.append(("mc.c15_mts", "run_mts_stub", dict(tier=tier, seed=seed, model="mts:stub")))
    for fam in fams:
        tasks.append(("mc.c15_adapters", "run_action_spaces", dict(family=fam, tier=tier, seed=seed,
                                                                  model=f"action-space:{fam}")))
    return tasks


def main(tier: str, seed: int) -> int:
    from mc import c15_adapters as A

    rep = Reporter(PID, tier, seed)
    b = A.BOUNDS[tier]
    rep.assumptions += [
        f"gym histories: all sequences of length <= {b['gym']} over 6 operations and of length <= {b['gym'] - 1} over 7 "
        f"(with reset(seed=0)), dm_env: length <= {b['dm']} over 3 "
        "operations; histories with a step before the first reset are skipped (outside the documented API)",
        "one adapter object per (configuration, constructor seed/key) is reused across histories with _key/_state put "
        f"back to the constructor's values (no other attribute may change); {b['fresh']} gym + {b['fresh']} dm_env "
        "histories per configuration additionally run on new adapter objects",
        "steps after a LAST step are compared with the native API stepping the terminal state; their observations "
        "are not required to lie in the converted space",
        "dm_env: a step after LAST may either relay the native step (what the code does) or restart (what the "
        "docstring says); a step before the first reset is outside the statement (recorded, not judged)",
        "converted action spaces with more than 20 000 members are checked on all per-coordinate extremes only",
        "environments: one short-episode configuration per family in the quick tier, two for most in the thorough tier",
    ]
    run_tasks(rep, tasks_for(tier, seed))
    rep.require_positive(
        "histories", "resets_with_seed", "gym_resets_after_first_episode", "reseed_repeats_compared",
        "terminated_true", "truncated_true", "terminated_false_truncated_true", "terminated_false_truncated_false",
        "gym_obs_space_checked", "dm_obs_spec_checked", "dm_first_steps", "dm_mid_steps", "dm_last_steps",
        "dm_resets_after_first_episode", "action_members_checked", "action_spaces_fully_enumerated",
        "aggregations_checked", "mts_edges_compared", "mts_resets_compared", "mts_last_edges",
        "multi_agent_edges_with_sum_max_mean_all_distinct", "multi_agent_edges_with_discount_max_min_sum_all_distinct",
    )
    fams = {m.get("family") for m in rep.coverage["per_model"] if m.get("part") == "adapter-histories"}
    missing = sorted(set(catalog.FAMILIES) - fams)
    if missing:
        rep.errors.append(f"families without adapter histories: {missing}")
    if os.environ.get("VERIF_C15_ONLY"):
        rep.errors.append("restricted development run (VERIF_C15_ONLY is set): not a verdict")
    rep.coverage["exhaustive"] = not rep.errors and all(
        m.get("exhaustive", m.get("closed", False)) for m in rep.coverage["per_model"])
    rep.coverage["bounds"] = dict(b)
    rep.coverage["findings_not_judged"] = [
        "JumanjiToDMEnvWrapper.step docstring promises a new sequence after LAST / before reset; the code steps the "
        "terminal state natively after LAST (counter dm_post_last_relayed) and raises AttributeError before the "
        "first reset (counter dm_step_before_reset_raises). Not part of the C15 statement."
    ]
    return rep.finish()


def replay(doc: Dict[str, Any]) -> int:
    rdoc = doc.get("replay", doc)
    kind = rdoc.get("kind")
    if kind == "mts" or (kind is None and str(rdoc.get("model", "")).startswith("mts:")):
        from mc import c15_mts as M

        return M.replay(rdoc)
    from mc import c15_adapters as A

    return A.replay(rdoc)
