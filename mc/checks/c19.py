"""C19 — pytree helpers satisfy their algebraic laws (DESIGN §4 C19).

Mode C (bounded-exhaustive inputs), all through the plain public API (nothing here is sampled):

`stack:<structure>`  tree_transpose / tree_slice / tree_add_element over the synthetic structures
    {leaf, tuple, list, dict, namedtuple, tuple-with-None, nested depth 2-3, chex dataclass} x base leaf
    shape {(), (1,), (2,), (2,3), (2,1), (1,3), (2,2,2)} x base dtype {int32, float32, bool, uint8} (leaf j of a tree takes the
    j-th next shape and dtype, so trees mix shapes and dtypes) x leaf container {jax, numpy} x batch
    size B = 1..4 (quick) / 1..8 (thorough) x **every** index i in 0..B-1 given as a Python int and as
    a 0-d jax int32.  Leaf values depend on (tree index, leaf index, element index), so a slice taken
    at a wrong index, a transposed axis or a swapped leaf cannot coincide with the expected tree.
`real:<cfg>`  the same laws on real (state, timestep) pairs returned by `env.reset` of six catalogue
    configurations (chex dataclasses nesting namedtuples), keys 0..B-1, element from key 100;
    additionally through `jax.jit` with a traced index for the largest B.
  Laws: `tree_slice(tree_transpose(ts), i) == ts[i]` with tree structure, leaf shapes and dtypes
  preserved exactly (the stacked tree has leaves of shape (B,)+shape and the same dtype);
  `tree_add_element(t, i, e)` equals `e` at index i and `t` at every other index, same structure,
  shapes and dtypes, and neither `t` nor `e` is modified.  i = -1 is *reported* (evidence
  `negative_index`) but not judged: the docs say "index of the slice" and nothing about negatives.

`equality:*`  is_equal_pytree / assert_trees_are_different / assert_trees_are_equal on nests of dicts,
    lists, tuples and namedtuples (the helper maps with dm-tree, so same-structure pairs are the
    domain): (i) ALL single-leaf perturbations — every single element changed, the next float after
    one element (1.0 vs 1.0000001), every listed reshape / extension / repetition of the leaf, every
    dtype change — at every leaf position of every structure, the other leaves being equal copies;
    (ii) ALL ordered pairs of a universe of ~45 leaves (Python scalars, None, 0-d arrays, size-0 arrays,
    constant arrays of broadcast-compatible shapes, jax arrays, -0.0/0.0, 255/-1 in uint8/int32) in
    four tree contexts.  Reference: own traversal of the nest; two leaves are equal iff
    `np.asarray(leaf).shape` agree and the elements, converted to Python numbers, are pairwise `==`.
  Decision recorded here: the statement says "equal shape and equal elements", so leaves with equal
  values and different dtypes (int32 1 vs float32 1.0, True vs 1, empty int vs empty float) count as
  EQUAL — the conservative reading, identical to what `np.array_equal` does.  NaN is outside the
  alphabet (IEEE inequality contradicts reflexivity by definition).
  Laws: result is a `bool`; equals the reference; symmetric; reflexive (also against a deep copy);
  `assert_trees_are_different` raises AssertionError iff the trees are equal; `assert_trees_are_equal`
  raises AssertionError iff they differ.

No defect of the pinned tree is known in this scope.
"""
from __future__ import annotations

import collections
import copy
import itertools
from typing import Any, Callable, Dict, Iterator, List, Optional, Tuple

from mc import boot  # noqa: F401

import chex
import numpy as np

from mc.report import Reporter, Violation
from mc.runner import run_tasks

PID = "C19"
MOD = "mc.checks.c19"
SHAPES: List[Tuple[int, ...]] = [(), (1,), (2,), (2, 3), (2, 1), (1, 3), (2, 2, 2)]
DTYPES = ["int32", "float32", "bool", "uint8"]
REAL_CFGS = ["snake-3x3-T12", "maze-5x5-T6", "tsp-5", "knapsack-6", "connector-4x2-T5", "binpack-5"]
_CAP = 5
ELEM_B = 11  # tree index used for the replacement element (batch sizes stay below it)

NT = collections.namedtuple("NT", ["x", "y"])


@chex.dataclass
class DC:
    a: Any
    b: Any


class _Acc:
    def __init__(self, model: str):
        self.model = model
        self.violations: List[Violation] = []
        self.nsig: Dict[str, int] = {}
        self.vac: Dict[str, int] = {}
        self.samples: List[Any] = []
        self.states = self.transitions = self.validated = 0

    def count(self, k: str, n: int = 1) -> None:
        self.vac[k] = self.vac.get(k, 0) + n

    def bad(self, sig: str, msg: str, replay: Dict[str, Any]) -> None:
        self.nsig[sig] = self.nsig.get(sig, 0) + 1
        if self.nsig[sig] <= _CAP:
            self.violations.append(Violation(PID, self.model, sig, msg, dict(replay, signature=sig, property=PID)))

    def result(self, **extra: Any) -> Dict[str, Any]:
        out = dict(model=self.model, states=self.states, transitions=self.transitions, validated=self.validated,
                   samples=self.samples, violations=self.violations, vacuity=self.vac, exhaustive=True,
                   violating_cases_by_signature=dict(self.nsig))
        out.update(extra)
        return out


# ------------------------------------------------------------------------------------------------
# leaves and structures
# ------------------------------------------------------------------------------------------------
def leaf_value(b: int, j: int, shape: Tuple[int, ...], dtype: str) -> np.ndarray:
    """Deterministic leaf whose every element depends on tree index b, leaf index j, element index k."""
    n = int(np.prod(shape)) if shape else 1
    k = np.arange(n)
    if dtype == "int32":
        v = b * 1000 + j * 100 + k - 50
    elif dtype == "float32":
        v = b + 0.25 * j + 0.5 * k - 1.0
    elif dtype == "bool":
        v = ((b + j + k + (k // 2)) % 2) == 1
    else:  # uint8
        v = (b * 37 + j * 11 + k * 3 + 250) % 256
    return np.asarray(v, dtype=dtype).reshape(shape)


STRUCTS: Dict[str, Tuple[int, Callable[[Callable[[int], Any]], Any]]] = {
    "leaf": (1, lambda L: L(0)),
    "tuple": (2, lambda L: (L(0), L(1))),
    "list": (3, lambda L: [L(0), L(1), L(2)]),
    "dict": (2, lambda L: {"b": L(0), "a": L(1)}),
    "namedtuple": (2, lambda L: NT(x=L(0), y=L(1))),
    "tuple-with-none": (2, lambda L: (L(0), None, L(1))),
    "nested": (4, lambda L: {"p": (L(0), [L(1)]), "q": NT(x=L(2), y={"z": L(3)})}),
    "dataclass": (3, lambda L: DC(a=L(0), b=NT(x=L(1), y=[L(2)]))),
}


def build(struct: str, b: int, s: int, d: int, kind: str) -> Any:
    import jax.numpy as jnp

    def L(j: int) -> Any:
        v = leaf_value(b, j, SHAPES[(s + j) % len(SHAPES)], DTYPES[(d + j) % len(DTYPES)])
        return jnp.asarray(v) if kind == "jax" else v

    return STRUCTS[struct][1](L)


def _flat(tree: Any) -> Tuple[List[Any], Any]:
    import jax

    return jax.tree_util.tree_flatten(tree)


def _dtype_of(x: Any) -> np.dtype:
    return np.dtype(x.dtype) if hasattr(x, "dtype") else np.asarray(x).dtype


def compare_trees(got: Any, want: Any, what: str) -> Optional[Tuple[str, str]]:
    """Exact comparison: structure, then per leaf shape, dtype, values. -> (kind, detail) or None."""
    lg, tg = _flat(got)
    lw, tw = _flat(want)
    if tg != tw:
        return "structure", f"{what}: structure {tg} != {tw}"
    for n, (x, y) in enumerate(zip(lg, lw)):
        xa, ya = np.asarray(x), np.asarray(y)
        if xa.shape != ya.shape:
            return "shape", f"{what}: leaf {n} shape {xa.shape} != {ya.shape}"
        if _dtype_of(x) != _dtype_of(y):
            return "dtype", f"{what}: leaf {n} dtype {_dtype_of(x)} != {_dtype_of(y)}"
        if not (xa.tobytes() == ya.tobytes() or np.array_equal(xa, ya)):
            return "values", f"{what}: leaf {n} = {xa.ravel()[:6].tolist()} expected {ya.ravel()[:6].tolist()}"
    return None


def np_stack_tree(ts: List[Any]) -> Any:
    """Reference stacking (NumPy, independent of tree_transpose); leaves become jax arrays."""
    import jax
    import jax.numpy as jnp

    return jax.tree_util.tree_map(lambda *xs: jnp.asarray(np.stack([np.asarray(x) for x in xs], axis=0)), *ts)


def np_index_tree(tree: Any, i: int) -> Any:
    import jax

    return jax.tree_util.tree_map(lambda x: np.asarray(x)[i], tree)


def check_stack_case(acc: _Acc, ts: List[Any], elem: Any, rep: Dict[str, Any], tag: str,
                     index_kinds: Tuple[str, ...] = ("int", "jax"), jit: bool = False) -> None:
    """All laws for one list of trees `ts` (B = len(ts)) and one replacement element."""
    import jax
    import jax.numpy as jnp

    from jumanji import tree_utils

    B = len(ts)
    acc.states += 1
    snap_ts = [[np.array(np.asarray(x)) for x in _flat(t)[0]] for t in ts]
    try:
        tt = tree_utils.tree_transpose(ts)
    except Exception as e:  # noqa: BLE001
        acc.bad(f"tree_transpose:raises:{tag}", f"tree_transpose(B={B}) raised {type(e).__name__}: {str(e)[:200]}", rep)
        return
    acc.transitions += 1
    want_tt = np_stack_tree(ts)
    p = compare_trees(tt, want_tt, f"tree_transpose(B={B})")
    if p is None:  # dtype of the stacked leaves = dtype of the inputs
        for n, (x, x0) in enumerate(zip(_flat(tt)[0], _flat(ts[0])[0])):
            if _dtype_of(x) != _dtype_of(x0):
                p = ("dtype", f"tree_transpose(B={B}): leaf {n} dtype {_dtype_of(x)} from inputs of dtype {_dtype_of(x0)}")
    if p:
        acc.bad(f"tree_transpose:{p[0]}-not-preserved:{tag}", p[1], rep)
    else:
        acc.count("transposes_checked")
    slice_fn = jax.jit(tree_utils.tree_slice) if jit else tree_utils.tree_slice
    add_fn = jax.jit(tree_utils.tree_add_element) if jit else tree_utils.tree_add_element

    def idx(i: int, kind: str) -> Any:
        return i if kind == "int" else jnp.asarray(i, jnp.int32)

    kinds = ("jax",) if jit else index_kinds
    for i in range(B):
        for kind in kinds:
            acc.transitions += 1
            try:
                sl = slice_fn(tt, idx(i, kind))
            except Exception as e:  # noqa: BLE001
                acc.bad(f"tree_slice:raises:{tag}", f"tree_slice(tree_transpose(ts), {i}) [B={B}] raised "
                        f"{type(e).__name__}: {str(e)[:200]}", dict(rep, i=i, index_kind=kind))
                continue
            p = compare_trees(sl, ts[i], f"tree_slice(tree_transpose(ts), {i}) [B={B}, index as {kind}{', jit' if jit else ''}]")
            if p:
                acc.bad(f"tree_slice-after-transpose:{p[0]}:{tag}", p[1], dict(rep, i=i, index_kind=kind))
            else:
                acc.count("slices_checked")
    for t, snap in zip(ts, snap_ts):
        for x, y in zip(_flat(t)[0], snap):
            if not np.array_equal(np.asarray(x), y):
                acc.bad(f"tree_transpose:input-modified:{tag}", "an input tree changed", rep)
    # tree_add_element on an independently stacked tree
    t = want_tt
    snap_t = [np.array(np.asarray(x)) for x in _flat(t)[0]]
    snap_e = [np.array(np.asarray(x)) for x in _flat(elem)[0]]
    for i in range(B):
        for kind in kinds:
            acc.transitions += 1
            try:
                r = add_fn(t, idx(i, kind), elem)
            except Exception as e:  # noqa: BLE001
                acc.bad(f"tree_add_element:raises:{tag}", f"tree_add_element(t, {i}, e) [B={B}] raised "
                        f"{type(e).__name__}: {str(e)[:200]}", dict(rep, i=i, index_kind=kind))
                continue
            ok = True
            lr, tr = _flat(r)
            lt, t_t = _flat(t)
            if tr != t_t:
                acc.bad(f"tree_add_element:structure-not-preserved:{tag}", f"{tr} != {t_t}", dict(rep, i=i))
                continue
            for n, (x, y) in enumerate(zip(lr, lt)):
                if np.asarray(x).shape != np.asarray(y).shape or _dtype_of(x) != _dtype_of(y):
                    acc.bad(f"tree_add_element:shape-or-dtype-not-preserved:{tag}",
                            f"leaf {n}: {np.asarray(x).shape}/{_dtype_of(x)} from {np.asarray(y).shape}/{_dtype_of(y)}",
                            dict(rep, i=i))
                    ok = False
            if not ok:
                continue
            for k in range(B):
                want = elem if k == i else np_index_tree(t, k)
                got = np_index_tree(r, k)
                lg, lw = _flat(got)[0], _flat(want)[0]
                for n, (x, y) in enumerate(zip(lg, lw)):
                    if not np.array_equal(np.asarray(x), np.asarray(y)):
                        which = "index-i-not-set" if k == i else "other-index-changed"
                        acc.bad(f"tree_add_element:{which}:{tag}",
                                f"tree_add_element(t, {i}, e) [B={B}, index as {kind}{', jit' if jit else ''}]: result[{k}] leaf {n} = "
                                f"{np.asarray(x).ravel()[:6].tolist()} expected {np.asarray(y).ravel()[:6].tolist()}",
                                dict(rep, i=i, index_kind=kind))
                        ok = False
            if ok:
                acc.count("sets_checked")
                if B > 1:
                    acc.count("sets_with_untouched_neighbours")
    for x, y in zip(_flat(t)[0], snap_t):
        if not np.array_equal(np.asarray(x), y):
            acc.bad(f"tree_add_element:input-tree-modified:{tag}", "the batched input tree changed", rep)
    for x, y in zip(_flat(elem)[0], snap_e):
        if not np.array_equal(np.asarray(x), y):
            acc.bad(f"tree_add_element:input-element-modified:{tag}", "the element changed", rep)


def negative_index_report(ts: List[Any], elem: Any) -> Dict[str, Any]:
    from jumanji import tree_utils

    out: Dict[str, Any] = {}
    B = len(ts)
    try:
        sl = tree_utils.tree_slice(tree_utils.tree_transpose(ts), -1)
        out["tree_slice(i=-1)"] = "equals the last tree" if compare_trees(sl, ts[-1], "") is None else "differs from the last tree"
    except Exception as e:  # noqa: BLE001
        out["tree_slice(i=-1)"] = f"raises {type(e).__name__}"
    try:
        t = np_stack_tree(ts)
        r = tree_utils.tree_add_element(t, -1, elem)
        same_last = compare_trees(np_index_tree(r, B - 1), _as_np(elem), "") is None
        others = all(compare_trees(np_index_tree(r, k), np_index_tree(t, k), "") is None for k in range(B - 1))
        out["tree_add_element(i=-1)"] = f"sets the last index: {same_last}; others untouched: {others}"
    except Exception as e:  # noqa: BLE001
        out["tree_add_element(i=-1)"] = f"raises {type(e).__name__}"
    return out


def _as_np(tree: Any) -> Any:
    import jax

    return jax.tree_util.tree_map(np.asarray, tree)


def stack_task(model: str, struct: str, max_b: int) -> Dict[str, Any]:
    acc = _Acc(model)
    neg: Dict[str, Any] = {}
    for s in range(len(SHAPES)):
        for d in range(len(DTYPES)):
            for kind in ("jax", "numpy"):
                for B in range(1, max_b + 1):
                    ts = [build(struct, b, s, d, kind) for b in range(B)]
                    elem = build(struct, ELEM_B, s, d, kind)
                    rep = {"kind": "stack", "struct": struct, "s": s, "d": d, "leaf_kind": kind, "B": B}
                    check_stack_case(acc, ts, elem, rep, tag=struct)
                    if B == 3 and kind == "jax" and s == d:
                        neg[f"{struct}/shape{SHAPES[s]}/{DTYPES[d]}"] = negative_index_report(ts, elem)
    acc.validated = acc.states
    acc.samples.append({"struct": struct, "tree_0": repr(build(struct, 0, 2, 0, "numpy"))[:300], "B": max_b})
    outcomes: Dict[str, List[str]] = {}
    for case, o in neg.items():  # reported, not judged: distinct outcomes and how many cases showed each
        for fn, what in o.items():
            outcomes.setdefault(f"{fn}: {what}", []).append(case)
    return acc.result(structure=struct, max_batch=max_b,
                      negative_index={k: f"{len(v)} case(s), e.g. {v[0]}" for k, v in outcomes.items()})


def real_task(model: str, cfg_name: str, max_b: int) -> Dict[str, Any]:
    import jax

    from mc import catalog

    acc = _Acc(model)
    env = catalog.BY_NAME[cfg_name].make()
    reset = jax.jit(env.reset)
    items = [reset(jax.random.PRNGKey(k)) for k in range(max_b)]
    elem = reset(jax.random.PRNGKey(100))
    nleaves = len(_flat(items[0])[0])
    for B in range(1, max_b + 1):
        rep = {"kind": "real", "cfg": cfg_name, "B": B}
        check_stack_case(acc, items[:B], elem, rep, tag="env-state")
    check_stack_case(acc, items[:max_b], elem, {"kind": "real", "cfg": cfg_name, "B": max_b, "jit": True},
                     tag="env-state-jit", jit=True)
    acc.count("real_state_cases", max_b + 1)
    acc.validated = acc.states
    acc.samples.append({"cfg": cfg_name, "state_type": type(items[0][0]).__name__, "leaves": nleaves,
                        "structure": str(_flat(items[0])[1])[:300]})
    return acc.result(cfg=cfg_name, leaves=nleaves, max_batch=max_b,
                      negative_index=negative_index_report(items[:min(3, max_b)], elem))


# ------------------------------------------------------------------------------------------------
# equality helper
# ------------------------------------------------------------------------------------------------
NESTS: Dict[str, Tuple[int, Callable[[List[Any]], Any]]] = {
    "leaf": (1, lambda l: l[0]),
    "tuple": (2, lambda l: (l[0], l[1])),
    "list": (3, lambda l: [l[0], l[1], l[2]]),
    "dict": (2, lambda l: {"b": l[0], "a": l[1]}),
    "namedtuple": (2, lambda l: NT(x=l[0], y=l[1])),
    "nested": (4, lambda l: {"p": (l[0], [l[1]]), "q": NT(x=l[2], y={"z": l[3]})}),
}
EQ_SHAPES: List[Tuple[int, ...]] = SHAPES + [(0,)]


def ref_flat(t: Any) -> Iterator[Any]:
    if isinstance(t, dict):
        for k in sorted(t):
            yield from ref_flat(t[k])
    elif isinstance(t, (list, tuple)):
        for v in t:
            yield from ref_flat(v)
    else:
        yield t


def ref_leaf_equal(a: Any, b: Any) -> bool:
    xa, xb = np.asarray(a), np.asarray(b)
    if xa.shape != xb.shape:
        return False
    return all(u == v for u, v in zip(xa.ravel().tolist(), xb.ravel().tolist()))


def ref_equal(t1: Any, t2: Any) -> bool:
    l1, l2 = list(ref_flat(t1)), list(ref_flat(t2))
    assert len(l1) == len(l2)
    return all(ref_leaf_equal(a, b) for a, b in zip(l1, l2))


def perturbations(x: np.ndarray) -> List[Tuple[str, np.ndarray, Optional[bool]]]:
    """(kind, perturbed leaf, equality known by construction or None)."""
    out: List[Tuple[str, np.ndarray, Optional[bool]]] = []
    n = x.size
    for k in range(n):
        y = x.copy().reshape(-1)
        if x.dtype == np.bool_:
            y[k] = not y[k]
        elif x.dtype.kind == "f":
            y[k] = y[k] + 1.0
        else:
            y[k] = y[k] + 1  # uint8 255 wraps to 0, still a different element
        out.append((f"element[{k}]", y.reshape(x.shape), False))
        if x.dtype.kind == "f":
            z = x.copy().reshape(-1)
            z[k] = np.nextafter(z[k], np.float32(np.inf))
            out.append((f"next-float[{k}]", z.reshape(x.shape), False))
    reshapes = {(): [(1,), (1, 1)], (1,): [(), (1, 1)], (2,): [(2, 1), (1, 2)],
                (2, 3): [(3, 2), (6,), (1, 2, 3), (2, 3, 1)], (0,): [(0, 1), (1, 0), (0, 0)]}
    for sh in reshapes.get(x.shape, []):
        out.append((f"reshape{sh}", x.reshape(sh), False))
    if x.ndim == 0:  # repetition: () -> (2,), broadcast trap
        out.append(("repeat(2,)", np.repeat(x.reshape(1), 2), False))
    else:
        if x.size:  # duplicate the last slice along each axis: every new element equals an old one
            for ax in range(x.ndim):
                last = np.take(x, [x.shape[ax] - 1], axis=ax)
                out.append((f"extend-axis{ax}", np.concatenate([x, last], axis=ax), False))
        else:
            out.append(("extend(1,)", np.zeros((1,), x.dtype), False))
        if x.shape[0] == 1:  # (1,) -> (2,) with the value repeated: == broadcasts to all-True
            out.append(("repeat-axis0", np.repeat(x, 2, axis=0), False))
    for dt in ("int32", "float32", "bool", "uint8", "float64", "int64", "int8"):
        if np.dtype(dt) == x.dtype:
            continue
        y = x.astype(dt)
        same = bool((y.astype(np.float64) == x.astype(np.float64)).all())
        out.append((f"astype({dt})", y, True if same else False))
    return out


def check_pair(acc: _Acc, t1: Any, t2: Any, expect: Optional[bool], rep: Dict[str, Any], tag: str) -> None:
    from jumanji.testing import pytrees

    acc.states += 1
    want = ref_equal(t1, t2)
    if expect is not None and want != expect:
        acc.bad("reference:disagrees-with-construction", f"{rep}: reference says {want}, construction says {expect}", rep)
        return
    acc.count("equal_pairs" if want else "unequal_pairs")
    fwd: Optional[bool] = None
    for a, b, d in ((t1, t2, "forward"), (t2, t1, "swapped")):
        acc.transitions += 3
        try:
            got = pytrees.is_equal_pytree(a, b)
        except Exception as e:  # noqa: BLE001
            acc.bad(f"is_equal_pytree:raises:{tag}", f"{d} {rep}: {type(e).__name__}: {e}", rep)
            continue
        if type(got) is not bool:
            acc.bad("is_equal_pytree:result-not-bool", f"{rep}: returned {type(got).__name__}", rep)
        if d == "forward":
            fwd = bool(got)
            if fwd != want:
                sig = "is_equal_pytree:true-on-different-leaves" if got else "is_equal_pytree:false-on-equal-leaves"
                acc.bad(f"{sig}:{tag}", f"is_equal_pytree(t1, t2) = {got}, expected {want}; case {rep}", rep)
        elif fwd is not None and bool(got) != fwd:
            acc.bad(f"is_equal_pytree:not-symmetric:{tag}", f"is_equal_pytree(t1, t2) = {fwd} but "
                    f"is_equal_pytree(t2, t1) = {got}; case {rep}", rep)
        else:
            acc.count("symmetric_checks")
        for fn, should_raise, name in ((pytrees.assert_trees_are_different, want, "assert_trees_are_different"),
                                       (pytrees.assert_trees_are_equal, not want, "assert_trees_are_equal")):
            try:
                r = fn(a, b)
                raised = False
            except AssertionError:
                raised = True
            except Exception as e:  # noqa: BLE001
                acc.bad(f"{name}:raises-non-AssertionError", f"{rep}: {type(e).__name__}: {e}", rep)
                continue
            if raised != should_raise:
                acc.bad(f"{name}:{'does-not-raise' if should_raise else 'raises'}-on-"
                        f"{'equal' if want else 'different'}-trees:{tag}", f"{d}: case {rep}", rep)
            elif name == "assert_trees_are_different":
                acc.count("different_asserts_raised" if raised else "different_asserts_passed")
            else:
                acc.count("equal_asserts_raised" if raised else "equal_asserts_passed")
    # reflexivity
    for t in (t1, t2):
        acc.transitions += 2
        for other, how in ((t, "same object"), (copy.deepcopy(t), "deep copy")):
            try:
                ok = pytrees.is_equal_pytree(t, other) is True
            except Exception as e:  # noqa: BLE001
                ok = False
            if not ok:
                acc.bad(f"is_equal_pytree:not-reflexive:{tag}", f"tree vs {how}: case {rep}", rep)
            else:
                acc.count("reflexive_checks")


def _leaf_kind(v: np.ndarray, kind: str) -> Any:
    import jax.numpy as jnp

    if kind == "jax":
        return jnp.asarray(v)
    if kind == "py":
        return v.item()
    return v


def _pert_cases(nest: str, s: int, d: int, kind: str) -> Iterator[Tuple[Any, Any, Optional[bool], Dict[str, Any]]]:
    n, mk = NESTS[nest]

    def base(j: int) -> np.ndarray:
        return leaf_value(0, j, EQ_SHAPES[(s + j) % len(EQ_SHAPES)], DTYPES[(d + j) % len(DTYPES)])

    for p in range(n):
        x = base(p)
        for pk, y, expect in perturbations(x):
            if kind == "py" and (x.ndim or y.ndim):
                continue
            if kind == "jax" and y.dtype in (np.dtype("float64"), np.dtype("int64")):
                continue  # x64 is off: jax would silently narrow
            l1 = [_leaf_kind(base(j), kind if (kind != "py" or base(j).ndim == 0) else "numpy") for j in range(n)]
            l2 = [copy.deepcopy(v) for v in l1]
            l1[p] = _leaf_kind(x, kind)
            l2[p] = _leaf_kind(y, kind)
            rep = {"kind": "perturbation", "nest": nest, "s": s, "d": d, "leaf_kind": kind, "position": p,
                   "perturbation": pk}
            yield mk(l1), mk(l2), expect, rep


def perturbation_task(model: str, nest: str) -> Dict[str, Any]:
    acc = _Acc(model)
    kinds_seen: Dict[str, int] = {}
    for s in range(len(EQ_SHAPES)):
        for d in range(len(DTYPES)):
            for kind in ("numpy", "jax", "py"):
                for t1, t2, expect, rep in _pert_cases(nest, s, d, kind):
                    k = rep["perturbation"].split("[")[0].split("(")[0]
                    kinds_seen[k] = kinds_seen.get(k, 0) + 1
                    acc.count({"element": "element_perturbations", "next-float": "near_equal_float_pairs",
                               "astype": "dtype_perturbations"}.get(k, "shape_perturbations"))
                    if k == "astype" and expect:
                        acc.count("value_equal_different_dtype_pairs")
                    check_pair(acc, t1, t2, expect, rep, tag="perturbation")
    acc.validated = acc.states
    acc.samples.append({"nest": nest, "perturbation_kinds": kinds_seen})
    return acc.result(nest=nest)


def universe() -> List[Tuple[str, Any]]:
    import jax.numpy as jnp

    f32, i32, u8 = np.float32, np.int32, np.uint8
    U: List[Tuple[str, Any]] = [
        ("py 1", 1), ("py 1.0", 1.0), ("py True", True), ("py 0", 0), ("py 0.0", 0.0), ("py False", False),
        ("py 2", 2), ("py -1", -1), ("None", None),
        ("i32 1", np.asarray(1, i32)), ("f32 1", np.asarray(1, f32)), ("bool True", np.asarray(True)),
        ("u8 1", np.asarray(1, u8)), ("u8 255", np.asarray(255, u8)), ("i32 -1", np.asarray(-1, i32)),
        ("i32 255", np.asarray(255, i32)), ("f32 next(1)", np.nextafter(f32(1), f32(2))),
        ("f32 -0.0", np.asarray(-0.0, f32)), ("f32 0.0", np.asarray(0.0, f32)),
        ("f32 [1,2]", np.asarray([1, 2], f32)), ("i32 [1,2]", np.asarray([1, 2], i32)),
        ("i32 [2,1]", np.asarray([2, 1], i32)), ("i32 [1,2,3]", np.asarray([1, 2, 3], i32)),
        ("f32 [1,next(2)]", np.asarray([1, np.nextafter(f32(2), f32(3))], f32)),
        ("bool [T,F]", np.asarray([True, False])), ("u8 [1,0]", np.asarray([1, 0], u8)),
        ("f32 ones(2,)", np.ones((2,), f32)), ("bool ones(2,)", np.ones((2,), bool)),
        ("jax i32 [1,2]", jnp.asarray([1, 2], jnp.int32)), ("jax f32 1", jnp.asarray(1.0, jnp.float32)),
        ("jax i32 ones(1,2)", jnp.ones((1, 2), jnp.int32)),
        ("f32 empty(0,)", np.zeros((0,), f32)),
    ]
    for sh in [(1,), (2,), (1, 2), (2, 1), (2, 3), (1, 3), (0,), (0, 2), (2, 0), (1, 1)]:
        U.append((f"i32 ones{sh}", np.ones(sh, i32)))
    return U


def pairs_task(model: str) -> Dict[str, Any]:
    acc = _Acc(model)
    U = universe()
    c = np.asarray([3, 4], np.int32)
    contexts: Dict[str, Callable[[Any], Any]] = {
        "leaf": lambda v: v,
        "tuple-first": lambda v: (v, c.copy()),
        "dict-second": lambda v: {"a": c.copy(), "b": v},  # dm-tree orders dict keys
        "nested-deepest": lambda v: {"p": (c.copy(), [1.5]), "q": NT(x=True, y={"z": v})},
    }
    for (na, a), (nb, b) in itertools.product(U, U):
        for cn, mk in contexts.items():
            rep = {"kind": "pair", "a": na, "b": nb, "context": cn}
            check_pair(acc, mk(a), mk(b), None, rep, tag="leaf-pair")
            if ref_leaf_equal(a, b) and na != nb:
                acc.count("equal_pairs_of_distinct_leaves")
            sa, sb = np.asarray(a).shape, np.asarray(b).shape
            if sa != sb:
                try:
                    if bool(np.all(np.asarray(a) == np.asarray(b))):
                        acc.count("broadcast_traps")  # `==`.all() would call these equal
                except Exception:  # noqa: BLE001
                    pass
    acc.validated = acc.states
    acc.samples.append({"universe": [n for n, _ in U], "contexts": list(contexts)})
    return acc.result(universe_size=len(U))


# ------------------------------------------------------------------------------------------------
def _tasks(tier: str) -> List[Any]:
    max_b = 4 if tier == "quick" else 8
    tasks = [(MOD, "real_task", dict(model=f"real:{c}", cfg_name=c, max_b=max_b)) for c in
             sorted(REAL_CFGS, key=lambda c: c != "binpack-5")]
    tasks += [(MOD, "stack_task", dict(model=f"stack:{s}", struct=s, max_b=max_b)) for s in
              sorted(STRUCTS, key=lambda s: -STRUCTS[s][0])]
    tasks += [(MOD, "perturbation_task", dict(model=f"equality:perturbations:{n}", nest=n)) for n in
              sorted(NESTS, key=lambda n: -NESTS[n][0])]
    tasks.append((MOD, "pairs_task", dict(model="equality:all-leaf-pairs")))
    return tasks


def main(tier: str, seed: int) -> int:
    rep = Reporter(PID, tier, seed)
    rep.assumptions += [
        "stack/slice/set: 8 synthetic structures x 4 base shapes x 4 base dtypes x {jax, numpy} leaves x B = 1..4 "
        "(quick) / 1..8 (thorough) x every index 0..B-1 (Python int and 0-d jax int32), plus (state, timestep) pairs "
        "of 6 real environments (also under jit with a traced index); negative indices are reported, not judged",
        "tree_add_element is applied to batched trees with jax-array leaves (it uses .at[]), elements with jax or "
        "numpy leaves of the same dtype",
        "equality helper: same-structure nests of dict/list/tuple/namedtuple; value-equal leaves of different dtype "
        "count as equal ('equal shape and equal elements'); NaN excluded",
        "VERIF_SEED changes nothing in this check",
    ]
    run_tasks(rep, _tasks(tier))
    rep.require_positive("transposes_checked", "slices_checked", "sets_checked", "sets_with_untouched_neighbours",
                         "real_state_cases", "equal_pairs", "unequal_pairs", "different_asserts_raised",
                         "different_asserts_passed", "equal_asserts_raised", "equal_asserts_passed",
                         "reflexive_checks", "element_perturbations", "shape_perturbations", "dtype_perturbations",
                         "near_equal_float_pairs", "value_equal_different_dtype_pairs", "broadcast_traps",
                         "equal_pairs_of_distinct_leaves")
    rep.coverage["exhaustive"] = not rep.errors
    return rep.finish()


def replay(doc: Dict[str, Any]) -> int:
    r = doc.get("replay", doc)
    want = r.get("signature")
    kind = r.get("kind")
    acc = _Acc("replay")
    if kind == "stack":
        ts = [build(r["struct"], b, r["s"], r["d"], r["leaf_kind"]) for b in range(r["B"])]
        elem = build(r["struct"], ELEM_B, r["s"], r["d"], r["leaf_kind"])
        print(f"trees: {ts}\nelement: {elem}")
        check_stack_case(acc, ts, elem, r, tag=r["struct"])
    elif kind == "real":
        res = real_task("replay", r["cfg"], r["B"])
        acc.violations = res["violations"]
    elif kind == "perturbation":
        for t1, t2, expect, rep in _pert_cases(r["nest"], r["s"], r["d"], r["leaf_kind"]):
            if rep["position"] == r["position"] and rep["perturbation"] == r["perturbation"]:
                print(f"tree1 = {t1!r}\ntree2 = {t2!r}\nreference equal = {ref_equal(t1, t2)}")
                check_pair(acc, t1, t2, expect, rep, tag="perturbation")
    elif kind == "pair":
        U = dict(universe())
        a, b = U[r["a"]], U[r["b"]]
        c = np.asarray([3, 4], np.int32)
        mk = {"leaf": lambda v: v, "tuple-first": lambda v: (v, c.copy()),
              "dict-second": lambda v: {"a": c.copy(), "b": v},
              "nested-deepest": lambda v: {"p": (c.copy(), [1.5]), "q": NT(x=True, y={"z": v})}}[r["context"]]
        print(f"tree1 = {mk(a)!r}\ntree2 = {mk(b)!r}\nreference equal = {ref_equal(mk(a), mk(b))}")
        check_pair(acc, mk(a), mk(b), None, r, tag="leaf-pair")
    else:
        print(f"unknown replay kind {kind!r}")
        return 2
    for v in acc.violations:
        print(f"  {v.signature}: {v.message}")
    sigs = {v.signature for v in acc.violations}
    print(f"replay: signatures reproduced: {sorted(sigs)}")
    return 1 if (want in sigs or (want is None and sigs)) else 0
