"""C10 — every generated instance is well-formed and solvable as advertised (DESIGN §4 C10, §5 #9, §6).

Enumerated (mode C, bounded-exhaustive input enumeration): every generator class shipped with the 23
environments (and the random `reset` of Snake / Game2048 / Tetris, which have no generator class) x a list
of size parameters (minimum sizes, odd/even, non-square, registry default) x the FIXED key window
PRNGKey(0..K-1), K = 64 (quick) / 2048 (thorough), plus explicit regression keys.  `VERIF_SEED` never
changes the window; it only rotates which keys are re-generated through the plain un-jitted call and
compared with the `jit(vmap(...))` batch.  Both shipped Sudoku databases are additionally walked board by
board (1 000 + 10 000 boards).  One pool task per (generator, size).

Oracle: NumPy validators written from docs/environments/*.md and the generator docstrings
(`mc/c10_val_grid.py`, `mc/c10_val_puzzle.py`, `mc/c10_val_num.py`): flood-fill connectivity, permutation
parity, cubie-level reachability of cubes (+ membership in the k-move ball for tiny scrambles), exhaustive
disjoint-path search on tiny Connector boards and the solved board of `generate_board` as a witness at
every size, sub-graph connectivity for MMST, exact-cover search for FlatPack, exact tiling of the BinPack
container by `generate_solution`, exact mine count, Sudoku conflicts, symmetric loop-free graphs,
distinct in-grid entity cells, demand/capacity/box constraints; and key dependence of every random
generator (outputs over the window are not all equal; Toy/Dummy/Ascii/CSV generators are constant by design).

Oracle decisions (only what is advertised is demanded):
 * MultiCVRP: docs say demands are sampled 'between 1 and the maximum demand' but customers with demand 0
   occur (rounding after rescaling); the statement only requires demand <= capacity, so zero demands are
   counted (`multicvrp_zero_demand_customers`), not flagged.
 * CVRP draws demands from [1, max_demand) — inside the advertised interval [1, max_demand]; not flagged.
 * JobShop jobs without any operation are not excluded by the docs; they are counted, not flagged.
 * LBF's agent-placement mask blanks whole rows (over-conservative) — agents still land on distinct
   food-free cells, which is all that is advertised.
 * FlatPack block connectivity is not advertised; only exact tiling under the environment's placement rule.
 * Sokoban's dataset generators (DeepMindGenerator, HuggingFaceDeepMindGenerator) need the network and are
   skipped; ToyGenerator and SimpleSolveGenerator are covered (the latter is also solved by BFS).
 * Degenerate sizes whose instance space has a single element (no mines, zero scrambles, one block, one node)
   are exempt from the key-dependence requirement; the reason is recorded per model.

Known defect reproduced (DESIGN §5 #9): Connector `RandomWalkGenerator` — a start cell without a free
neighbour gets its first move from an all-zero probability vector (flat index -1 = cell (-1, n-1)).  Two
symptoms of this one cause are seen: the target stays at (-1, n-1) (default config key 589; 5x5/4 agents
keys 189, 401, 465), or the random walk continues from that off-grid cell, re-enters the grid and ends on
an in-grid target that its own wire does not join to the start, leaving a stray cell at (n-1, n-1) (5x5/4
agents key 125; default config key 535).  A board is classified by the cause (an agent whose start has no
neighbouring cell of its own wire on the solved board) and reported under the ONE signature
`connector.RandomWalkGenerator:agent-coordinate-outside-grid`; the regression inputs are part of BOTH tiers.

Other findings on the pinned tree (each under its own signature; see the final report of the build):
 * `flat_pack.RandomFlatPackGenerator:tiling-needs-placement-outside-3x3-window` — blocks are cropped to the
   top-left of their 3x3 array and then rotated, but the environment only lets the 3x3 array be placed fully
   inside the grid, so a 2-row (2-column) block that has to sit on the bottom (right) edge can only get there
   in the 180 degree orientation; 20 of the 64 first keys at 2x2 blocks (e.g. PRNGKey(6)) admit no complete
   placement at all (confirmed by exhaustive play of the real environment).  This signature is used only when
   the blocks DO tile the grid once the array may overhang (only the non-zero cells must lie inside the grid);
   if they do not tile it even then (cell counts, shapes), the signature is
   `flat_pack.<Generator>:blocks-do-not-tile-grid` - a different, unknown defect.
 * `mmst.SplitRandomGenerator:node-degree-exceeds-max-degree` (`add_edge` rejects only when degree >
   max_degree, so max_degree + 1 is reached) and `mmst.SplitRandomGenerator:edge-count-differs-from-num-edges`
   (edge codes are direction dependent, (a,b) and (b,a) are stored as two edges, so the graph has fewer
   distinct edges than `num_edges`); rarely (thorough window) `graph-not-connected` (docs: 'a random connected
   graph'; 10 nodes key 1270) and `self-loop` (single-agent 6-node graph, key 489: a node that could not be
   linked because of the degree limit is walked onto and then linked to itself).  All four contradict the
   generator docstring / docs; none makes an instance unsolvable (every agent's nodes stay connected inside
   its own sub graph).
"""
from __future__ import annotations

import os
import tempfile
from typing import Any, Dict, List

from mc import boot  # noqa: F401

import numpy as np

from mc import c10_core as core
from mc.c10_core import spec
from mc.report import Reporter
from mc.runner import run_tasks

PID = "C10"


# ------------------------------------------------------------------------------------------------
# the catalogue of (generator, size) tasks
# ------------------------------------------------------------------------------------------------
def specs() -> List[Dict[str, Any]]:
    S: List[Dict[str, Any]] = []

    # ---- maze family -----------------------------------------------------------------------
    for r, c in [(1, 2), (2, 1), (2, 2), (2, 3), (3, 3), (3, 4), (4, 4), (5, 5), (3, 7), (6, 2), (7, 7), (10, 10),
                 (9, 12), (9, 5), (5, 9), (11, 7), (7, 10), (10, 6)]:
        S.append(spec(f"maze.RandomGenerator({r},{c})", f"G.maze.RandomGenerator({r},{c})", "maze",
                      "maze.RandomGenerator", dict(rows=r, cols=c), small=r * c <= 25))
    S.append(spec("maze.ToyGenerator()", "G.maze.ToyGenerator()", "maze", "maze.ToyGenerator",
                  dict(rows=5, cols=5), random=False))
    # the shared maze utility itself: generate_maze(width, height, key) -> int8 array (height, width)
    for w, h in [(9, 5), (5, 9), (11, 7), (6, 10), (7, 7), (2, 2), (1, 4)]:
        S.append(spec(f"maze_utils.generate_maze(width={w},height={h})", f"GENERATE_MAZE({w}, {h})", "maze_walls",
                      "maze_utils.generate_maze", dict(rows=h, cols=w), family="maze", small=w * h <= 25,
                      singleton="one wall pattern" if w * h <= 4 else "", prepare="mc.checks.c10.prepare_generate_maze"))
    for r, c, a in [(2, 2, 3), (3, 3, 1), (3, 4, 2), (3, 7, 1), (5, 3, 2), (10, 10, 3), (6, 9, 4), (9, 5, 2), (5, 9, 2),
                    (7, 11, 3), (10, 6, 1)]:
        S.append(spec(f"cleaner.RandomGenerator({r},{c},{a})", f"G.cleaner.RandomGenerator({r},{c},{a})", "cleaner",
                      "cleaner.RandomGenerator", dict(rows=r, cols=c, agents=a), small=r * c <= 25,
                      singleton="a 2x2 recursive-division maze has one wall pattern and all agents start at (0,0)"
                      if (r, c) == (2, 2) else ""))

    # ---- sliding tile ------------------------------------------------------------------------
    for n, m in [(2, 0), (2, 1), (2, 10), (2, 11), (3, 7), (3, 20), (4, 30), (5, 100), (6, 51)]:
        S.append(spec(f"sliding_tile_puzzle.RandomWalkGenerator({n},{m})",
                      f"G.sliding_tile_puzzle.RandomWalkGenerator({n},{m})", "sliding",
                      "sliding_tile_puzzle.RandomWalkGenerator", dict(n=n, moves=m), small=n <= 3,
                      singleton="zero random moves: always the solved board" if m == 0 else ""))

    # ---- rubik's cube ------------------------------------------------------------------------
    for n, k in [(2, 0), (2, 1), (2, 2), (2, 3), (2, 20), (3, 1), (3, 2), (3, 7), (3, 100), (4, 10), (5, 10), (6, 5),
                 (7, 3)]:
        ball = (n == 2 and k <= 3) or (n == 3 and k <= 2)
        S.append(spec(f"rubiks_cube.ScramblingGenerator({n},{k})", f"G.rubiks_cube.ScramblingGenerator({n},{k})",
                      "rubiks", "rubiks_cube.ScramblingGenerator", dict(n=n, scrambles=k, ball=ball),
                      small=ball, singleton="zero scrambles: always the solved cube" if k == 0 else "",
                      quick=(n, k) in [(2, 0), (2, 3), (2, 20), (3, 2), (3, 100), (4, 10)]))

    # ---- connector -----------------------------------------------------------------------------
    for n, a in [(2, 2), (3, 1), (3, 2), (3, 4), (4, 2), (5, 3), (6, 5), (10, 10)]:
        S.append(spec(f"connector.UniformRandomGenerator({n},{a})", f"G.connector.UniformRandomGenerator({n},{a})",
                      "connector_uniform", "connector.UniformRandomGenerator", dict(grid=n, agents=a),
                      small=n <= 3))
    # regression inputs of defect #9 (both tiers): at 589 / 189, 401, 465 the target stays at (-1, n-1); at
    # (4,3) key 125 and (10,10) key 535 the walk continues from the off-grid cell (same cause, other symptom)
    regress = {(10, 10): [535, 589], (5, 4): [189, 401, 465], (4, 3): [125]}
    for n, a in [(3, 1), (3, 2), (4, 2), (4, 3), (5, 3), (5, 4), (6, 5), (7, 3), (10, 10)]:
        S.append(spec(f"connector.RandomWalkGenerator({n},{a})", f"G.connector.RandomWalkGenerator({n},{a})",
                      "connector_walk", "connector.RandomWalkGenerator", dict(grid=n, agents=a), mode="connector_pair",
                      small=n <= 3, extra_keys=regress.get((n, a), []), quick=(n, a) in [(3, 2), (4, 3), (5, 4), (10, 10)]))

    # ---- mmst ----------------------------------------------------------------------------------
    # regression keys (both tiers) of the two rare MMST findings: a disconnected graph (10 nodes, key 1270) and a
    # self loop (single-agent 6-node graph, key 489); these two sizes use a 16-key window in the quick tier
    # num_nodes not divisible by num_agents (unequal sub graphs, cumulative node offsets) is in BOTH tiers:
    # (11,20,4,2,3), (10,14,4,3,2), (14,22,4,4,2); (17,24,4,3,2) in the thorough tier
    mm_reg = {(10, 12): [1270], (6, 6): [489]}
    mm_quick = {(36, 72): None, (12, 18): None, (8, 9): None, (10, 12): 16, (6, 6): 16, (11, 20): None, (10, 14): 16,
                (14, 22): 16}
    for nn, ne, d, a, m, t in [(36, 72, 5, 3, 4, 70), (12, 18, 4, 2, 3, 6), (10, 12, 3, 2, 2, 10), (20, 30, 4, 4, 2, 20),
                               (17, 24, 4, 3, 2, 12), (8, 9, 3, 2, 2, 8), (6, 6, 3, 1, 3, 8), (11, 20, 4, 2, 3, 12),
                               (10, 14, 4, 3, 2, 10), (14, 22, 4, 4, 2, 14)]:
        S.append(spec(f"mmst.SplitRandomGenerator({nn},{ne},{d},{a},{m})",
                      f"G.mmst.SplitRandomGenerator({nn},{ne},{d},{a},{m},{t})", "mmst", "mmst.SplitRandomGenerator",
                      dict(nodes=nn, edges=ne, max_degree=d, agents=a, per_agent=m), quick=(nn, ne) in mm_quick,
                      extra_keys=mm_reg.get((nn, ne), []), k_quick=mm_quick.get((nn, ne))))

    # ---- flat pack -----------------------------------------------------------------------------
    for r, c in [(1, 1), (1, 3), (2, 2), (3, 2)]:
        S.append(spec(f"flat_pack.RandomFlatPackGenerator({r},{c})", f"G.flat_pack.RandomFlatPackGenerator({r},{c})",
                      "flat_pack", "flat_pack.RandomFlatPackGenerator", dict(row_blocks=r, col_blocks=c),
                      small=r * c <= 4, singleton="one block filling the 3x3 grid" if r * c == 1 else ""))
    # default size: the exact-cover search is slow in Python -> 32 keys (quick), 4 x 128 keys (thorough)
    S.append(spec("flat_pack.RandomFlatPackGenerator(5,5)", "G.flat_pack.RandomFlatPackGenerator(5,5)", "flat_pack",
                  "flat_pack.RandomFlatPackGenerator", dict(row_blocks=5, col_blocks=5), k_quick=32, thorough=False))
    for lo in (0, 128, 256, 384):
        S.append(spec(f"flat_pack.RandomFlatPackGenerator(5,5)[keys {lo}..{lo + 127}]",
                      "G.flat_pack.RandomFlatPackGenerator(5,5)", "flat_pack", "flat_pack.RandomFlatPackGenerator",
                      dict(row_blocks=5, col_blocks=5), k_thorough=128, key_lo=lo, quick=False))
    for cls in ("ToyFlatPackGeneratorWithRotation", "ToyFlatPackGeneratorNoRotation"):
        S.append(spec(f"flat_pack.{cls}()", f"G.flat_pack.{cls}()", "flat_pack", f"flat_pack.{cls}",
                      dict(row_blocks=2, col_blocks=2), random=False, k_quick=8, k_thorough=32))

    # ---- bin pack ------------------------------------------------------------------------------
    tw = [5870, 2330, 2200]
    # split_num_same_items=5 is the library default (multi-copy splits); max_num_items 6, 10, 20 are in BOTH tiers
    for mi, me, sp_, dims in [(20, 40, 2, tw), (5, 10, 2, tw), (10, 20, 5, tw), (6, 12, 1, tw), (12, 30, 3, [10, 7, 5]),
                              (40, 60, 5, tw), (6, 12, 5, tw), (20, 40, 5, tw)]:
        extra = "" if dims == tw else f", container_dims=({dims[0]},{dims[1]},{dims[2]})"
        S.append(spec(f"bin_pack.RandomGenerator({mi},{me},split={sp_}{',dims=' + str(tuple(dims)) if dims != tw else ''})",
                      f"G.bin_pack.RandomGenerator({mi},{me},split_num_same_items={sp_}{extra})", "bin_pack",
                      "bin_pack.RandomGenerator", dict(max_items=mi, max_ems=me, dims=dims), mode="binpack_pair",
                      quick=(mi, sp_) in [(20, 2), (5, 2), (12, 3), (6, 5), (10, 5), (20, 5)]))
    S.append(spec("bin_pack.ToyGenerator()", "G.bin_pack.ToyGenerator()", "bin_pack", "bin_pack.ToyGenerator",
                  dict(max_items=20, max_ems=60, dims=tw), mode="binpack_pair", random=False, k_quick=8, k_thorough=32))
    S.append(spec("bin_pack.CSVGenerator[hand-written file]", "G.bin_pack.CSVGenerator(CSV_PATH, 12)", "bin_pack_csv",
                  "bin_pack.CSVGenerator", dict(max_ems=12, dims=tw, rows=CSV_ROWS, ordered=True), random=False,
                  prepare="mc.checks.c10.prepare_csv_handwritten", k_quick=8, k_thorough=32))
    S.append(spec("bin_pack.CSVGenerator[save_instance_to_csv round trip]",
                  "G.bin_pack.CSVGenerator(CSV_PATH, 40, container_dims=(5870, 2330, 2200))", "bin_pack_csv",
                  "bin_pack.CSVGenerator", dict(max_ems=40, dims=tw, rows=[], ordered=False), random=False,
                  prepare="mc.checks.c10.prepare_csv_saved", k_quick=8, k_thorough=32))

    # ---- job shop ------------------------------------------------------------------------------
    for j, m, o, d in [(2, 2, 2, 2), (3, 2, 2, 3), (2, 3, 1, 1), (1, 1, 3, 2), (20, 10, 8, 6), (5, 7, 3, 9)]:
        S.append(spec(f"job_shop.RandomGenerator({j},{m},{o},{d})", f"G.job_shop.RandomGenerator({j},{m},{o},{d})",
                      "job_shop", "job_shop.RandomGenerator", dict(jobs=j, machines=m, max_ops=o, max_duration=d),
                      small=j * o <= 4))
    S.append(spec("job_shop.ToyGenerator()", "G.job_shop.ToyGenerator()", "job_shop", "job_shop.ToyGenerator",
                  dict(jobs=5, machines=4, max_ops=4, max_duration=4, optimal_makespan=8), random=False,
                  k_quick=8, k_thorough=32))

    # ---- knapsack / tsp / cvrp / multi cvrp ------------------------------------------------------
    for n, b in [(1, 0.5), (6, 1.5), (7, 0.1), (50, 12.5)]:
        S.append(spec(f"knapsack.RandomGenerator({n},{b})", f"G.knapsack.RandomGenerator({n},{b})", "knapsack",
                      "knapsack.RandomGenerator", dict(items=n, budget=b)))
    for n in [1, 2, 5, 7, 20]:
        S.append(spec(f"tsp.UniformGenerator({n})", f"G.tsp.UniformGenerator({n})", "tsp", "tsp.UniformGenerator",
                      dict(cities=n)))
    for n, cap, dm in [(1, 3, 3), (4, 10, 5), (7, 7, 7), (3, 5, 1), (20, 30, 10)]:
        S.append(spec(f"cvrp.UniformGenerator({n},{cap},{dm})", f"G.cvrp.UniformGenerator({n},{cap},{dm})", "cvrp",
                      "cvrp.UniformGenerator", dict(nodes=n, max_capacity=cap, max_demand=dm)))
    for n, v in [(6, 2), (6, 3), (20, 2), (20, 3), (50, 2), (50, 5), (100, 4), (150, 5)]:
        S.append(spec(f"multi_cvrp.UniformRandomGenerator({n},{v})", f"G.multi_cvrp.UniformRandomGenerator({n},{v})",
                      "multi_cvrp", "multi_cvrp.UniformRandomGenerator", dict(customers=n, vehicles=v),
                      quick=(n, v) in [(6, 2), (6, 3), (20, 2), (50, 5)]))

    # ---- graph coloring ------------------------------------------------------------------------
    for n, pr in [(1, 0.5), (2, 0.5), (3, 0.5), (4, 0.5), (5, 0.6), (7, 0.05), (7, 0.95), (6, 0.5), (20, 0.8)]:
        S.append(spec(f"graph_coloring.RandomGenerator({n},{pr})", f"G.graph_coloring.RandomGenerator({n},{pr})",
                      "graph_coloring", "graph_coloring.RandomGenerator", dict(nodes=n), small=n <= 4,
                      singleton="a single node has no possible edge" if n == 1 else ""))
    S.append(spec("graph_coloring.GraphColoring(RandomGenerator(5,0.5)).reset",
                  "GraphColoring(generator=G.graph_coloring.RandomGenerator(5,0.5))", "graph_coloring_reset",
                  "graph_coloring.RandomGenerator", dict(nodes=5), mode="reset"))

    # ---- minesweeper ---------------------------------------------------------------------------
    for r, c, m in [(3, 3, 2), (2, 5, 1), (4, 3, 11), (3, 3, 0), (10, 10, 10), (2, 2, 1), (2, 2, 3), (3, 3, 8)]:
        S.append(spec(f"minesweeper.UniformSamplingGenerator({r},{c},{m})",
                      f"G.minesweeper.UniformSamplingGenerator({r},{c},{m})", "minesweeper",
                      "minesweeper.UniformSamplingGenerator", dict(rows=r, cols=c, mines=m), small=r * c <= 9,
                      singleton="no mines: one possible instance" if m == 0 else ""))

    # ---- sudoku --------------------------------------------------------------------------------
    # "very-easy[:1]" / "[:2]": minimum-size databases (the first 1 / 2 boards) - an index drawn one past the end
    # has probability 1/2 and 1/3 there, 1/1001 on the shipped database
    for name in ("very-easy", "mixed", "very-easy[:1]", "very-easy[:2]"):
        S.append(spec(f"sudoku.DatabaseGenerator[{name}]", f"G.sudoku.DatabaseGenerator(SUDOKU_DB)", "sudoku",
                      "sudoku.DatabaseGenerator", dict(database=name), prepare="mc.checks.c10.prepare_sudoku",
                      singleton="a database of one board: one possible instance" if name.endswith("[:1]") else ""))
    S.append(spec("sudoku.DummyGenerator()", "G.sudoku.DummyGenerator()", "sudoku", "sudoku.DummyGenerator",
                  dict(database=None), random=False, k_quick=8, k_thorough=32))

    # ---- lbf -------------------------------------------------------------------------------------
    for g, a, f, fov, lvl, coop in [(5, 2, 1, 5, 2, False), (5, 1, 1, 1, 2, True), (6, 3, 2, 2, 2, False),
                                    (8, 2, 2, 8, 2, True), (8, 3, 2, 8, 4, False), (7, 4, 1, 3, 3, True),
                                    (10, 5, 3, 10, 2, False), (9, 4, 4, 9, 5, True)]:
        S.append(spec(f"lbf.RandomGenerator({g},{a},{f},fov={fov},max_agent_level={lvl},force_coop={coop})",
                      f"G.lbf.RandomGenerator({g},{a},{f},{fov},max_agent_level={lvl},force_coop={coop})", "lbf",
                      "lbf.RandomGenerator", dict(grid=g, agents=a, food=f, max_agent_level=lvl, force_coop=coop),
                      quick=(g, a) in [(5, 2), (5, 1), (6, 3), (8, 2), (7, 4)]))

    # ---- robot warehouse -----------------------------------------------------------------------
    for sr, sc, ch, a, sn, q in [(1, 3, 1, 2, 1, 2), (1, 3, 2, 3, 2, 1), (2, 3, 8, 4, 1, 8), (1, 5, 2, 2, 1, 4),
                                 (3, 3, 3, 5, 1, 6), (1, 3, 1, 1, 1, 4)]:
        S.append(spec(f"robot_warehouse.RandomGenerator({sr},{sc},{ch},{a},{sn},{q})",
                      f"G.robot_warehouse.RandomGenerator({sr},{sc},{ch},{a},{sn},{q})", "robot_warehouse",
                      "robot_warehouse.RandomGenerator",
                      dict(shelf_rows=sr, shelf_columns=sc, column_height=ch, agents=a, queue=q),
                      quick=(sr, sc, ch, a) in [(1, 3, 1, 2), (1, 3, 2, 3), (2, 3, 8, 4), (1, 5, 2, 2)]))

    # ---- environments with a random reset and no generator class ---------------------------------
    for r, c in [(2, 2), (3, 3), (2, 5), (5, 2), (4, 4), (12, 12)]:
        S.append(spec(f"snake.Snake({r},{c}).reset", f"Snake(num_rows={r}, num_cols={c})", "snake", "snake.reset",
                      dict(rows=r, cols=c), mode="reset", small=r * c <= 9))
    for n in [2, 3, 4, 5]:
        S.append(spec(f"game_2048.Game2048({n}).reset", f"Game2048(board_size={n})", "game_2048", "game_2048.reset",
                      dict(size=n), mode="reset", small=n <= 3))
    for r, c in [(4, 4), (5, 4), (4, 7), (8, 4), (10, 10)]:
        S.append(spec(f"tetris.Tetris({r},{c}).reset", f"Tetris(num_rows={r}, num_cols={c})", "tetris", "tetris.reset",
                      dict(rows=r, cols=c), mode="reset", small=True))

    # ---- sokoban / pac man -----------------------------------------------------------------------
    S.append(spec("sokoban.ToyGenerator()", "G.sokoban.ToyGenerator()", "sokoban", "sokoban.ToyGenerator",
                  dict(solve=False), small=True))
    S.append(spec("sokoban.SimpleSolveGenerator()", "G.sokoban.SimpleSolveGenerator()", "sokoban",
                  "sokoban.SimpleSolveGenerator", dict(solve=True), random=False, k_quick=8, k_thorough=32))
    S.append(spec("pac_man.AsciiGenerator(DEFAULT_MAZE)", "G.pac_man.AsciiGenerator(M.pac_man.constants.DEFAULT_MAZE)",
                  "pac_man", "pac_man.AsciiGenerator", dict(maze=None), random=False, k_quick=8, k_thorough=32,
                  prepare="mc.checks.c10.prepare_pacman"))
    S.append(spec("pac_man.PacMan().reset", "PacMan()", "pac_man", "pac_man.AsciiGenerator", dict(maze=None),
                  mode="reset", random=False, k_quick=8, k_thorough=32, prepare="mc.checks.c10.prepare_pacman"))
    return S


# ------------------------------------------------------------------------------------------------
# prepare hooks (run inside the worker before the constructor expression is evaluated)
# ------------------------------------------------------------------------------------------------
CSV_ROWS = [["shape_1", 1080, 760, 300, 5], ["shape_2", 1100, 430, 250, 3], ["pallet", 1200, 800, 144, 1],
            ["cube", 500, 500, 500, 2]]


def _tmpdir(ctx: Dict[str, Any]) -> str:
    d = tempfile.TemporaryDirectory(prefix="c10-")
    ctx["cleanup"].append(d.cleanup)
    return d.name


def prepare_csv_handwritten(sp: Dict[str, Any], ctx: Dict[str, Any]) -> Dict[str, Any]:
    """A CSV in the documented format, written by hand (not through the library)."""
    path = os.path.join(_tmpdir(ctx), "instance.csv")
    with open(path, "w", newline="") as fh:
        fh.write("Item_Name,Length,Width,Height,Quantity\n")
        for r in sp["params"]["rows"]:
            fh.write(",".join(str(v) for v in r) + "\n")
    return {"CSV_PATH": path}


def prepare_csv_saved(sp: Dict[str, Any], ctx: Dict[str, Any]) -> Dict[str, Any]:
    """save_instance_to_csv(RandomGenerator instance) -> CSVGenerator must reproduce the item multiset."""
    import jax

    from jumanji.environments.packing.bin_pack import generator as g

    st = g.RandomGenerator(20, 40)(jax.random.PRNGKey(3))
    path = os.path.join(_tmpdir(ctx), "saved.csv")
    g.save_instance_to_csv(st, path)
    mask = np.asarray(st.items_mask)
    dims = np.stack([np.asarray(st.items.x_len), np.asarray(st.items.y_len), np.asarray(st.items.z_len)], -1)[mask]
    ctx["cache"]["csv_rows"] = [["item", int(a), int(b), int(c), 1] for a, b, c in dims.tolist()]
    return {"CSV_PATH": path}


def prepare_generate_maze(sp: Dict[str, Any], ctx: Dict[str, Any]) -> Dict[str, Any]:
    from jumanji.environments.commons.maze_utils import maze_generation

    return {"GENERATE_MAZE": lambda w, h: (lambda key: maze_generation.generate_maze(w, h, key))}


def prepare_sudoku(sp: Dict[str, Any], ctx: Dict[str, Any]) -> Dict[str, Any]:
    db = load_sudoku_db(sp["params"]["database"])
    ctx["cache"]["sudoku_db"] = {(b.astype(np.int32) - 1).tobytes() for b in db}
    return {"SUDOKU_DB": db}


def prepare_pacman(sp: Dict[str, Any], ctx: Dict[str, Any]) -> Dict[str, Any]:
    from jumanji.environments.routing.pac_man.constants import DEFAULT_MAZE

    ctx["cache"]["pacman_maze"] = list(DEFAULT_MAZE)
    return {}


def load_sudoku_db(name: str) -> np.ndarray:
    import jumanji.environments.logic.sudoku as pkg

    base, _, cut = name.partition("[:")
    fn = {"very-easy": "1000_very_easy_puzzles.npy", "mixed": "10000_mixed_puzzles.npy"}[base]
    db = np.load(os.path.join(os.path.dirname(pkg.__file__), "data", fn))
    return db[: int(cut.rstrip("]"))] if cut else db


# ------------------------------------------------------------------------------------------------
# pool tasks
# ------------------------------------------------------------------------------------------------
def task(sp: Dict[str, Any], tier: str, seed: int, model: str = "") -> Dict[str, Any]:
    return core.run_task(sp, tier, seed)


def task_sudoku_database(name: str, tier: str, seed: int, model: str = "") -> Dict[str, Any]:
    """Every board of a shipped database, directly (not through keys)."""
    from collections import Counter

    from mc.c10_val_grid import v_sudoku_db_row
    from mc.report import Violation

    db = load_sudoku_db(name)
    viol = []
    ctx = {"count": Counter(), "cache": {}, "facts": {}}
    clues = []
    for i, b in enumerate(db):
        for what, msg in v_sudoku_db_row(b, {}, ctx):
            sig = f"sudoku.DatabaseGenerator:{what}"
            if len(viol) < 3:
                viol.append(Violation(PID, model, sig, f"database '{name}' board {i}: {msg}",
                                      {"property": PID, "kind": "sudoku-database", "database": name, "index": i,
                                       "signature": sig}))
        clues.append(int((np.asarray(b) != 0).sum()))
    distinct = len({np.asarray(b).tobytes() for b in db})
    return dict(model=model, states=distinct, transitions=len(db), validated=0, violations=viol,
                vacuity={"sudoku_database_boards": len(db), "instances:sudoku": len(db), "instances": len(db)},
                samples=[{"model": model, "board_index": 0, "board": np.asarray(db[0]).tolist()}],
                exhaustive=True, boards=len(db), distinct_boards=distinct, min_clues=min(clues), max_clues=max(clues))


FAMILIES = ["maze", "cleaner", "sliding_tile_puzzle", "rubiks_cube", "connector", "mmst", "flat_pack", "bin_pack",
            "job_shop", "knapsack", "tsp", "cvrp", "multi_cvrp", "graph_coloring", "minesweeper", "sudoku", "lbf",
            "robot_warehouse", "snake", "game_2048", "tetris", "sokoban", "pac_man"]

# rough relative cost, so that the long tasks start first
_HEAVY = ("mmst", "flat_pack.RandomFlatPackGenerator(5,5)", "bin_pack", "connector.RandomWalkGenerator(10,10)",
          "rubiks_cube", "multi_cvrp", "robot_warehouse", "sudoku")


def main(tier: str, seed: int) -> int:
    rep = Reporter(PID, tier, seed)
    sps = [s for s in specs() if (s["thorough"] if tier == "thorough" else s["quick"])]
    only = os.environ.get("VERIF_C10_ONLY")  # debugging aid: substring filter on model names
    if only:
        sps = [s for s in sps if any(o in s["model"] for o in only.split("|"))]
    sps.sort(key=lambda s: (not any(h in s["model"] for h in _HEAVY), s["model"]))
    tasks = [("mc.checks.c10", "task", dict(sp=s, tier=tier, seed=seed, model=s["model"])) for s in sps]
    for name in ("very-easy", "mixed"):
        tasks.append(("mc.checks.c10", "task_sudoku_database",
                      dict(name=name, tier=tier, seed=seed, model=f"sudoku.database[{name}]:all-boards")))
    run_tasks(rep, tasks)
    K = core.window(tier)
    rep.assumptions += [
        f"reset keys limited to the fixed window PRNGKey(0..{K - 1}) per (generator, size) plus the listed regression "
        "keys; the 2^64 key space is not enumerable (DESIGN §6); constant generators use 8 / 32 keys; FlatPack 5x5 "
        "(slow exact-cover search) uses 32 / 512 keys; the two MMST regression sizes use 16 keys in the quick tier",
        "sizes limited to the listed parameter tuples per generator (minimum, odd/even, non-square, default)",
        "continuous data (coordinates, weights) only as produced by the window",
        "saturation of small instance spaces (no new instance in the second half of the window) is evidence, not proof",
        "Sokoban DeepMindGenerator / HuggingFaceDeepMindGenerator need a download and are not covered",
        "cube reachability beyond 3x3 is checked by necessary conditions only (sticker counts, corner cubies and "
        "twist, fixed central facelets); 2x2 and 3x3 use the complete cubie criterion",
        "FlatPack: the exact-cover search (Algorithm X) is complete for <= 6 blocks; for 25 blocks it is capped at 20k (quick) / "
        "100k (thorough) nodes per instance and undecided instances are counted (flatpack_exact_cover_undecided), never reported "
        "either way",
    ]
    if only:
        rep.coverage["exhaustive"] = False  # filtered debugging run
    rep.coverage["key_window"] = K
    rep.coverage["generator_size_tasks"] = len(tasks)
    if only:
        return rep.finish()
    rep.require_positive("instances", "key_dependence_checked", "regression_inputs_evaluated",
                         "connector_exhaustive_path_searches", "flatpack_exact_cover_searches",
                         "sudoku_database_boards", "cube_ball_lookups", "sliding_bfs_lookups",
                         *[f"instances:{f}" for f in FAMILIES])
    return rep.finish()


def replay(doc: Dict[str, Any]) -> int:
    rp = doc.get("replay", doc)
    if rp.get("kind") == "sudoku-database":
        from mc.c10_val_grid import v_sudoku_db_row

        b = load_sudoku_db(rp["database"])[int(rp["index"])]
        probs = v_sudoku_db_row(b, {}, {})
        print(f"replay {rp['signature']}: {probs}")
        return 1 if probs else 0
    return core.replay_case(rp)
