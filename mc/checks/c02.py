"""C02 — reset/step are pure functions and commute with jit, vmap and scan (DESIGN §4 C02).

One pool task per configuration (quick: one tiny configuration of each of the 23 environments;
thorough: tiny + default-size).  Per configuration (mc/c02_core.py), all exhaustive over the listed sets:

(1) cross-transformation.  The configuration is explored with mc.engine.Explorer from the key window
    {0,1,2,3} (all actions; max 300 / 1 500 states; default-size configurations with more than 64 actions over
    64 evenly spaced ones); a monitor records its transitions (<= 50 / 150 actions per parent).  T = up to
    200 / 600 recorded transitions, evenly strided over the BFS-ordered record, plus every transition of the
    selected paths: root-to-leaf paths of the BFS tree of <= 8 / 12 steps (<= 20 / 40, deepest half first) and,
    per key, the "first / last surviving action" paths.  The graph values (`jit(vmap_states(vmap_actions(step)))`,
    `jit(vmap(reset))`) are the reference; every element of T is re-executed as `jit(step)` per call, as
    `jit(vmap(step))` with batch sizes 1, 2 and 7 over consecutive slices of T, and a subset as plain un-jitted
    `env.step`: first a transition out of a reset state and one of the deepest ones (of another key), then
    seed-rotated elements of T while <= 8 s / 60 s have been spent (BinPack, PacMan, RobotWarehouse, RubiksCube,
    MMST: exactly 2 steps and 1 reset in the quick tier).  Every path is rolled out with `lax.scan(step)` for the
    lengths {1, 2, 5, full}; every stacked output and the final carry are compared with the graph nodes.
    `reset`: jit per key, vmap with batches 1, 2, 4, and eager `[env.reset(k) for k in keys]` over the whole
    window on the one object (remaining keys skipped, and said so in the evidence, only if one eager reset takes
    > 20 s), each result compared when returned and all of them, still held, again after the last reset.  All leaves of state and timestep (extras
    included) are compared: ints/bools exactly, floats rtol 1e-5 / atol 1e-6, after `jnp.asarray` of Python-scalar
    leaves (DESIGN §2 canonical form).
    Native eager episodes: `s, ts = env.reset(key)` then `env.step(s, a)` exactly as a user's Python loop runs
    them - the state handed to step is the very object the previous un-jitted call returned (Python-scalar and
    weakly typed leaves included, which the re-packed array copies used above would hide).  Reset keys: the first
    key of every class of the window 0..15 whose reset states agree on all integer/bool leaves other than the
    PRNG key (<= 8 / 16 classes; slow-eager families 1 / 3); from each the root fan-out (all actions up to
    16 / 64, evenly spaced beyond; slow 2 / 6) and then the first-surviving-action chain (6 / 12 steps; slow
    2 / 4) are stepped eagerly and compared with the graph.  These counts are static, not time-budgeted.
(2) call histories on ONE object over {reset(k0), reset(k1), step(s0,a0), step(s0,a1), step(s1,a0)}
    (s0 = reset(k0), a0 = first action keeping s0 alive, a1 = last other such action, s1 = step(s0,a0)): all
    5^L maximal sequences (L = 2 quick, 3 thorough: every history of length <= L is a prefix of one) are run
    eagerly, each on a newly constructed object, and every call must return what the same call returns
    under jit on a fresh instance.  After each maximal history reset and step are traced from scratch
    (`make_jaxpr` of a new lambda = what a fresh `jax.jit` wrapper would trace; "trace-under-jit-after-history"):
    when the traced program (jaxpr text and constant values) is identical to the one of a fresh instance the
    results are equal for all inputs, otherwise the program is compiled and the five results are compared.
    Families whose eager step or reset costs >= 0.3 s (static table c02_core.SLOW_HISTORY from unloaded
    measurements, so that the enumeration does not depend on machine load): the quick tier runs eagerly
    [reset(k0), reset(k1)], [reset(k1), reset(k0)] and each step call as a first call (5 objects) and decides the
    remaining two-call histories by the programs traced after them; the thorough
    tier runs all 25 length-2 histories eagerly (+ the traced programs after each).
    Earlier results: in every eager history, in the eager steps of (1) and in the eager reset list, every result
    object returned so far is kept with a host snapshot taken right after the call and re-read after EACH later
    call and at the end; a value change (a later call re-assigning fields of / sharing mutable containers with
    an object it handed out before) is `<family>:earlier-result-changed-by-later-call`.
    A difference that also shows for the same eager call on a new object with an empty history is reported as
    `<fn>:eager-vs-jit-differs`, not as history dependence.
(3) arguments intact: around every eager call of (1) and (2) the argument pytrees must keep their structure, the
    very same leaf objects (a `state.x = ...` on the caller's dataclass replaces one) and equal values.
    Instances: a twin constructed before, and an instance constructed after, the first instance was driven must
    return the graph's values for the five calls (quick tier: decided by identity of the traced program with the
    driven instance's program when they are identical, else and always in the thorough tier by compiling).
(4) shared components (mc/c02_shared.py): for every shipped generator class used by the catalogue, two environments
    built around ONE generator object (and, for Sudoku's DatabaseGenerator, two generators built from ONE caller-owned
    int32 database array, and ONE reward-function object handed to two environments of different sizes) are driven
    through all sequences of length <= 2 (3 thorough, cheap-eager families, four-call alphabet) over
    {a.reset(k0), b.reset(k1), jit(a.reset)(k1), a.step(s0,a0)} (+ a.step(s1,a1), b.step(t0,b0) for shared reward
    functions / argument arrays); every result must equal the same call on environments
    whose components are their own, earlier results must stay readable and unchanged, the shared argument objects
    must be unmodified.  Signatures `<family>:shared-component-couples-instances`, `constructor-argument-mutated`.
(5) configurations of one environment class in one process (mc/c02_cross.py): pairs of configurations with
    transposed shapes / equal cell counts / neighbouring sizes (quick; all tiny and awkward configurations of the
    family in the thorough tier) are driven one after the other - reset over keys 0..3 and two full-alphabet steps -
    and must give what each configuration gives ALONE in a freshly spawned interpreter, in both orders.
    Signature `<family>:result-depends-on-configurations-used-before`.
Auxiliary: `jax.make_jaxpr(env.step / env.reset).effects` must be empty.
An `UnexpectedTracerError` anywhere (a tracer kept on `self`/a global by one trace, read by a later one) is the
violation `<family>:python-state-leaks-tracer`; `lax.scan` refusing the step (carry type changes) is `scan-raises`.

Signatures: <family>:step:{jit-vs-graph,eager-vs-jit}-differs, step:vmap{1,2,7}-differs, scan{1,2,5,full}-differs,
scan-raises, reset:{jit-vs-graph,eager-vs-jit,vmap{1,2,4}}-differs, history-dependent-result,
instance-dependent-result, earlier-result-changed-by-later-call,
reset:eager-list-vs-vmap-differs, argument-mutated, jaxpr-has-effects, python-state-leaks-tracer.

Oracle decisions: (i) dtype is part of the comparison after `jnp.asarray`; a Python scalar leaf from eager
reset and the array leaf from jit are the same value in canonical form.  (ii) `jax.disable_jit()` is out of
scope.  (iii) identical traced programs are accepted as proof of equal results (no compile); differing
programs are never reported by themselves, only differing results are.  (iv) the history alphabet's three
steps all belong to the episode of k0; Python-side state that only matters across episodes is exercised by the
eager calls of (1), which run on one object over transitions of several keys.
VERIF_C02_FAMILIES=a,b restricts the run to some families (development aid for mutation demos only).
"""
from __future__ import annotations

import os
from typing import Any, Dict, List, Tuple

from mc import boot  # noqa: F401

from mc import catalog
from mc.report import Reporter
from mc.runner import run_tasks

PID = "C02"

# family -> (tiny configuration, default-size configuration); names are catalogue entries, a default the
# catalogue lacks is given as a constructor expression
PLAN: Dict[str, Tuple[str, str]] = {
    "game_2048": ("game2048-2x2", "game2048-default"),
    "graph_coloring": ("graphcol-4", "graphcol-default"),
    "minesweeper": ("mines-3x3-2", "mines-default"),
    "rubiks_cube": ("rubik-2-T3", "rubik-default"),
    "sliding_tile_puzzle": ("slide-2-T6", "slide-default"),
    "sudoku": ("sudoku-near", "sudoku-default"),
    "bin_pack": ("binpack-5", "binpack-default"),
    "flat_pack": ("flatpack-2x2", "flatpack-default"),
    "job_shop": ("jobshop-2222", "JobShop()"),
    "knapsack": ("knapsack-6", "knapsack-default"),
    "tetris": ("tetris-4x4-T4", "tetris-default"),
    "cleaner": ("cleaner-3x4x2-T5", "cleaner-default"),
    "connector": ("connector-4x2-T5", "connector-default"),
    "cvrp": ("cvrp-4", "cvrp-default"),
    "lbf": ("lbf-5x2x1-T3", "lbf-default"),
    "maze": ("maze-5x5-T6", "maze-default"),
    "mmst": ("mmst-12-T3", "mmst-default"),
    "multi_cvrp": ("mcvrp-6x2", "MultiCVRP()"),
    "pac_man": ("pacman-T3", "pacman-default"),
    "robot_warehouse": ("rware-tiny-T3", "rware-default"),
    "snake": ("snake-3x3-T12", "snake-default"),
    "sokoban": ("sokoban-simple-T6", "sokoban-toy-default"),
    "tsp": ("tsp-5", "tsp-default"),
}
# longest tasks first
ORDER = ["bin_pack", "mmst", "robot_warehouse", "rubiks_cube", "pac_man", "lbf", "connector", "game_2048",
         "flat_pack", "multi_cvrp"]

REQUIRED = ["n_jit", "n_vmap", "n_vmap1", "n_vmap2", "n_vmap7", "n_scan", "n_scan_full", "n_eager",
            "n_reset_jit", "n_reset_vmap", "n_reset_eager", "n_histories", "n_history_eager_calls",
            "n_trace_probes", "n_argument_checks", "n_instance_calls", "n_effect_checks", "n_held_rechecks",
            "n_reset_list_vs_vmap", "n_native_resets", "n_native_steps", "n_shared_histories", "n_cross_comparisons"]


def configurations(tier: str) -> List[Dict[str, str]]:
    assert sorted(PLAN) == catalog.FAMILIES
    fams = ORDER + [f for f in sorted(PLAN) if f not in ORDER]
    only = os.environ.get("VERIF_C02_FAMILIES")  # development aid (mutation demos): restrict to some families
    if only:
        fams = [f for f in fams if f in only.split(",")]
    out = []
    for pos in ((1, 0) if tier == "thorough" else (0,)):  # thorough: the default-size ones first (longer)
        for fam in fams:
            ref = PLAN[fam][pos]
            if ref in catalog.BY_NAME:
                name, ctor = ref, catalog.BY_NAME[ref].ctor
            else:
                name, ctor = f"{fam}-default", ref
            out.append(dict(cfg_name=name, family=fam, ctor=ctor, kind="default" if pos else "tiny"))
    return out


def main(tier: str, seed: int) -> int:
    from mc import c02_core

    rep = Reporter(PID, tier, seed)
    B = c02_core.BOUNDS[tier]
    rep.assumptions += [
        "reset keys limited to the window PRNGKey(0..3); the graph (Explorer) values are the reference",
        f"T = at most {B['n_T']} recorded transitions of an exploration capped at {B['max_states']} states + the "
        f"transitions of at most {B['n_paths']} BFS-tree paths and 8 greedy paths of <= {B['path_len']} steps",
        "vmap batch sizes {1,2,7} (reset {1,2,4}); scan lengths {1,2,5,full}; jax.disable_jit, pmap, grad not in scope",
        "default-size configurations with more than 64 actions are explored over 64 evenly spaced actions",
        f"call histories: all sequences of length <= {B['hist_len']} over a five-call alphabet, each on a new object "
        "(slow-eager environments: see the per-model history_mode)",
        "VERIF_SEED only rotates which elements of T / which keys get the eager re-execution",
    ]
    tasks = [("mc.c02_core", "check_config", dict(tier=tier, seed=seed, **c)) for c in configurations(tier)]
    from mc import c02_shared

    only = os.environ.get("VERIF_C02_FAMILIES")
    shared = [e for e in c02_shared.entries() if (not only or e["family"] in only.split(","))
              and (tier == "thorough" or e.get("quick", True))]
    slow_first = sorted(shared, key=lambda e: e["family"] not in c02_core.SLOW_HISTORY)
    tasks = tasks[:4] + [("mc.c02_shared", "check_entry", dict(entry=e, tier=tier, seed=seed, model=e["name"]))
                         for e in slow_first] + tasks[4:]
    from mc import c02_cross

    for fam, names in c02_cross.PAIRS.items():
        if only and fam not in only.split(","):
            continue
        if tier == "thorough":  # all tiny / awkward quick-tier configurations of the family, catalogue order
            names = [c.name for c in catalog.CATALOG if c.family == fam and c.kind in ("tiny", "awkward") and c.quick][:6]
        tasks.append(("mc.c02_cross", "check_family", dict(family=fam, names=list(names), tier=tier, seed=seed,
                                                           model=f"cross:{fam}")))
    run_tasks(rep, tasks)
    rep.require_positive(*REQUIRED)
    per = rep.coverage["per_model"]
    for m in per:  # every configuration must have exercised every mode
        if m.get("kind") in ("shared-component", "cross-configuration"):
            continue
        modes = m.get("modes") or {}
        for k in ("n_jit", "n_vmap", "n_scan", "n_eager", "n_reset_eager", "n_histories", "n_trace_probes",
                  "n_held_rechecks"):
            if not m.get("error") and not m.get("aborted") and modes.get(k, 0) <= 0:
                rep.errors.append(f"vacuous: {m.get('model')} has {k} == 0")
    rep.coverage["exhaustive"] = False  # exhaustive over T x modes and over the histories; T is a bounded part of the graph
    rep.coverage["bounds"] = dict(B, key_window=c02_core.KEY_WINDOW, vmap_step=c02_core.VMAP_STEP_BATCHES,
                                  vmap_reset=c02_core.VMAP_RESET_BATCHES, scan_prefixes=c02_core.SCAN_PREFIXES,
                                  history_alphabet=c02_core.CALLS)
    rep.coverage["families"] = sorted({m.get("family") for m in per if m.get("family")})
    return rep.finish()


def replay(doc: Dict[str, Any]) -> int:
    from mc import c02_core

    if doc.get("replay", doc).get("kind") == "cross":
        from mc import c02_cross

        return int(c02_cross.replay_case(doc.get("replay", doc)))
    if doc.get("replay", doc).get("kind") == "shared":
        from mc import c02_shared

        return int(c02_shared.replay_case(doc.get("replay", doc)))
    return int(c02_core.replay_case(doc))
