"""C17 — permutation puzzles obey their group laws and stay solvable (DESIGN §4 C17, Appendix A).

Mode C (bounded-exhaustive enumeration); every item below is enumerated completely, nothing is
sampled, and `VERIF_SEED` only rotates which cases get the additional un-jitted re-execution.

RubiksCube (reference: `mc.c17_cuberef`, stickers as 3-D points + normals, layer rotation by
∓90°/180° about the face's outward normal, mapped back through the documented "look directly at
the face" convention):
 (a) sizes n = 2..5 (2..7 thorough): every move of `generate_all_moves(n)` and every in-spec
     (face, depth, amount) through `env.step`, applied to a cube whose 6n² stickers are all distinct
     and to two relabellings (⇒ a fixed, value-independent permutation) — equals the physical move;
     the same for states of the environment's NATIVE cube dtype (int8 cannot hold 6n² distinct labels for
     n ≥ 5): ceil(log6 6n²) native cubes coloured with the base-6 digits of the sticker position jointly
     identify every position, the permutation recovered from their real steps must be the physical move;
     sticker multiset conserved; cw∘ccw = ccw∘cw = id, half = cw², cw⁴ = ccw⁴ = id, half² = id (on
     the permutations *and* on real multi-step runs); **all ordered move pairs** of every size through
     two real steps against the composed reference (state-independence of the second move);
 (b) BFS of the 2×2×2 and 3×3×3 move graphs from the solved cube to depth 4 (5 thorough) through
     the real `env.step`: every successor equals the reference, the explored ball equals the
     reference ball, reward/LAST/discount say "solved" exactly on uniformly coloured faces; crafted
     near-solved colourings (every single-sticker recolouring, every two-sticker swap, the 24
     whole-cube rotations, all one-turn states) produced as the child of a real step and given to
     `is_solved` directly;
 (c) `flatten_action`/`unflatten_action` mutually inverse and in the documented order over the whole
     action range of every size;
 (d) scrambles: sizes 2, 3, 4 × num_scrambles_on_reset ∈ {0,1,2,3,7,100} (+4, 20 thorough) × key window
     64 (1024): the reset cube equals the reference applied to the drawn moves (the draw is observed by
     a `ScramblingGenerator` subclass whose `generate_cube` returns `generate_actions_for_scramble(key)`
     through the generator's own `__call__`), lies in the reference BFS ball of radius k (n ≤ 3, k ≤
     3 / 4) and satisfies the solvability invariants (valid cubies, corner twist, edge flip,
     permutation parity, fixed centres — necessary and sufficient for n = 2, 3; corners/counts for 4);
     `scramble_solved_cube` on every action sequence of length ≤ 2.
SlidingTilePuzzle (reference: swap of the blank with the neighbour; docs: 0 up, 1 right, 2 down,
3 left move the EMPTY tile):
 (e) the ENTIRE reachable space of the 2×2 (12 boards) and 3×3 (181 440 boards × 4 actions) puzzles
     through the real `env.step` (step counter re-injected as 0 at every layer), for both reward
     functions: swap / no-op at the border, tile multiset, `empty_tile_position`, LAST/discount/
     SparseRewardFn exactly on the goal board, DenseRewardFn = change in the number of cells equal to
     the goal (empty cell included — DESIGN Appendix C), opposite moves cancel (on the implementation's
     own successor table), |space| = (n²)!/2 = the reference space; 4×4 and 5×5 by BFS to depth 6
     (8 thorough) from the goal, 64 reset boards and the parents of every "two cells exchanged"
     near-goal board, with the cancellation measured by a second real step; reset states for sizes
     2..5 × num_random_moves ∈ {0,1,2,7,100} × key window: permutation of the tiles,
     `empty_tile_position` consistent, solvable (membership in the enumerated space for n ≤ 3, parity
     criterion for all n) and, for k ≤ 7, at distance ≤ k with k's parity from the goal.

Oracle decisions: "solved" for the cube means every face uniformly coloured (so the 24 whole-cube
rotations of the goal count as solved, as the docstring of `is_solved` says); colourings that are
uniform with a repeated colour are not reachable and are not judged.  The dense sliding reward
counts the empty cell like a tile (the docs say "tile"; the two readings differ only in whether the
blank's home cell counts, and Appendix C fixed this one).
"""
from __future__ import annotations

from typing import Any, Dict, List

from mc import boot  # noqa: F401

from mc.report import Reporter
from mc.runner import run_tasks

PID = "C17"

REQUIRED = [
    "moves_checked", "native_dtype_moves_checked", "moves_conserving_sticker_multiset", "group_law_layers_checked", "pairs_checked",
    "four_turn_cycles_checked", "codec_round_trips_checked", "cube_solved_states_seen", "cube_unsolved_states_seen",
    "partially_uniform_unsolved_seen", "crafted_near_solved_checked", "crafted_unsolved_through_step",
    "cube_reset_states_checked", "cube_reset_states_in_bfs_ball", "reset_states_matching_drawn_scramble",
    "scramble_sequences_checked", "distinct_scramble_moves_drawn", "cube_distinct_reset_states",
    "unreachable_crafted_rejected",
    "legal_slides_seen", "illegal_slides_seen", "slide_solved_states_seen", "slide_unsolved_states_seen",
    "opposite_pairs_checked", "crafted_near_goal_boards", "slide_reset_states_checked",
    "slide_reset_states_in_enumerated_space", "slide_reset_states_in_bfs_ball", "slide_distinct_reset_states",
    "unsolvable_crafted_rejected",
]


def tasks(tier: str, seed: int) -> List[Any]:
    thorough = tier == "thorough"
    n_keys = 1024 if thorough else 64
    cube_sizes = range(2, 8) if thorough else range(2, 6)
    bfs_depth = 5 if thorough else 4
    ball = 4 if thorough else 3
    slide_depth = 8 if thorough else 6
    common = dict(tier=tier, seed=seed)
    out: List[Any] = []
    # heaviest first
    for n in sorted(cube_sizes, reverse=True):
        out.append(("mc.c17_cube", "moves", dict(n=n, **common)))
    for n in (4, 3, 2):
        small = [0, 1, 2, 3] + ([4] if thorough else [])
        large = [7, 100] + ([20] if thorough else [])
        out.append(("mc.c17_cube", "scramble", dict(n=n, ks=large, n_keys=n_keys, ball_depth=ball, sequences=False,
                                                    **common)))
        out.append(("mc.c17_cube", "scramble", dict(n=n, ks=small, n_keys=n_keys, ball_depth=ball, **common)))
    for reward in ("dense", "sparse"):
        out.append(("mc.c17_slide", "full_space", dict(n=3, reward=reward, **common)))
    for n in (5, 4):
        for reward in ("dense", "sparse"):
            out.append(("mc.c17_slide", "bounded", dict(n=n, reward=reward, depth=slide_depth, n_roots=64, **common)))
    for n in (3, 2):
        out.append(("mc.c17_cube", "bfs", dict(n=n, depth=bfs_depth, **common)))
    for n in (5, 4, 3, 2):
        out.append(("mc.c17_slide", "resets", dict(n=n, ks=[0, 1, 2, 7, 100], n_keys=n_keys, **common)))
    for reward in ("dense", "sparse"):
        out.append(("mc.c17_slide", "full_space", dict(n=2, reward=reward, **common)))
    return out


def main(tier: str, seed: int) -> int:
    rep = Reporter(PID, tier, seed)
    thorough = tier == "thorough"
    rep.assumptions += [
        "cube sizes 2..%d; BFS of the 2x2x2 and 3x3x3 move graphs to depth %d; scramble/reset key window "
        "PRNGKey(0..%d)" % (7 if thorough else 5, 5 if thorough else 4, (1024 if thorough else 64) - 1),
        "states are injected by constructing the State dataclass (cube / board, step_count 0, constant key); the "
        "cube array of the labelled cubes is int32 so that 6n² distinct labels fit, the BFS uses the int8 colours",
        "'solved' for the cube = every face uniformly coloured (whole-cube rotations of the goal included)",
        "the drawn scramble is observed through a ScramblingGenerator subclass that returns "
        "generate_actions_for_scramble(key) from generate_cube; reachability for 4x4x4 scrambles longer than the "
        "BFS ball rests on that witness plus corner/colour-count invariants",
        "sliding puzzles: 2x2 and 3x3 closed completely; 4x4/5x5 to BFS depth %d from the goal, 64 reset boards and "
        "the parents of all two-cell exchanges of the goal; time limit kept out of the way by re-injecting "
        "step_count = 0" % (8 if thorough else 6),
        "DenseRewardFn reference: change in the number of cells (blank included) equal to the goal",
    ]
    run_tasks(rep, tasks(tier, seed))
    rep.require_positive(*REQUIRED)
    rep.coverage["exhaustive"] = True
    rep.coverage["bounds"] = dict(
        cube_sizes=[2, 7 if thorough else 5], cube_bfs_depth=5 if thorough else 4,
        scramble_sizes=[2, 3, 4], key_window=1024 if thorough else 64,
        slide_closed=["2x2", "3x3"], slide_bounded={"4x4": 8 if thorough else 6, "5x5": 8 if thorough else 6},
    )
    return rep.finish()


def replay(doc: Dict[str, Any]) -> int:
    """Re-run one recorded case with the plain un-jitted API (no pool); 1 if it still fails."""
    rp = doc.get("replay", doc)
    sig = rp.get("signature") or doc.get("signature")
    kind = rp["kind"]
    if kind.startswith("cube_"):
        from mc import c17_cube as mod
    elif kind.startswith("slide_"):
        from mc import c17_slide as mod
    else:
        raise SystemExit(f"unknown replay kind {kind}")
    fails = mod.replay_case(rp)
    print(f"[{PID}] replay kind={kind} recorded signature={sig}")
    print(f"  case: { {k: v for k, v in rp.items() if k not in ('signature', 'property', 'model')} }")
    print(f"  failing now: {fails or 'nothing'}")
    if sig is None:
        return 1 if fails else 0
    if sig.endswith("eager-differs-from-jit-vmap"):
        return 1 if fails else 0
    return 1 if sig in fails else 0
