"""C15 helper — MultiToSingleWrapper on every edge of an explored transition graph.

`mc.engine.Explorer` walks the native environment (all actions, closed or capped graph); on every
root and every edge the monitor applies `MultiToSingleWrapper(env, ...)`'s `reset` / `step` to the
same key / (state, action) and requires

    reward   == reward_aggregator(native reward)        discount == discount_aggregator(native discount)
    state, observation, extras, step_type               unchanged

for the *default* wrapper (documented: sum, max — constructed without arguments so the defaults are
under test) and for custom aggregator pairs.  The aggregates are recomputed in float64 NumPy from
the native per-agent values.  The custom pairs are chosen so that they differ from the defaults and
from each other even on constant vectors (per-agent discounts are usually all equal), which makes a
wrapper that ignores or swaps its aggregators visible.
"""
from __future__ import annotations

import time
from functools import cached_property
from typing import Any, Dict, List, NamedTuple, Sequence, Tuple

from mc import boot  # noqa: F401

import jax
import jax.numpy as jnp
import numpy as np

from mc import catalog
from mc.engine import Batch, Explorer, Monitor, leaf_diff, t_index, to_np

PID = "C15"

tmap = jax.tree_util.tree_map


def _affine_r(x: Any) -> Any:
    return 2.0 * jnp.sum(x) + 1.0


def _half_min(x: Any) -> Any:
    return 0.5 * jnp.min(x)


# name, jax reward aggregator, jax discount aggregator, numpy oracles (reduce over trailing axes)
PAIRS: List[Tuple[str, Any, Any, Any, Any]] = [
    ("default(sum,max)", None, None, lambda r: r.sum(-1), lambda d: d.max(-1)),
    ("(mean,min)", jnp.mean, jnp.min, lambda r: r.mean(-1), lambda d: d.min(-1)),
    ("(max,sum)", jnp.max, jnp.sum, lambda r: r.max(-1), lambda d: d.sum(-1)),
    ("(2*sum+1,min/2)", _affine_r, _half_min, lambda r: 2.0 * r.sum(-1) + 1.0, lambda d: 0.5 * d.min(-1)),
]
# (jnp.max, jnp.prod) is exercised in the replay/eager path as well
EXTRA_EAGER = ("(max,prod)", jnp.max, jnp.prod, lambda r: r.max(-1), lambda d: d.prod(-1))


def make_wrapped(env: Any, pair: Tuple[str, Any, Any, Any, Any]) -> Any:
    from jumanji.wrappers import MultiToSingleWrapper

    if pair[1] is None:
        return MultiToSingleWrapper(env)
    return MultiToSingleWrapper(env, reward_aggregator=pair[1], discount_aggregator=pair[2])


def _rows_differ(a: Any, b: Any, lead: int) -> Tuple[np.ndarray, str]:
    """bool[lead dims] mask of rows where pytrees a and b differ + a description of the first leaf."""
    la = jax.tree_util.tree_flatten_with_path(a)[0]
    lb = jax.tree_util.tree_leaves(b)
    if jax.tree_util.tree_structure(a) != jax.tree_util.tree_structure(b):
        return np.ones((1,) * lead, bool), "tree structure differs"
    mask = None
    what = ""
    for (path, x), y in zip(la, lb):
        x, y = np.asarray(x), np.asarray(y)
        name = jax.tree_util.keystr(path)
        if x.shape != y.shape or x.dtype != y.dtype:
            return np.ones(x.shape[:lead], bool), f"{name}: shape/dtype {x.shape} {x.dtype} vs {y.shape} {y.dtype}"
        if x.dtype.kind == "f":
            ne = ~np.isclose(x, y, rtol=1e-5, atol=1e-6, equal_nan=True)
        else:
            ne = x != y
        ne = ne.reshape(ne.shape[:lead] + (-1,)).any(axis=-1)
        if ne.any() and not what:
            what = name
        mask = ne if mask is None else (mask | ne)
    if mask is None:
        mask = np.zeros((1,) * lead, bool)
    return mask, what


class MTSMonitor(Monitor):
    def __init__(self, env: Any, family: str):
        self.env, self.fam = env, family
        self.W = [make_wrapped(env, p) for p in PAIRS]
        # one compilation for all aggregator pairs (each element of the tuple is what that wrapper returns)
        W = self.W
        self.step_all = jax.jit(jax.vmap(lambda s, A: jax.vmap(lambda a: tuple(w.step(s, a) for w in W))(A),
                                         in_axes=(0, None)))
        self.reset_all = jax.jit(jax.vmap(lambda k: tuple(w.reset(k) for w in W)))
        self.eager_done = 0

    # -- comparison of one batch ----------------------------------------------------------------
    def _compare(self, where: str, native_state: Any, native_ts: Any, w_state: Any, w_ts: Any, pair: Any,
                 lead: int, enabled: np.ndarray, report) -> None:
        ex = self.ex
        name = pair[0]
        for part, a, b in (("state", native_state, w_state), ("observation", native_ts.observation, w_ts.observation),
                           ("extras", native_ts.extras, w_ts.extras), ("step_type", native_ts.step_type, w_ts.step_type)):
            m, what = _rows_differ(a, b, lead)
            m = np.broadcast_to(m, enabled.shape) & enabled
            if m.any():
                report(m, f"MultiToSingleWrapper.{where}:{part}-changed", f"{part} differs from the native {where} "
                       f"with aggregators {name} (first differing leaf {what})")
        for part, oracle in (("reward", pair[3]), ("discount", pair[4])):
            nat = np.asarray(getattr(native_ts, part)).astype(np.float64)
            nat = nat.reshape(nat.shape[:lead] + (-1,))
            exp = oracle(nat)
            got = np.asarray(getattr(w_ts, part))
            if got.shape != exp.shape:
                report(enabled, f"MultiToSingleWrapper.{where}:{part}-not-scalar",
                       f"aggregated {part} has shape {got.shape[lead:]} per transition with aggregators {name}")
                continue
            bad = ~np.isclose(got.astype(np.float64), exp, rtol=1e-5, atol=1e-6, equal_nan=True) & enabled
            if bad.any():
                i = tuple(int(v[0]) for v in np.nonzero(bad))
                report(bad, f"MultiToSingleWrapper.{where}:{part}-is-not-the-aggregate",
                       f"{part}={got[i]} but {name} of native {part} {nat[i].tolist()} is {exp[i]}")
            ex.count("aggregations_checked", int(enabled.sum()))
        # would the run notice swapped / ignored aggregators? (only meaningful for >1 agent)
        if name == "default(sum,max)":
            r = np.asarray(native_ts.reward).astype(np.float64)
            r = r.reshape(r.shape[:lead] + (-1,))
            if r.shape[-1] > 1:
                distinct = ~np.isclose(r.sum(-1), r.max(-1)) & ~np.isclose(r.sum(-1), r.mean(-1)) & enabled
                ex.count("multi_agent_edges_with_sum_max_mean_all_distinct", int(distinct.sum()))
                ex.count("multi_agent_aggregations", int(enabled.sum()))
                d = np.asarray(native_ts.discount).astype(np.float64)
                d = d.reshape(d.shape[:lead] + (-1,))
                dd = ~np.isclose(d.max(-1), d.min(-1)) & ~np.isclose(d.max(-1), d.sum(-1)) & enabled
                ex.count("multi_agent_edges_with_discount_max_min_sum_all_distinct", int(dd.sum()))

    def on_roots(self, roots: Batch) -> None:
        if getattr(self.ex, "injected_roots", False) or not self.ex.keys:
            return
        keys = jnp.stack([jax.random.PRNGKey(k) for k in self.ex.keys])
        R = len(roots)
        en = np.ones(R, bool)

        def report(mask: np.ndarray, sig: str, msg: str) -> None:
            for i in np.nonzero(mask)[0][:2]:
                self.ex.violation(sig, msg, int(roots.ids[i]))

        for pair, (ws, wts) in zip(PAIRS, self.reset_all(keys)):
            self._compare("reset", roots.state, roots.ts, to_np(ws), to_np(wts), pair, 1, en, report)
        self.ex.count("mts_resets_compared", R * len(PAIRS))

    def on_edges(self, parents: Batch, actions: np.ndarray, children: Batch, enabled: np.ndarray) -> None:
        m = len(parents)
        size = 8
        while size < m:
            size *= 4
        st = parents.state
        if size > m:
            st = tmap(lambda x: np.concatenate([x, np.repeat(x[:1], size - m, axis=0)], axis=0), st)
        st_j = tmap(jnp.asarray, st)
        A = jnp.asarray(actions)

        def report(mask: np.ndarray, sig: str, msg: str) -> None:
            for i, a in list(zip(*np.nonzero(mask)))[:2]:
                self.ex.violation(sig, msg, int(parents.ids[i]), int(a))

        for pair, (ws, wts) in zip(PAIRS, self.step_all(st_j, A)):
            ws, wts = to_np(ws), to_np(wts)
            if size > m:
                ws, wts = t_index(ws, slice(0, m)), t_index(wts, slice(0, m))
            self._compare("step", children.state, children.ts, ws, wts, pair, 2, enabled, report)
        self.ex.count("mts_edges_compared", int(enabled.sum()) * len(PAIRS))
        st_type = np.asarray(children.ts.step_type)
        self.ex.count("mts_last_edges", int(((st_type == 2) & enabled).sum()))
        # eager (un-jitted, per-call) wrapper on one edge of the first few batches
        if self.eager_done < 2 and enabled[0].any():
            a = int(np.nonzero(enabled[0])[0][(self.ex.seed + self.eager_done) % int(enabled[0].sum())])
            s0 = tmap(jnp.asarray, t_index(parents.state, 0))
            probs = eager_edge_problems(self.env, s0, jnp.asarray(actions[a]), list(PAIRS) + [EXTRA_EAGER])
            for sig, msg in probs:
                self.ex.violation(sig, "eager: " + msg, int(parents.ids[0]), a)
            self.eager_done += 1

    def finish(self) -> Dict[str, Any]:
        return {"mts_eager_edges": self.eager_done, "aggregator_pairs": [p[0] for p in PAIRS] + [EXTRA_EAGER[0]]}


def _one_problems(where: str, ns: Any, nts: Any, ws: Any, wts: Any, pair: Any) -> List[Tuple[str, str]]:
    out = []
    for part, a, b in (("state", ns, ws), ("observation", nts.observation, wts.observation),
                       ("extras", nts.extras, wts.extras), ("step_type", nts.step_type, wts.step_type)):
        d = leaf_diff(to_np(a), to_np(b))
        if d:
            out.append((f"MultiToSingleWrapper.{where}:{part}-changed", f"{pair[0]}: {d[:2]}"))
    for part, oracle in (("reward", pair[3]), ("discount", pair[4])):
        nat = np.asarray(getattr(nts, part)).astype(np.float64).reshape(-1)
        exp = oracle(nat)
        got = np.asarray(getattr(wts, part))
        if got.shape != ():
            out.append((f"MultiToSingleWrapper.{where}:{part}-not-scalar", f"{pair[0]}: shape {got.shape}"))
        elif not np.isclose(float(got), float(exp), rtol=1e-5, atol=1e-6, equal_nan=True):
            out.append((f"MultiToSingleWrapper.{where}:{part}-is-not-the-aggregate",
                        f"{part}={float(got)} but {pair[0]} of native {nat.tolist()} is {float(exp)}"))
    return out


def eager_edge_problems(env: Any, state: Any, action: Any, pairs: Sequence[Any]) -> List[Tuple[str, str]]:
    ns, nts = env.step(state, action)
    out: List[Tuple[str, str]] = []
    for p in pairs:
        ws, wts = make_wrapped(env, p).step(state, action)
        out += _one_problems("step", ns, nts, ws, wts, p)
    return out


def eager_reset_problems(env: Any, key: Any, pairs: Sequence[Any]) -> List[Tuple[str, str]]:
    ns, nts = env.reset(key)
    out: List[Tuple[str, str]] = []
    for p in pairs:
        ws, wts = make_wrapped(env, p).reset(key)
        out += _one_problems("reset", ns, nts, ws, wts, p)
    return out


# ---------------------------------------------------------------------------------------------
# a stub multi-agent environment whose per-agent rewards AND discounts are pairwise different, so
# that every aggregator (sum / max / min / mean / prod) gives a different number: Connector and
# LBF emit the same discount for every agent, which cannot tell `max` from `min`.
# ---------------------------------------------------------------------------------------------
class StubState(NamedTuple):
    key: Any
    t: Any
    x: Any


class StubObservation(NamedTuple):
    t: Any
    x: Any


def _make_stub_class() -> Any:
    from jumanji import specs
    from jumanji.env import Environment
    from jumanji.types import StepType, TimeStep

    class C15Stub(Environment):
        """Deterministic toy: x' = (3x + a + 1) mod 7; agent i gets reward (i+1)(x'+1)/4 - a and
        discount ((x'+i) mod 4)/3; LAST at t == time_limit."""

        def __init__(self, num_agents: int = 3, time_limit: int = 3):
            self.n, self.time_limit = num_agents, time_limit
            super().__init__()

        def __repr__(self) -> str:
            return f"C15Stub({self.n}, {self.time_limit})"

        def _obs(self, t: Any, x: Any) -> StubObservation:
            return StubObservation(t=t, x=x)

        def reset(self, key: Any) -> Any:
            k1, k2 = jax.random.split(key)
            x = jax.random.randint(k1, (), 0, 7, jnp.int32)
            t = jnp.zeros((), jnp.int32)
            ts = TimeStep(step_type=StepType.FIRST, reward=jnp.zeros((self.n,), jnp.float32),
                          discount=jnp.ones((self.n,), jnp.float32), observation=self._obs(t, x),
                          extras={"x_parity": x % 2})
            return StubState(key=k2, t=t, x=x), ts

        def step(self, state: StubState, action: Any) -> Any:
            a = jnp.asarray(action, jnp.int32)
            x = (3 * state.x + a + 1) % 7
            t = state.t + 1
            i = jnp.arange(self.n)
            reward = ((i + 1) * (x + 1)).astype(jnp.float32) / 4.0 - a.astype(jnp.float32)
            discount = ((x + i) % 4).astype(jnp.float32) / 3.0
            st = jnp.where(t >= self.time_limit, StepType.LAST, StepType.MID)
            ts = TimeStep(step_type=st, reward=reward, discount=discount, observation=self._obs(t, x),
                          extras={"x_parity": x % 2})
            return StubState(key=state.key, t=t, x=x), ts

        @cached_property
        def observation_spec(self) -> Any:
            return specs.Spec(StubObservation, "StubObservationSpec",
                              t=specs.BoundedArray((), jnp.int32, 0, self.time_limit, "t"),
                              x=specs.DiscreteArray(7, jnp.int32, "x"))

        @cached_property
        def action_spec(self) -> Any:
            return specs.DiscreteArray(2, name="action")

        @cached_property
        def reward_spec(self) -> Any:
            return specs.Array((self.n,), jnp.float32, "reward")

        @cached_property
        def discount_spec(self) -> Any:
            return specs.BoundedArray((self.n,), jnp.float32, 0.0, 1.0, "discount")

    return C15Stub


_STUB = None


def namespace() -> Dict[str, Any]:
    global _STUB
    if _STUB is None:
        _STUB = _make_stub_class()
    ns = dict(catalog.namespace())
    ns["C15Stub"] = _STUB
    return ns


def run_mts_stub(tier: str, seed: int, model: str = "") -> Dict[str, Any]:
    del model
    t0 = time.time()
    ctor = "C15Stub(3, 3)" if tier == "quick" else "C15Stub(4, 5)"
    env = eval(ctor, namespace())  # noqa: S307
    mon = MTSMonitor(env, "stub")
    ex = Explorer(env, "mts:stub", PID, keys=list(range(8)), monitors=[mon], max_depth=8, max_states=5000,
                  seed=seed, ctor=ctor, eager_budget_s=3.0, eager_max_paths=2)
    res = ex.run()
    for sig, msg in eager_reset_problems(env, jax.random.PRNGKey(0), list(PAIRS) + [EXTRA_EAGER]):
        ex.violation(sig, "eager: " + msg, 0)
        res["violations"] = list(ex.violations)
    res["validated"] = int(res.get("validated", 0)) + mon.eager_done + 1
    res["family"], res["part"] = "stub", "multi-to-single"
    for v in res["violations"]:
        v.replay["kind"] = "mts"
    res["total_s"] = round(time.time() - t0, 2)
    return res


# quick tier uses the entries flagged True
MTS_CONFIGS: List[Tuple[str, bool]] = [
    ("connector-3x2-T3", True), ("lbf-5x2x1-T3", True), ("lbf-5-nonorm-pen-T2", True), ("maze-toy-T3", True),
    ("connector-4x1-T4", True), ("lbf-5x1x1-T3", True),  # ONE agent: aggregation over an axis of length 1
    ("connector-4x2-T5", False), ("connector-rw5x3-T2", False), ("lbf-5-fov1-T2", False),
    ("lbf-6x3x2-grid-T2", False), ("snake-5x2-T3", False), ("cleaner-5x3x2-T3", False), ("tsp-4-sparse", False),
]


def run_mts(cfg_name: str, tier: str, seed: int, model: str = "") -> Dict[str, Any]:
    del model
    t0 = time.time()
    cfg = catalog.BY_NAME[cfg_name]
    env = cfg.make()
    mon = MTSMonitor(env, cfg.family)
    ex = Explorer(env, f"mts:{cfg_name}", PID, keys=cfg.keys(tier), monitors=[mon], max_depth=cfg.depth_for(tier),
                  max_states=3000 if tier == "quick" else 40000, seed=seed, ctor=cfg.ctor,
                  eager_budget_s=4.0, eager_max_paths=2)  # no wall-clock cap: coverage must not depend on load
    res = ex.run()
    # reset through the plain un-jitted wrapper for the first key
    for sig, msg in eager_reset_problems(env, jax.random.PRNGKey(cfg.keys(tier)[0]), list(PAIRS) + [EXTRA_EAGER]):
        ex.violation(sig, "eager: " + msg, 0)
        res["violations"] = list(ex.violations)
    res["validated"] = int(res.get("validated", 0)) + mon.eager_done + 1
    res["family"] = cfg.family
    res["part"] = "multi-to-single"
    for v in res["violations"]:
        v.replay["kind"] = "mts"
    res["total_s"] = round(time.time() - t0, 2)
    return res


def replay(rdoc: Dict[str, Any]) -> int:
    """Plain eager loop along the recorded path; the wrapper is compared with the native step on
    every step of the path (all aggregator pairs)."""
    env = eval(rdoc["ctor"], namespace())  # noqa: S307
    key = jax.random.PRNGKey(int(rdoc["reset_key_seed"]))
    pairs = list(PAIRS) + [EXTRA_EAGER]
    probs = eager_reset_problems(env, key, pairs)
    s, ts = env.reset(key)
    dt = np.asarray(env.action_spec.generate_value()).dtype
    for a in rdoc["actions"]:
        a = jnp.asarray(np.asarray(a, dtype=dt))
        probs += eager_edge_problems(env, s, a, pairs)
        s, ts = env.step(s, a)
    for sig, msg in probs:
        print(f"  {sig}: {msg}")
    sigs = {p[0] for p in probs}
    want = rdoc.get("signature")
    print(f"replay(mts) {rdoc['model']}: signatures reproduced: {sorted(sigs)}")
    return 1 if (want in sigs or (want is None and sigs)) else 0
