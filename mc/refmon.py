"""Generic monitors that bind the per-environment reference modules (mc/ref/<family>.py) to the
explorer for C04-C09 and C12.  A reference module implements any subset of the functions below; a
missing function means "this family is not covered for that property" and is counted, not guessed.

All reference functions work on ONE unbatched row (NumPy pytrees with the env's own container
types) and return a list of problem strings "code: detail" (empty list = agrees); the violation
signature is "<family>:<code>".

    legal(env, s)                      -> bool array shaped like the mask, or (bool array, care array)   [C04]
    mask(env, obs)                     -> the mask as shown to the agent (default: obs.action_mask)
    action_legal(env, s, a)            -> bool: the (joint) action a is legal in s by the rules           [C05, C06, C08]
    mask_allows(env, mask, a)          -> bool: action a is masked-in (default derived, see _mask_allows) [C06, C08]
    check_reaction(env, s, a, s2, ts, masked_in) -> problems (environment's own reaction vs the mask)     [C04b]
    check_illegal(env, s, a, s2, ts)   -> problems; called on edges whose action is illegal               [C05]
    check_constraints(env, s)          -> problems; hard constraints of the partial solution              [C06]
    check_complete(env, s, ts)         -> problems; called on LAST edges reached by legal play            [C06]
    check_invariants(env, s)           -> problems; physical consistency of a non-terminal state          [C07]
    check_conservation(env, s, a, s2, ts) -> problems; conserved quantities across a non-terminal edge    [C07]
    objective(env, s, ts)              -> float objective of a terminal state, or None if not applicable  [C08]
    potential(env, s)                  -> float64 potential: on every legal edge reward == potential(s2) -  [C08]
                                          potential(s) (edge-local telescoping; use it where the objective is a
                                          *difference* w.r.t. the initial state, e.g. SlidingTilePuzzle); either
                                          objective or potential (or both) may be defined
    reward_ok_on_invalid ...           (not needed: C08 only follows legal actions)
    check_step(env, s, a, s2, ts)      -> problems; successor/reward/termination vs the rules             [C09]
    check_obs(env, s, obs)             -> problems; observation vs documented function of the state       [C12]
"""
from __future__ import annotations

import importlib
from typing import Any, Callable, Dict, List, Optional

from mc import boot  # noqa: F401

import numpy as np

from mc.engine import Batch, Monitor, t_index


def load_ref(family: str) -> Any:
    try:
        return importlib.import_module(f"mc.ref.{family}")
    except ModuleNotFoundError as e:
        if e.name == f"mc.ref.{family}":
            return None
        raise


def has(ref: Any, fn: str) -> bool:
    return ref is not None and callable(getattr(ref, fn, None))


def _sig_of(problem: str) -> str:
    return problem.split(":", 1)[0].strip()


def default_mask(obs: Any) -> np.ndarray:
    return np.asarray(obs.action_mask)


def get_mask(ref: Any, env: Any, obs: Any) -> np.ndarray:
    if has(ref, "mask"):
        return np.asarray(ref.mask(env, obs))
    return default_mask(obs)


def default_mask_allows(mask: np.ndarray, a: np.ndarray) -> bool:
    """Joint mask (mask.ndim == len(a)): mask[tuple(a)]; per-agent mask [agents, n]: all agents allowed;
    scalar action: mask[a]."""
    a = np.asarray(a)
    if a.ndim == 0:
        return bool(mask[int(a)])
    if mask.ndim == a.shape[0] and a.ndim == 1 and mask.ndim != 2:
        return bool(mask[tuple(int(x) for x in a)])
    if mask.ndim == 2 and a.ndim == 1 and mask.shape[0] == a.shape[0]:
        # ambiguous with a 2-component joint action when mask is [n0, n1]; families override mask_allows
        return bool(all(mask[i, int(a[i])] for i in range(a.shape[0])))
    if mask.ndim == a.shape[0]:
        return bool(mask[tuple(int(x) for x in a)])
    raise ValueError(f"cannot relate mask shape {mask.shape} to action shape {a.shape}")


def mask_allows(ref: Any, env: Any, mask: np.ndarray, a: np.ndarray) -> bool:
    if has(ref, "mask_allows"):
        return bool(ref.mask_allows(env, mask, a))
    return default_mask_allows(mask, a)


class RefMonitor(Monitor):
    """Base: iterates rows, calls reference functions, turns problems into violations."""

    def __init__(self, cfg: Any, env: Any, ref: Any):
        self.cfg, self.env, self.ref, self.fam = cfg, env, ref, cfg.family

    def _report(self, problems: List[str], node: int, action: Optional[int], prefix: str = "") -> None:
        for p in problems or []:
            self.ex.violation(f"{self.fam}:{_sig_of(p)}", prefix + p, node, action)

    def rows(self, parents: Batch, children: Batch, enabled: np.ndarray):
        m, nA = enabled.shape
        for i in range(m):
            if parents.post[i] > 0:
                continue
            en = np.nonzero(enabled[i])[0]
            if not len(en):
                continue
            s = t_index(parents.state, i)
            ts = t_index(parents.ts, i)
            for a in en:
                yield i, int(a), s, ts, t_index(children.state, (i, int(a))), t_index(children.ts, (i, int(a)))


def legal_only_enabled_fn(ref: Any, env: Any) -> Callable[[Batch, np.ndarray], np.ndarray]:
    """Mask-respecting play: an edge is explored iff the parent's *shown* mask allows the action."""

    def fn(parents: Batch, actions: np.ndarray) -> np.ndarray:
        m = len(parents)
        out = np.zeros((m, len(actions)), bool)
        for i in range(m):
            mask = get_mask(ref, env, t_index(parents.ts, i).observation)
            for j, a in enumerate(actions):
                out[i, j] = mask_allows(ref, env, mask, a)
        return out

    return fn


# --------------------------------------------------------------------------------------------- C04
class MaskMonitor(RefMonitor):
    def _check_state(self, s: Any, ts: Any, node: int, action: Optional[int]) -> None:
        ex = self.ex
        mask = get_mask(self.ref, self.env, ts.observation)
        res = self.ref.legal(self.env, s)
        care = None
        if isinstance(res, tuple):
            res, care = res
        legal = np.asarray(res, bool)
        if legal.shape != mask.shape:
            ex.violation(f"{self.fam}:mask-shape", f"mask shape {mask.shape} vs rules {legal.shape}", node, action)
            return
        diff = mask.astype(bool) != legal
        if care is not None:
            diff &= np.asarray(care, bool)
        ex.count("mask_states", 1)
        ex.count("mask_entries", int(diff.size))
        ex.count("states_with_illegal_action", int((~legal).any()))
        ex.count("states_with_legal_action", int(legal.any()))
        if diff.any():
            idx = np.argwhere(diff)[:4].tolist()
            hidden = bool((diff & legal).any())
            extra = bool((diff & ~legal).any())
            kind = "hides-legal-move" if hidden and not extra else ("admits-illegal-move" if extra and not hidden else "differs")
            ex.violation(f"{self.fam}:mask-{kind}",
                         f"mask != legal set at entries {idx}: mask={mask[tuple(np.array(idx).T)].tolist()} "
                         f"rules={legal[tuple(np.array(idx).T)].tolist()}", node, action)

    def on_roots(self, roots: Batch) -> None:
        if self.ex.injected_roots:
            return
        for i in range(len(roots)):
            self._check_state(t_index(roots.state, i), t_index(roots.ts, i), int(roots.ids[i]), None)

    def on_edges(self, parents: Batch, actions: np.ndarray, children: Batch, enabled: np.ndarray) -> None:
        react = has(self.ref, "check_reaction")
        for i, a, s, ts, s2, ts2 in self.rows(parents, children, enabled):
            if int(ts2.step_type) != 2:
                self._check_state(s2, ts2, int(parents.ids[i]), a)
            if react and not (self.ex.injected_roots and self.ex.depth[int(parents.ids[i])] == 0):
                mask = get_mask(self.ref, self.env, ts.observation)
                masked_in = mask_allows(self.ref, self.env, mask, actions[a])
                self._report(self.ref.check_reaction(self.env, s, actions[a], s2, ts2, masked_in),
                             int(parents.ids[i]), a)
                self.ex.count("reactions_checked", 1)


# --------------------------------------------------------------------------------------------- C05
class IllegalMonitor(RefMonitor):
    def on_edges(self, parents: Batch, actions: np.ndarray, children: Batch, enabled: np.ndarray) -> None:
        for i, a, s, ts, s2, ts2 in self.rows(parents, children, enabled):
            if self.ref.action_legal(self.env, s, actions[a]):
                self.ex.count("legal_edges", 1)
                continue
            self.ex.count("illegal_edges", 1)
            self._report(self.ref.check_illegal(self.env, s, actions[a], s2, ts2), int(parents.ids[i]), a)


# --------------------------------------------------------------------------------------------- C06
class ConstraintMonitor(RefMonitor):
    def on_roots(self, roots: Batch) -> None:
        for i in range(len(roots)):
            self._report(self.ref.check_constraints(self.env, t_index(roots.state, i)), int(roots.ids[i]), None)

    def on_edges(self, parents: Batch, actions: np.ndarray, children: Batch, enabled: np.ndarray) -> None:
        for i, a, s, ts, s2, ts2 in self.rows(parents, children, enabled):
            self.ex.count("legal_play_edges", 1)
            self._report(self.ref.check_constraints(self.env, s2), int(parents.ids[i]), a)
            if int(ts2.step_type) == 2 and has(self.ref, "check_complete"):
                self.ex.count("legal_play_terminal_edges", 1)
                self._report(self.ref.check_complete(self.env, s2, ts2), int(parents.ids[i]), a)


# --------------------------------------------------------------------------------------------- C07
class InvariantMonitor(RefMonitor):
    def on_roots(self, roots: Batch) -> None:
        if self.ex.injected_roots:
            return
        for i in range(len(roots)):
            self._report(self.ref.check_invariants(self.env, t_index(roots.state, i)), int(roots.ids[i]), None)
            self.ex.count("invariant_states", 1)

    def on_edges(self, parents: Batch, actions: np.ndarray, children: Batch, enabled: np.ndarray) -> None:
        cons = has(self.ref, "check_conservation")
        for i, a, s, ts, s2, ts2 in self.rows(parents, children, enabled):
            if int(ts2.step_type) == 2:
                self.ex.count("terminal_edges_skipped", 1)
                continue
            self.ex.count("invariant_states", 1)
            self._report(self.ref.check_invariants(self.env, s2), int(parents.ids[i]), a)
            if cons:
                self._report(self.ref.check_conservation(self.env, s, actions[a], s2, ts2), int(parents.ids[i]), a)
                self.ex.count("conservation_edges", 1)


# --------------------------------------------------------------------------------------------- C08
class ReturnMonitor(RefMonitor):
    """Along mask-respecting play the accumulated return is stored per node; at every terminal edge it
    must equal the documented objective recomputed (float64) from the terminal state, and a state
    reached along two different paths must carry the same return (the return is a function of the
    state, which is what makes the DAG check equivalent to checking every path)."""

    def start(self, ex: Any) -> None:
        super().start(ex)
        self.ret: Dict[int, float] = {}
        self.tol = 1e-4
        self.has_phi = has(self.ref, "potential")
        self.has_obj = has(self.ref, "objective")

    def on_roots(self, roots: Batch) -> None:
        for nid in roots.ids:
            self.ret[int(nid)] = 0.0

    def on_edges(self, parents: Batch, actions: np.ndarray, children: Batch, enabled: np.ndarray) -> None:
        self._pending = (parents, actions, children, enabled)

    def after_edges(self, parents: Batch, actions: np.ndarray, children: Batch, enabled: np.ndarray,
                    child_ids: np.ndarray) -> None:
        ex = self.ex
        r = np.asarray(children.ts.reward, np.float64)
        st = np.asarray(children.ts.step_type)
        m, nA = enabled.shape
        for i in range(m):
            if parents.post[i] > 0:
                continue
            base = self.ret.get(int(parents.ids[i]))
            if base is None:
                continue
            phi0 = self.ref.potential(self.env, t_index(parents.state, i)) if self.has_phi else None
            for a in np.nonzero(enabled[i])[0]:
                if self.has_phi:
                    phi1 = self.ref.potential(self.env, t_index(children.state, (i, int(a))))
                    ex.count("potential_edges_checked", 1)
                    want = float(phi1) - float(phi0)
                    got = float(np.sum(r[i, a]))
                    if want != want:  # NaN: the reference declares the potential undefined on this edge
                        ex.count("potential_edges_undefined", 1)
                    elif abs(got - want) > self.tol * max(1.0, abs(want)):
                        ex.violation(f"{self.fam}:reward!=potential-difference",
                                     f"reward {got:.6f} != potential(s') - potential(s) = {want:.6f}",
                                     int(parents.ids[i]), int(a))
                    if not self.has_obj:
                        ex.count("returns_checked", int(st[i, a] == 2))
                        if st[i, a] != 2:
                            self.ret.setdefault(int(child_ids[i, a]), base + got)
                        continue
                tot = base + float(np.sum(r[i, a]))
                cid = int(child_ids[i, a])
                scale = max(1.0, abs(tot))
                if st[i, a] == 2:
                    obj = self.ref.objective(self.env, t_index(children.state, (i, int(a))),
                                             t_index(children.ts, (i, int(a))))
                    if obj is None:
                        ex.count("terminal_edges_without_objective", 1)
                        continue
                    ex.count("returns_checked", 1)
                    if abs(tot - float(obj)) > self.tol * max(scale, abs(float(obj))):
                        ex.violation(f"{self.fam}:return!=objective",
                                     f"episode return {tot:.6f} != objective recomputed from the final state "
                                     f"{float(obj):.6f}", int(parents.ids[i]), int(a))
                else:
                    old = self.ret.get(cid)
                    if old is None:
                        self.ret[cid] = tot
                    elif abs(old - tot) > self.tol * scale:
                        ex.count("path_dependent_returns", 1)
                        ex.violation(f"{self.fam}:return-depends-on-path",
                                     f"the same state is reached with return {old:.6f} along one legal path and "
                                     f"{tot:.6f} along another (futures are identical, so at most one can equal the "
                                     "objective)", int(parents.ids[i]), int(a))


# --------------------------------------------------------------------------------------------- C09
class StepMonitor(RefMonitor):
    def on_edges(self, parents: Batch, actions: np.ndarray, children: Batch, enabled: np.ndarray) -> None:
        for i, a, s, ts, s2, ts2 in self.rows(parents, children, enabled):
            self.ex.count("steps_compared", 1)
            if int(ts2.step_type) == 2:
                self.ex.count("terminal_steps_compared", 1)
            self._report(self.ref.check_step(self.env, s, actions[a], s2, ts2), int(parents.ids[i]), a)


# --------------------------------------------------------------------------------------------- C12
class ObsMonitor(RefMonitor):
    def on_roots(self, roots: Batch) -> None:
        if self.ex.injected_roots:
            return
        for i in range(len(roots)):
            self._report(self.ref.check_obs(self.env, t_index(roots.state, i), t_index(roots.ts, i).observation),
                         int(roots.ids[i]), None, "reset: ")
            self.ex.count("observations_compared", 1)

    def on_edges(self, parents: Batch, actions: np.ndarray, children: Batch, enabled: np.ndarray) -> None:
        for i, a, s, ts, s2, ts2 in self.rows(parents, children, enabled):
            self._report(self.ref.check_obs(self.env, s2, ts2.observation), int(parents.ids[i]), a)
            self.ex.count("observations_compared", 1)
            if int(ts2.step_type) == 2:
                self.ex.count("terminal_observations_compared", 1)
