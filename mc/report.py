"""Violations, known findings, replay artefacts and evidence files."""
from __future__ import annotations

import dataclasses
import hashlib
import json
import os
import re
import time
from typing import Any, Dict, List, Optional

from mc import boot

LEVEL = "model_checking"
# A run restricted to some models / families (developer convenience) must never overwrite the evidence of
# a full run: its evidence goes to the git-ignored .cache directory unless a directory is given explicitly.
_PARTIAL = bool(os.environ.get("VERIF_MODELS") or os.environ.get("VERIF_FAMILIES") or os.environ.get("VERIF_C02_FAMILIES"))
EVIDENCE_DIR = os.environ.get("VERIF_EVIDENCE_DIR") or os.path.join(
    boot.VERIF, ".cache/partial-evidence" if _PARTIAL else "evidence")
REPLAY_DIR = os.environ.get("VERIF_REPLAY_DIR") or os.path.join(boot.VERIF, "replays")
FINDINGS = os.path.join(boot.VERIF, "known_findings.txt")


def _jsonable(x: Any) -> Any:
    import numpy as np

    if isinstance(x, dict):
        return {str(k): _jsonable(v) for k, v in x.items()}
    if isinstance(x, (list, tuple)):
        return [_jsonable(v) for v in x]
    if isinstance(x, (np.generic,)):
        return x.item()
    if isinstance(x, np.ndarray):
        return x.tolist()
    if hasattr(x, "tolist") and hasattr(x, "dtype"):
        return np.asarray(x).tolist()
    if isinstance(x, (bytes, bytearray)):
        return x.hex()
    if isinstance(x, (str, int, float, bool)) or x is None:
        if isinstance(x, float) and (x != x or x in (float("inf"), float("-inf"))):
            return repr(x)
        return x
    return repr(x)


@dataclasses.dataclass
class Violation:
    property_id: str
    model: str  # catalogue configuration / case family the violation was found in
    signature: str  # stable identifier of *what* fails (used to match known findings)
    message: str
    replay: Dict[str, Any]  # everything needed to re-run the failing case without the explorer

    def to_json(self) -> Dict[str, Any]:
        return _jsonable(dataclasses.asdict(self))


@dataclasses.dataclass
class Finding:
    status: str  # "open" | "fixed"
    property_id: str
    sig: Optional[str]
    text: str


def load_findings(path: str = FINDINGS) -> List[Finding]:
    out: List[Finding] = []
    if not os.path.exists(path):
        return out
    for line in open(path):
        line = line.strip()
        if not line or line.startswith("#"):
            continue
        m = re.match(r"^(open|fixed):\s+property=(\S+)\s+(.*)$", line)
        if not m:
            continue
        status, pid, rest = m.groups()
        sig = None
        ms = re.match(r"^sig=(\S+)\s*(.*)$", rest)
        if ms:
            sig, rest = ms.groups()
        out.append(Finding(status, pid, sig, rest))
    return out


class Reporter:
    """Collects the outcome of one check run and turns it into exit code, stdout lines, replay
    files and the evidence file. Nothing is ever written to known_findings.txt."""

    def __init__(self, property_id: str, tier: str, seed: int):
        self.property_id = property_id
        self.tier = tier
        self.seed = seed
        self.t0 = time.time()
        self.violations: List[Violation] = []
        self.coverage: Dict[str, Any] = {
            "states": 0,
            "transitions": 0,
            "traces_validated_against_impl": 0,
            "samples": [],
            "per_model": [],
        }
        self.assumptions: List[str] = []
        self.errors: List[str] = []
        self.vacuity: Dict[str, int] = {}

    # -- accumulation -----------------------------------------------------------------------
    def add_model(self, res: Dict[str, Any]) -> None:
        """Merge a per-model result dict produced by a worker."""
        cov = self.coverage
        cov["states"] += int(res.get("states", 0))
        cov["transitions"] += int(res.get("transitions", 0))
        cov["traces_validated_against_impl"] += int(res.get("validated", 0))
        for s in res.get("samples", [])[:2]:
            if len(cov["samples"]) < 12:
                cov["samples"].append(_jsonable(s))
        pm = {k: v for k, v in res.items() if k not in ("samples", "violations", "vacuity", "error")}
        cov["per_model"].append(_jsonable(pm))
        for k, v in res.get("vacuity", {}).items():
            self.vacuity[k] = self.vacuity.get(k, 0) + int(v)
        for v in res.get("violations", []):
            self.violations.append(v if isinstance(v, Violation) else Violation(**v))
        if res.get("error"):
            self.errors.append(f"{res.get('model')}: {res['error']}")

    def require_positive(self, *keys: str) -> None:
        """Vacuity guard: these counters must be > 0 or the run fails as vacuous."""
        for k in keys:
            if self.vacuity.get(k, 0) <= 0:
                self.errors.append(f"vacuous run: counter '{k}' is zero")

    # -- finish -----------------------------------------------------------------------------
    def finish(self) -> int:
        findings = load_findings()
        open_f = [f for f in findings if f.status == "open" and f.property_id == self.property_id]
        known_hit: Dict[str, int] = {}
        fresh: List[Violation] = []
        for v in self.violations:
            hit = next((f for f in open_f if f.sig and f.sig == v.signature), None)
            if hit is not None:
                known_hit[hit.sig] = known_hit.get(hit.sig, 0) + 1
            else:
                fresh.append(v)
        for f in open_f:
            if f.sig in known_hit:
                print(f"KNOWN-FINDING: property={self.property_id} {f.text} "
                      f"[sig={f.sig}, reproduced {known_hit[f.sig]}x this run]")
        # one VIOLATION line per distinct (model, signature), shortest first
        seen = set()
        n_lines = 0
        os.makedirs(REPLAY_DIR, exist_ok=True)
        for v in fresh:
            key = (v.signature,)
            if key in seen:
                continue
            seen.add(key)
            doc = v.to_json()
            digest = hashlib.sha1(json.dumps(doc, sort_keys=True).encode()).hexdigest()[:10]
            path = os.path.join(REPLAY_DIR, f"{self.property_id}-{digest}.json")
            with open(path, "w") as fh:
                json.dump(doc, fh, indent=1, sort_keys=True)
            print(f"VIOLATION property={self.property_id} replay={path}")
            print(f"  model={v.model} signature={v.signature}\n  {v.message}")
            n_lines += 1
            if n_lines >= 25:
                print(f"  ... {len(fresh)} violating cases in total (further lines suppressed)")
                break
        for e in self.errors:
            print(f"ERROR property={self.property_id} {e}")
        self.write_evidence(len(fresh), known_hit)
        cov = self.coverage
        print(
            f"[{self.property_id}] tier={self.tier} seed={self.seed} models={len(cov['per_model'])} "
            f"states={cov['states']} transitions={cov['transitions']} "
            f"eager-validated={cov['traces_validated_against_impl']} violations={len(fresh)} "
            f"known={sum(known_hit.values())} errors={len(self.errors)} "
            f"wall={time.time() - self.t0:.1f}s"
        )
        if fresh:
            return 1
        if self.errors:
            return 2
        return 0

    def write_evidence(self, n_viol: int, known_hit: Dict[str, int]) -> None:
        os.makedirs(EVIDENCE_DIR, exist_ok=True)
        cov = dict(self.coverage)
        cov["vacuity_counters"] = dict(self.vacuity)
        cov["known_findings_reproduced"] = dict(known_hit)
        if not cov["samples"]:
            cov["samples"] = ["<no sample recorded>"]
        closed = [m for m in cov["per_model"] if m.get("closed")]
        cov["closed_models"] = len(closed)
        cov["capped_models"] = len([m for m in cov["per_model"] if m.get("closed") is False])
        if "exhaustive" not in cov:
            cov["exhaustive"] = bool(cov["per_model"]) and all(
                m.get("closed", m.get("exhaustive", False)) for m in cov["per_model"]
            )
        doc = {
            "property_id": self.property_id,
            "tier": self.tier,
            "seed": self.seed,
            "level": LEVEL,
            "coverage": cov,
            "assumptions": self.assumptions,
            "wall_s": round(time.time() - self.t0, 2),
            "violations": n_viol,
        }
        tmp = os.path.join(EVIDENCE_DIR, f".{self.property_id}.json.tmp")
        with open(tmp, "w") as fh:
            json.dump(_jsonable(doc), fh, indent=1)
        os.replace(tmp, os.path.join(EVIDENCE_DIR, f"{self.property_id}.json"))
