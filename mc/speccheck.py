"""Independent NumPy membership test of (batched) values against a jumanji spec tree.

Deliberately does not call `spec.validate` (whose correctness is C16): structure, shape, dtype and
inclusive bounds are re-checked here from the spec's public attributes.
"""
from __future__ import annotations

from typing import Any, Dict, List, Tuple

from mc import boot  # noqa: F401

import numpy as np


def children(spec: Any) -> Dict[str, Any]:
    from jumanji import specs

    return {k: v for k, v in vars(spec).items() if isinstance(v, specs.Spec) and not k.startswith("_")}


def fields(value: Any) -> Dict[str, Any] | None:
    if isinstance(value, tuple) and hasattr(value, "_asdict"):
        return dict(value._asdict())
    if isinstance(value, dict):
        return dict(value)
    if hasattr(value, "__dict__") and not isinstance(value, np.ndarray):
        return dict(vars(value))
    return None


def check(spec: Any, value: Any, batch_ndim: int, path: str = "") -> List[Tuple[str, str, np.ndarray | None, str]]:
    """Returns a list of problems (path, kind, bad_rows_mask_or_None, detail).

    `value` leaves carry `batch_ndim` leading batch dimensions."""
    from jumanji import specs

    out: List[Tuple[str, str, Any, str]] = []
    if not isinstance(spec, specs.Array):
        kids = children(spec)
        f = fields(value)
        if f is None:
            return [(path or "<root>", "structure", None, f"expected a container with fields {sorted(kids)}, got {type(value).__name__}")]
        if set(f) != set(kids):
            out.append((path or "<root>", "structure", None, f"fields {sorted(f)} != spec fields {sorted(kids)}"))
        for k, sub in kids.items():
            if k in f:
                out += check(sub, f[k], batch_ndim, f"{path}.{k}" if path else k)
        return out
    if fields(value) is not None and not isinstance(value, np.ndarray):
        return [(path, "structure", None, f"expected an array, got container {type(value).__name__}")]
    v = np.asarray(value)
    want_dt = np.dtype(spec.dtype)
    if v.dtype != want_dt:
        out.append((path, "dtype", None, f"dtype {v.dtype} != spec dtype {want_dt}"))
    if tuple(v.shape[batch_ndim:]) != tuple(spec.shape):
        out.append((path, "shape", None, f"shape {tuple(v.shape[batch_ndim:])} != spec shape {tuple(spec.shape)}"))
        return out
    if isinstance(spec, specs.BoundedArray):
        lo = np.broadcast_to(np.asarray(spec.minimum), spec.shape)
        hi = np.broadcast_to(np.asarray(spec.maximum), spec.shape)
        vv = v.astype(np.float64) if v.dtype.kind in "fiub" else v
        below = vv < lo.astype(np.float64)
        above = vv > hi.astype(np.float64)
        nan = np.isnan(vv) if v.dtype.kind == "f" else np.zeros_like(below)
        red = tuple(range(batch_ndim, v.ndim))
        for kind, m in (("below-minimum", below), ("above-maximum", above), ("nan", nan)):
            if m.any():
                rows = m.any(axis=red) if red else m
                bad = vv[m]
                out.append((path, kind, rows, f"{int(m.sum())} element(s), e.g. {bad.ravel()[0]} vs bounds "
                                              f"[{lo.min()}, {hi.max()}]"))
    return out
