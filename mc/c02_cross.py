"""C02, part (5): configurations of ONE environment class must not interfere inside a process.

"Calling on a fresh instance with the same configuration gives the same result" must not depend on which OTHER
configurations of the class were used earlier in the process: a module-level table, a class attribute or a
function cache filled by the first configuration (and keyed by something coarser than the configuration, e.g. the
number of cells instead of the board shape) changes what a later configuration computes.

For a family, its configurations C1..Cn (catalogue order) are driven one after the other in THIS process:
`jit(vmap(reset))` over the keys 0..3, then `jit(vmap(vmap(step)))` over every action (evenly spaced 64 beyond) for
two steps along the first-surviving action.  The same program is run for each Ci ALONE in a freshly spawned
interpreter (one subprocess per configuration); all outputs must agree leaf by leaf (ints exact, floats 1e-5).
Then the order is reversed (Cn..C1) in a second fresh interpreter and compared again, so that both "A before B" and
"B before A" are covered for every pair of neighbours and, transitively, every configuration is run after every
other one in one of the two orders.
Quick tier: the hand-picked pairs of `PAIRS` (transposed shapes, equal cell counts, neighbouring sizes); thorough
tier: all quick-tier tiny/awkward configurations of the family.
"""
from __future__ import annotations

import json
import os
import subprocess
import sys
import time
from typing import Any, Dict, List

from mc import boot  # noqa: F401

import numpy as np

PID = "C02"

# family -> configurations of the quick tier (catalogue names): shapes transposed / same number of cells / neighbours
PAIRS: Dict[str, List[str]] = {
    "snake": ["snake-2x5-T4", "snake-5x2-T3"],
    "tetris": ["tetris-4x7-T2", "tetris-8x4-T3"],
    "cleaner": ["cleaner-3x7x1-T7", "cleaner-5x3x2-T3"],
    "maze": ["maze-3x7-T7", "maze-6x2-none"],
    "minesweeper": ["mines-2x5-1", "mines-4x3-11"],
    "flat_pack": ["flatpack-1x3-block", "flatpack-2x1"],
    "game_2048": ["game2048-2x2", "game2048-3x3"],
    "sliding_tile_puzzle": ["slide-2-T6", "slide-3-T7"],
    "tsp": ["tsp-4-sparse", "tsp-5"],
    "knapsack": ["knapsack-4-tight", "knapsack-6"],
    "job_shop": ["jobshop-2311", "jobshop-2222"],
    "cvrp": ["cvrp-3-sparse-tight", "cvrp-4"],
    "graph_coloring": ["graphcol-3-dense", "graphcol-4"],
    "connector": ["connector-3x2-T3", "connector-4x2-T5"],
    "lbf": ["lbf-5-fov1-T2", "lbf-6x3x2-grid-T2"],
    "multi_cvrp": ["mcvrp-6x2", "mcvrp-6x3"],
    "mmst": ["mmst-12-T3", "mmst-9x3-T3"],
}


def _digest_program(names: List[str]) -> Dict[str, Any]:
    """Drive the configurations in the given order in THIS interpreter; -> {name: [leaf arrays as lists]}."""
    import jax
    import jax.numpy as jnp

    from mc import catalog
    from mc.engine import spaced_actions, to_np

    out: Dict[str, Any] = {}
    for name in names:
        env = catalog.BY_NAME[name].make()
        A, _ = spaced_actions(env.action_spec, 64)
        keys = jnp.stack([jax.random.PRNGKey(k) for k in range(4)])
        s, ts = jax.jit(jax.vmap(env.reset))(keys)
        leaves = [np.asarray(x) for x in jax.tree_util.tree_leaves(to_np((s, ts)))]
        step_all = jax.jit(jax.vmap(lambda st, AA: jax.vmap(lambda a: env.step(st, a))(AA), in_axes=(0, None)))
        for _ in range(2):
            s2, ts2 = step_all(s, jnp.asarray(A))
            leaves += [np.asarray(x) for x in jax.tree_util.tree_leaves(to_np((s2, ts2)))]
            alive = np.asarray(ts2.step_type) != 2  # [4, nA]
            pick = np.array([int(np.argmax(r)) if r.any() else 0 for r in alive])
            s = jax.tree_util.tree_map(lambda x: jnp.stack([x[i, pick[i]] for i in range(4)]), s2)
        out[name] = [dict(dtype=str(x.dtype), shape=list(x.shape), data=x.reshape(-1).tolist()) for x in leaves]
    return out


def _fresh(names: List[str]) -> Dict[str, Any]:
    """The same program in a freshly spawned interpreter."""
    code = ("import sys, json; sys.path[:0] = [%r, %r]; from mc import boot; from mc.c02_cross import _digest_program; "
            "print('@@' + json.dumps(_digest_program(%r)))" % (os.environ.get("VERIF_REPO", "/repo"), boot.VERIF, names))
    env = dict(os.environ, JAX_PLATFORMS="cpu", PYTHONHASHSEED="0")
    p = subprocess.run([sys.executable, "-c", code], capture_output=True, text=True, env=env, cwd=boot.VERIF)
    line = next((l for l in p.stdout.splitlines() if l.startswith("@@")), None)
    if line is None:
        raise RuntimeError(f"fresh interpreter failed for {names}: {p.stderr[-800:]}")
    return json.loads(line[2:])


def _diff(a: List[Dict[str, Any]], b: List[Dict[str, Any]]) -> List[str]:
    if len(a) != len(b):
        return [f"number of leaves {len(a)} vs {len(b)}"]
    out = []
    for i, (x, y) in enumerate(zip(a, b)):
        if x["dtype"] != y["dtype"] or x["shape"] != y["shape"]:
            out.append(f"leaf {i}: {x['dtype']}{x['shape']} vs {y['dtype']}{y['shape']}")
            continue
        xa, ya = np.asarray(x["data"]), np.asarray(y["data"])
        if "float" in x["dtype"]:
            ok = np.allclose(xa.astype(np.float64), ya.astype(np.float64), rtol=1e-5, atol=1e-6, equal_nan=True)
        else:
            ok = np.array_equal(xa, ya)
        if not ok:
            out.append(f"leaf {i} ({x['dtype']}{x['shape']}): values differ")
    return out


def check_family(family: str, names: List[str], tier: str, seed: int, model: str = "") -> Dict[str, Any]:
    from mc.report import Violation

    t0 = time.time()
    alone = {n: _fresh([n])[n] for n in names}
    here = _digest_program(names)  # C1..Cn in this (fresh, per-task) process
    rev = _fresh(list(reversed(names)))  # Cn..C1 in another fresh interpreter
    viol: List[Violation] = []
    n_cmp = 0
    for order, got in (("->".join(names), here), ("->".join(reversed(names)), rev)):
        for n in names:
            n_cmp += 1
            d = _diff(alone[n], got[n])
            if d:
                viol.append(Violation(PID, f"cross:{family}", f"{family}:result-depends-on-configurations-used-before",
                                      f"{n} driven in the order {order} differs from {n} alone in a fresh interpreter: {d[:4]}",
                                      {"kind": "cross", "family": family, "names": names, "failing": n, "order": order,
                                       "property": PID, "model": f"cross:{family}",
                                       "signature": f"{family}:result-depends-on-configurations-used-before"}))
                break
    return {"model": f"cross:{family}", "family": family, "kind": "cross-configuration", "configurations": names,
            "states": len(names), "transitions": n_cmp, "validated": 0, "exhaustive": True,
            "vacuity": {"n_cross_comparisons": n_cmp}, "violations": viol,
            "violation_counts": {v.signature: 1 for v in viol}, "total_s": round(time.time() - t0, 2),
            "samples": [{"model": f"cross:{family}", "what": "configurations driven one after the other in one process "
                         "vs each alone in a fresh interpreter", "order": names}]}


def replay_case(r: Dict[str, Any]) -> int:
    names = r["names"]
    order = names if r["order"] == "->".join(names) else list(reversed(names))
    got = _fresh(order)
    alone = _fresh([r["failing"]])
    d = _diff(alone[r["failing"]], got[r["failing"]])
    print(f"  {r['failing']} after {order}: " + ("identical to a fresh interpreter" if not d else f"DIFFERS {d[:4]}"))
    return 1 if d else 0
