"""C17 — small shared helpers (violation accumulator, padding, seed-rotated selection)."""
from __future__ import annotations

import collections
from typing import Any, Dict, List, Sequence

from mc import boot  # noqa: F401

import numpy as np

from mc.report import Violation

PID = "C17"
MAX_CASES_PER_SIGNATURE = 3


class Acc:
    """Collects violations (a few concrete cases per signature), vacuity counters and samples."""

    def __init__(self, model: str):
        self.model = model
        self.violations: List[Violation] = []
        self.n_by_sig: Dict[str, int] = collections.Counter()
        self.vac: Dict[str, int] = collections.Counter()
        self.samples: List[Any] = []
        self.states = 0
        self.transitions = 0
        self.validated = 0
        self.facts: Dict[str, Any] = {}

    def violation(self, sig: str, msg: str, replay: Dict[str, Any]) -> None:
        self.n_by_sig[sig] += 1
        if self.n_by_sig[sig] <= MAX_CASES_PER_SIGNATURE:
            rp = dict(replay)
            rp.update(signature=sig, property=PID, model=self.model)
            self.violations.append(Violation(PID, self.model, sig, msg, rp))

    def count(self, key: str, n: int = 1) -> None:
        self.vac[key] += int(n)

    def sample(self, s: Any, cap: int = 4) -> None:
        if len(self.samples) < cap:
            self.samples.append(s)

    def result(self, **extra: Any) -> Dict[str, Any]:
        out = dict(model=self.model, states=int(self.states), transitions=int(self.transitions),
                   validated=int(self.validated), samples=self.samples, violations=self.violations,
                   vacuity=dict(self.vac), violating_cases_by_signature=dict(self.n_by_sig))
        out.update(self.facts)
        out.update(extra)
        return out


def pad_rows(x: np.ndarray, size: int) -> np.ndarray:
    """Pad axis 0 to `size` by repeating the first row (results of padding rows are discarded)."""
    m = x.shape[0]
    if m == size:
        return x
    pad = np.broadcast_to(x[:1], (size - m,) + x.shape[1:])
    return np.concatenate([x, pad], axis=0)


def pick(seq: Sequence[Any], k: int, seed: int) -> List[Any]:
    """k elements of seq, evenly spread, rotated by the seed (only chooses what is re-validated eagerly)."""
    n = len(seq)
    if n == 0 or k <= 0:
        return []
    k = min(k, n)
    step = max(1, n // k)
    return [seq[(seed + j * step) % n] for j in range(k)]


def first_rows(mask: np.ndarray, cap: int = MAX_CASES_PER_SIGNATURE) -> List[tuple]:
    """Index tuples of the first `cap` True entries of a boolean array."""
    idx = np.argwhere(mask)
    return [tuple(int(v) for v in ix) for ix in idx[:cap]]
