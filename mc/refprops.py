"""Shared main() for the reference-model properties C04-C09, C12."""
from __future__ import annotations

from typing import Any, Dict, List, Optional, Sequence

from mc import boot  # noqa: F401

from mc import catalog, refmon
from mc.graphprops import run_property
from mc.checks import horizon

SPEC: Dict[str, Dict[str, Any]] = {
    "C04": dict(monitor="MaskMonitor", needs=("legal",), legal_only=False,
                families=[f for f in catalog.FAMILIES if f not in ("rubiks_cube", "sokoban")],
                require=["mask_states", "states_with_illegal_action", "states_with_legal_action"]),
    "C05": dict(monitor="IllegalMonitor", needs=("action_legal", "check_illegal"), legal_only=False,
                families=["tsp", "cvrp", "knapsack", "bin_pack", "job_shop", "graph_coloring", "sudoku", "minesweeper",
                          "snake", "tetris", "cleaner", "maze", "pac_man", "sokoban", "sliding_tile_puzzle",
                          "game_2048", "flat_pack", "connector", "robot_warehouse", "lbf"],
                require=["illegal_edges", "legal_edges"]),
    "C06": dict(monitor="ConstraintMonitor", needs=("check_constraints",), legal_only=True,
                families=["bin_pack", "flat_pack", "knapsack", "cvrp", "multi_cvrp", "tsp", "job_shop",
                          "graph_coloring", "sudoku", "connector", "mmst"],
                require=["legal_play_edges", "legal_play_terminal_edges"]),
    "C07": dict(monitor="InvariantMonitor", needs=("check_invariants",), legal_only=False,
                families=["maze", "cleaner", "pac_man", "sokoban", "snake", "tetris", "game_2048", "minesweeper",
                          "connector", "lbf", "robot_warehouse"],
                require=["invariant_states", "conservation_edges"]),
    "C08": dict(monitor="ReturnMonitor", needs=("objective",), legal_only=True,
                families=["tsp", "cvrp", "knapsack", "bin_pack", "flat_pack", "job_shop", "graph_coloring",
                          "game_2048", "snake", "cleaner", "minesweeper", "sliding_tile_puzzle", "lbf", "multi_cvrp"],
                require=["returns_checked"]),
    "C09": dict(monitor="StepMonitor", needs=("check_step",), legal_only=False,
                families=["game_2048", "minesweeper", "sudoku", "sliding_tile_puzzle", "tetris", "snake", "sokoban",
                          "maze", "cleaner", "connector", "lbf", "knapsack", "tsp", "cvrp", "job_shop",
                          "graph_coloring", "flat_pack", "bin_pack"],
                require=["steps_compared", "terminal_steps_compared"]),
    "C12": dict(monitor="ObsMonitor", needs=("check_obs",), legal_only=False, families=list(catalog.FAMILIES),
                require=["observations_compared", "terminal_observations_compared"]),
}


def covered(pid: str, family: str) -> bool:
    ref = refmon.load_ref(family)
    if pid == "C08":
        return refmon.has(ref, "objective") or refmon.has(ref, "potential")
    return all(refmon.has(ref, fn) for fn in SPEC[pid]["needs"])


def plan(pid: str, cfg: catalog.Cfg, env: Any, tier: str) -> Optional[Dict[str, Any]]:
    sp = SPEC[pid]
    if cfg.family not in sp["families"] or not covered(pid, cfg.family):
        return None
    ref = refmon.load_ref(cfg.family)
    if hasattr(ref, "applies") and not ref.applies(pid, cfg, env):
        return None
    mon = getattr(refmon, sp["monitor"])(cfg, env, ref)
    out: Dict[str, Any] = dict(monitors=[mon])
    if tier == "quick":
        out["max_states"] = min(cfg.max_states(tier), cfg.ref_states_quick)
        out["time_budget_s"] = 75.0
    else:
        out["max_states"] = min(cfg.max_states(tier), 60000)
        out["time_budget_s"] = 600.0
    if sp["legal_only"]:
        out["enabled_fn"] = refmon.legal_only_enabled_fn(ref, env)
        if tier == "quick" and cfg.keys_legal_quick and not cfg.n_instances:
            out["keys"] = list(range(cfg.keys_legal_quick))  # mask-respecting graphs are small: a wider key window
    return out


def main(pid: str, tier: str, seed: int, assumptions: Sequence[str] = (), use_horizon: bool = False) -> int:
    sp = SPEC[pid]
    import os

    only = os.environ.get("VERIF_FAMILIES")
    wanted = [f for f in sp["families"] if not only or f in only.split(",")]
    fams = [f for f in wanted if covered(pid, f)]
    missing = [f for f in wanted if f not in fams]
    cfgs = [c for c in catalog.select(tier) if c.family in fams]
    extra = []
    if use_horizon:
        extra = [t for t in horizon.tasks(pid, tier, seed) if catalog.BY_NAME[t[2]["cfg_name"]].family in fams]
    from mc.checks import modeb

    extra += modeb.tasks(pid, tier, seed, families=fams)
    if pid in ("C04", "C05", "C07", "C09", "C12"):
        from mc.checks import scenarios

        extra += scenarios.tasks(pid, tier, seed, families=fams)
    rep = run_property(pid, tier, seed, cfgs, assumptions=list(assumptions) + [
        "default-size configurations additionally in mode B: every schedule within 1 deviation (any action) of the "
        "first-masked-in-action base schedule, run to termination or to the listed cap (models <cfg>@modeB)",
        "reset keys limited to the per-configuration window PRNGKey(0..K-1); tiny configurations explored to "
        "closure or to the listed state cap, default-size ones to the listed depth",
        "the reference model is an independent NumPy statement of the documented rules (mc/ref/<family>.py)",
    ], require=([] if only else sp["require"]), extra_tasks=extra)
    rep.coverage["families_covered"] = fams
    rep.coverage["families_without_reference"] = missing
    if missing:
        rep.errors.append(f"no reference model for: {missing}")
    return rep.finish()
