"""C17 — SlidingTilePuzzle worker tasks (entire 2×2 / 3×3 spaces, bounded BFS on 4×4 / 5×5, resets).

Reference (docs/environments/sliding_tile_puzzle.md): the board holds 0..n²−1, 0 is the empty
tile; action 0/1/2/3 moves the EMPTY tile up/right/down/left, i.e. swaps it with the neighbour in
that direction when that neighbour exists and leaves the board unchanged otherwise; the goal is
1..n²−1 in reading order with the empty tile last; SparseRewardFn = 1 iff the new board is the
goal; DenseRewardFn = (#cells newly equal to the goal) − (#cells newly different), i.e. the change
of the number of cells that agree with the goal (the empty cell counts like any other cell —
decision recorded in DESIGN Appendix C); the episode ends when the goal is reached (the step
counter is re-injected as 0 at every layer so the time limit never fires).
"""
from __future__ import annotations

import math
import time
from typing import Any, Dict, List, Sequence, Tuple

from mc import boot  # noqa: F401

import numpy as np

from mc.c17_common import Acc, first_rows, pad_rows, pick

FAM = "sliding_tile_puzzle"
DELTAS = np.array([(-1, 0), (0, 1), (1, 0), (0, -1)])  # up, right, down, left (row, col) of the EMPTY tile
OPPOSITE = np.array([2, 3, 0, 1])
ACTION_NAMES = ("up", "right", "down", "left")


# ---------------------------------------------------------------------------------------------
# reference
# ---------------------------------------------------------------------------------------------
def goal_board(n: int) -> np.ndarray:
    return np.concatenate([np.arange(1, n * n), [0]]).reshape(n, n).astype(np.int32)


def blank_of(boards: np.ndarray) -> np.ndarray:
    """[..., n, n] -> [..., 2] (row, col) of the first 0."""
    n = boards.shape[-1]
    flat = boards.reshape(boards.shape[:-2] + (n * n,))
    idx = np.argmax(flat == 0, axis=-1)
    return np.stack([idx // n, idx % n], axis=-1)


def ref_children(boards: np.ndarray) -> Tuple[np.ndarray, np.ndarray]:
    """boards [m, n, n] -> (children [m, 4, n, n], legal [m, 4])."""
    m, n = boards.shape[0], boards.shape[-1]
    b = blank_of(boards)  # [m, 2]
    tgt = b[:, None, :] + DELTAS[None, :, :]  # [m, 4, 2]
    legal = ((tgt >= 0) & (tgt < n)).all(axis=-1)
    t = np.clip(tgt, 0, n - 1)
    child = np.repeat(boards[:, None], 4, axis=1).copy()
    mi, ai = np.nonzero(legal)
    child[mi, ai, b[mi, 0], b[mi, 1]] = boards[mi, t[mi, ai, 0], t[mi, ai, 1]]
    child[mi, ai, t[mi, ai, 0], t[mi, ai, 1]] = 0
    return child, legal


def encode(boards: np.ndarray) -> np.ndarray:
    """Injective int64 code of boards with n ≤ 3 (base n² digits)."""
    n = boards.shape[-1]
    assert n <= 3
    w = (n * n) ** np.arange(n * n, dtype=np.int64)
    return boards.reshape(boards.shape[:-2] + (n * n,)).astype(np.int64) @ w


def ref_reachable(n: int, max_depth: int = 10 ** 9) -> Tuple[np.ndarray, np.ndarray]:
    """Reference BFS from the goal: (boards [N, n, n], dist [N]) (row bytes used as identity)."""
    start = goal_board(n)
    seen = {start.tobytes(): 0}
    boards, dist = [start], [0]
    frontier = start[None]
    d = 0
    while len(frontier) and d < max_depth:
        d += 1
        ch, legal = ref_children(frontier)
        rows = ch[legal]
        if n <= 3:
            _, first = np.unique(encode(rows), return_index=True)
            rows = rows[np.sort(first)]
        new = []
        for r in rows:
            k = r.tobytes()
            if k not in seen:
                seen[k] = d
                new.append(r)
        boards += new
        dist += [d] * len(new)
        frontier = np.stack(new) if new else np.zeros((0, n, n), np.int32)
    return np.stack(boards), np.asarray(dist)


def solvable(board: np.ndarray) -> bool:
    """Classical criterion: the board (as a permutation of the n² cells including the blank) has
    the same parity as the taxicab distance of the blank from its goal cell."""
    n = board.shape[-1]
    flat = board.reshape(-1).astype(int)
    if sorted(flat.tolist()) != list(range(n * n)):
        return False
    # permutation: cell i holds the piece whose goal cell is g
    goal_cell = [(v - 1) % (n * n) for v in flat]  # tile v lives at v-1, blank (0) at n²-1
    seen, parity = [False] * (n * n), 0
    for i in range(n * n):
        if not seen[i]:
            j, ln = i, 0
            while not seen[j]:
                seen[j] = True
                j = goal_cell[j]
                ln += 1
            parity ^= (ln - 1) & 1
    r, c = divmod(int(np.argmax(flat == 0)), n)
    return parity == ((n - 1 - r) + (n - 1 - c)) % 2


def n_correct(boards: np.ndarray) -> np.ndarray:
    n = boards.shape[-1]
    return (boards == goal_board(n)).reshape(boards.shape[:-2] + (-1,)).sum(axis=-1)


# ---------------------------------------------------------------------------------------------
# plumbing
# ---------------------------------------------------------------------------------------------
def make_env(n: int, reward: str = "dense", k: int = 100, time_limit: int = 500) -> Any:
    from jumanji.environments.logic.sliding_tile_puzzle.env import SlidingTilePuzzle
    from jumanji.environments.logic.sliding_tile_puzzle.generator import RandomWalkGenerator
    from jumanji.environments.logic.sliding_tile_puzzle.reward import DenseRewardFn, SparseRewardFn

    rf = {"dense": DenseRewardFn, "sparse": SparseRewardFn}[reward]()
    return SlidingTilePuzzle(generator=RandomWalkGenerator(grid_size=n, num_random_moves=k), reward_fn=rf,
                             time_limit=time_limit)


def make_states(boards: np.ndarray) -> Any:
    import jax.numpy as jnp
    from jumanji.environments.logic.sliding_tile_puzzle.types import State

    m = boards.shape[0]
    return State(puzzle=jnp.asarray(boards.astype(np.int32)),
                 empty_tile_position=jnp.asarray(blank_of(boards).astype(np.int32)),
                 key=jnp.zeros((m, 2), jnp.uint32), step_count=jnp.zeros((m,), jnp.int32))


def one_state(board: np.ndarray) -> Any:
    import jax.numpy as jnp
    from jumanji.environments.logic.sliding_tile_puzzle.types import State

    return State(puzzle=jnp.asarray(board.astype(np.int32)),
                 empty_tile_position=jnp.asarray(blank_of(board).astype(np.int32)),
                 key=jnp.zeros((2,), jnp.uint32), step_count=jnp.zeros((), jnp.int32))


class EdgeChecker:
    """Compares a batch of real `env.step` results for all 4 actions with the reference."""

    def __init__(self, acc: Acc, n: int, reward: str):
        self.acc, self.n, self.reward = acc, n, reward
        self.goal = goal_board(n)

    def rp(self, board: np.ndarray, a: int) -> Dict[str, Any]:
        return dict(kind="slide_edge", n=self.n, reward=self.reward, board=board.tolist(), action=int(a))

    def check(self, par: np.ndarray, s2: Any, ts2: Any, where: str) -> Tuple[np.ndarray, np.ndarray]:
        """par [m,n,n]; s2/ts2 numpy trees with leading [m,4]. Returns (child boards, legal)."""
        acc, n = self.acc, self.n
        child = np.asarray(s2.puzzle)
        empty = np.asarray(s2.empty_tile_position)
        want, legal = ref_children(par)
        bad = (child != want).reshape(child.shape[0], 4, -1).any(axis=2)
        for i, a in first_rows(bad & legal):
            acc.violation(f"{FAM}:env.step:legal-move-is-not-the-swap-with-the-neighbour",
                          f"{where}: action {a} ({ACTION_NAMES[a]}) on {par[i].tolist()} gives {child[i, a].tolist()}, "
                          f"expected {want[i, a].tolist()}", self.rp(par[i], a))
        for i, a in first_rows(bad & ~legal):
            acc.violation(f"{FAM}:env.step:out-of-bounds-move-changes-the-board",
                          f"{where}: action {a} ({ACTION_NAMES[a]}) on {par[i].tolist()} (empty tile at the edge) gives "
                          f"{child[i, a].tolist()}", self.rp(par[i], a))
        srt = np.sort(child.reshape(child.shape[0], 4, -1), axis=2)
        for i, a in first_rows((srt != np.arange(n * n)).any(axis=2)):
            acc.violation(f"{FAM}:env.step:tile-multiset-not-conserved",
                          f"{where}: action {a} on {par[i].tolist()} gives {child[i, a].tolist()}", self.rp(par[i], a))
        zero_at = np.take_along_axis(
            child.reshape(child.shape[0], 4, -1), (empty[..., 0] * n + empty[..., 1])[..., None].clip(0, n * n - 1), axis=2
        )[..., 0]
        in_range = ((empty >= 0) & (empty < n)).all(axis=-1)
        for i, a in first_rows(~in_range | (zero_at != 0)):
            acc.violation(f"{FAM}:env.step:empty_tile_position-disagrees-with-board",
                          f"{where}: action {a} on {par[i].tolist()}: empty_tile_position {empty[i, a].tolist()} but board "
                          f"{child[i, a].tolist()}", self.rp(par[i], a))
        solved = (want == self.goal).reshape(want.shape[0], 4, -1).all(axis=2)
        st, rw, dc = np.asarray(ts2.step_type), np.asarray(ts2.reward), np.asarray(ts2.discount)
        bad_done = (st != np.where(solved, 2, 1)) | ~np.isclose(dc, np.where(solved, 0.0, 1.0))
        for i, a in first_rows(bad_done):
            acc.violation(f"{FAM}:done:not-iff-goal-board",
                          f"{where}: action {a} on {par[i].tolist()}: step_type {st[i, a]} discount {dc[i, a]} but "
                          f"goal reached = {bool(solved[i, a])}", self.rp(par[i], a))
        if self.reward == "sparse":
            exp = solved.astype(np.float64)
            sig = f"{FAM}:SparseRewardFn:not-1-iff-goal-board"
        else:
            exp = (n_correct(want) - n_correct(par)[:, None]).astype(np.float64)
            sig = f"{FAM}:DenseRewardFn:not-change-in-correct-cells"
        for i, a in first_rows(~np.isclose(rw, exp, rtol=1e-5, atol=1e-6)):
            acc.violation(sig, f"{where}: action {a} on {par[i].tolist()}: reward {rw[i, a]}, expected {exp[i, a]}",
                          self.rp(par[i], a))
        op, oe = np.asarray(ts2.observation.puzzle), np.asarray(ts2.observation.empty_tile_position)
        if not (np.array_equal(op, child) and np.array_equal(oe, empty)):
            i, a = first_rows((op != child).reshape(child.shape[0], 4, -1).any(axis=2) | (oe != empty).any(axis=2))[0]
            acc.violation(f"{FAM}:observation:differs-from-state", f"{where}: action {a} on {par[i].tolist()}",
                          self.rp(par[i], a))
        acc.count("legal_slides_seen", int(legal.sum()))
        acc.count("illegal_slides_seen", int((~legal).sum()))
        acc.count("slide_solved_states_seen", int(solved.sum()))
        acc.count("slide_unsolved_states_seen", int((~solved).sum()))
        acc.transitions += int(legal.size)
        return child, legal


def eager_validate(acc: Acc, env: Any, chk: EdgeChecker, cases: Sequence[Any]) -> None:
    """Re-execute explored edges through the plain un-jitted env.step and compare with the batch."""
    import jax.numpy as jnp

    for b, a, child, reward, step_type in cases:
        s, ts = env.step(one_state(b), jnp.asarray(a, jnp.int32))
        if not (np.array_equal(np.asarray(s.puzzle), child) and np.isclose(float(ts.reward), reward)
                and int(ts.step_type) == step_type):
            acc.violation(f"{FAM}:env.step:eager-differs-from-jit-vmap",
                          f"action {a} on {b.tolist()}: eager {np.asarray(s.puzzle).tolist()} r={float(ts.reward)} "
                          f"vs batched {child.tolist()} r={reward}", chk.rp(b, a))
        acc.validated += 1


def _np_tree(tree: Any, m: int) -> Any:
    import jax

    return jax.tree_util.tree_map(lambda x: np.asarray(x)[:m], tree)


# ---------------------------------------------------------------------------------------------
# (e1) the ENTIRE reachable space of the 2×2 and 3×3 puzzles
# ---------------------------------------------------------------------------------------------
def full_space(n: int, reward: str, tier: str, seed: int) -> Dict[str, Any]:
    import jax
    import jax.numpy as jnp

    assert n <= 3
    t0 = time.time()
    acc = Acc(f"slide-full-{n}x{n}-{reward}")
    env = make_env(n, reward)
    chk = EdgeChecker(acc, n, reward)
    step_all = jax.jit(jax.vmap(jax.vmap(env.step, in_axes=(None, 0)), in_axes=(0, None)))
    actions = jnp.arange(4, dtype=jnp.int32)
    CH = 16 if n == 2 else 4096
    goal = goal_board(n)
    solved_impl = np.asarray(env.solved_puzzle)
    if not np.array_equal(solved_impl, goal):
        acc.violation(f"{FAM}:make_solved_puzzle:not-the-documented-goal", f"{solved_impl.tolist()}",
                      dict(kind="slide_goal", n=n))
    visited = encode(goal[None])  # sorted codes of all discovered boards
    frontier = goal[None]
    all_boards, all_child_codes = [], []
    layer_sizes = [1]
    eager_pool: List[Any] = []
    while len(frontier):
        new_codes, new_boards = [], []
        for lo in range(0, len(frontier), CH):
            par = frontier[lo:lo + CH]
            m = len(par)
            s2, ts2 = step_all(make_states(pad_rows(par, CH)), actions)
            s2, ts2 = _np_tree(s2, m), _np_tree(ts2, m)
            child, legal = chk.check(par, s2, ts2, f"{n}x{n} depth {len(layer_sizes) - 1}")
            if not ((np.asarray(s2.step_count) == 1).all()):
                acc.violation(f"{FAM}:env.step:step-count-not-incremented", "step_count != 1 after one step",
                              chk.rp(par[0], 0))
            codes = encode(child)  # [m, 4]
            all_boards.append(par)
            all_child_codes.append(codes)
            flat_codes = codes.reshape(-1)
            fresh = ~np.isin(flat_codes, visited)
            new_codes.append(flat_codes[fresh])
            new_boards.append(child.reshape(-1, n, n)[fresh])
            if len(eager_pool) < 256:
                eager_pool += [(par[i], a, child[i, a], float(np.asarray(ts2.reward)[i, a]),
                                int(np.asarray(ts2.step_type)[i, a])) for i in range(0, m, max(1, m // 3)) for a in range(4)]
        nc = np.concatenate(new_codes)
        nb = np.concatenate(new_boards)
        uc, first = np.unique(nc, return_index=True)
        frontier = nb[first]
        visited = np.union1d(visited, uc)
        if len(frontier):
            layer_sizes.append(len(frontier))
    boards = np.concatenate(all_boards)
    codes = encode(boards)
    child_codes = np.concatenate(all_child_codes)
    N = len(boards)
    acc.states += N
    order = np.argsort(codes)
    sorted_codes = codes[order]
    expected_N = math.factorial(n * n) // 2
    closed = len(np.unique(codes)) == N and np.isin(child_codes.reshape(-1), sorted_codes).all()
    if N != expected_N or not closed:
        acc.violation(f"{FAM}:env.step:reachable-space-is-not-half-of-all-boards",
                      f"{n}x{n}: {N} boards reachable from the goal by real steps, expected (n²)!/2 = {expected_N}; "
                      f"closed = {bool(closed)}", dict(kind="slide_space", n=n, reward=reward))
    else:
        # opposite moves cancel, measured on the implementation's own successor table
        succ = order[np.searchsorted(sorted_codes, child_codes)]  # [N, 4] state indices
        idx = np.arange(N)
        for a in range(4):
            moved = succ[:, a] != idx
            back = succ[succ[:, a], OPPOSITE[a]]
            bad = moved & (back != idx)
            for (i,) in first_rows(bad):
                acc.violation(f"{FAM}:env.step:opposite-moves-do-not-cancel",
                              f"{n}x{n}: {ACTION_NAMES[a]} then {ACTION_NAMES[OPPOSITE[a]]} from {boards[i].tolist()} "
                              f"does not return to it", dict(kind="slide_cancel", n=n, reward=reward,
                                                              board=boards[i].tolist(), action=a))
            acc.count("opposite_pairs_checked", int(moved.sum()))
        # every enumerated board satisfies the solvability criterion and the set equals the reference set
        ref_b, _ = ref_reachable(n)
        if not np.array_equal(np.sort(encode(ref_b)), sorted_codes):
            acc.violation(f"{FAM}:env.step:reachable-space-differs-from-reference", f"{n}x{n}",
                          dict(kind="slide_space", n=n, reward=reward))
        n_par = sum(1 for b in boards[:: max(1, N // 2000)] if not solvable(b))
        if n_par:
            acc.violation(f"{FAM}:env.step:reachable-board-fails-parity-criterion", f"{n_par} boards",
                          dict(kind="slide_space", n=n, reward=reward))
    # eager validation
    eager_validate(acc, env, chk, pick(eager_pool, 6 if tier == "quick" else 20, seed))
    acc.sample(dict(case="slide-full-space", n=n, reward=reward, layer_sizes=layer_sizes[:8] + ["..."] + layer_sizes[-3:],
                    diameter=len(layer_sizes) - 1))
    return acc.result(closed=bool(closed), exhaustive=True, grid_size=n, reward_fn=reward, boards=N,
                      diameter=len(layer_sizes) - 1, wall_s=round(time.time() - t0, 2))


# ---------------------------------------------------------------------------------------------
# (e2) bounded BFS on larger boards (from the goal and from reset states) + crafted near-goal boards
# ---------------------------------------------------------------------------------------------
def near_goal_boards(n: int) -> np.ndarray:
    """The goal with every pair of cells exchanged (never the goal itself)."""
    g = goal_board(n).reshape(-1)
    out = []
    for i in range(n * n):
        for j in range(i + 1, n * n):
            t = g.copy()
            t[[i, j]] = g[[j, i]]
            out.append(t.reshape(n, n))
    return np.stack(out)


def bounded(n: int, reward: str, depth: int, n_roots: int, tier: str, seed: int) -> Dict[str, Any]:
    import jax
    import jax.numpy as jnp

    t0 = time.time()
    acc = Acc(f"slide-bfs-{n}x{n}-{reward}-depth{depth}")
    env = make_env(n, reward, k=100)
    chk = EdgeChecker(acc, n, reward)
    step_all = jax.jit(jax.vmap(jax.vmap(env.step, in_axes=(None, 0)), in_axes=(0, None)))
    step_each = jax.jit(jax.vmap(env.step))
    actions = jnp.arange(4, dtype=jnp.int32)
    CH = 2048
    keys = jnp.stack([jax.random.PRNGKey(i) for i in range(n_roots)])
    st, _ = jax.jit(jax.vmap(env.reset))(keys)
    roots = np.concatenate([goal_board(n)[None], np.asarray(st.puzzle)])
    # crafted near-goal boards are produced as children: their parents (one reference move away) join the roots
    ng = near_goal_boards(n)
    ng_par, ng_legal = ref_children(ng)
    roots = np.concatenate([roots, ng_par[ng_legal]])
    acc.count("crafted_near_goal_boards", len(ng))
    seen = set()
    frontier_l = []
    for r in roots:
        if r.tobytes() not in seen:
            seen.add(r.tobytes())
            frontier_l.append(r)
    frontier = np.stack(frontier_l)
    n_roots_distinct = len(frontier)
    layer_sizes = [len(frontier)]
    eager_pool: List[Any] = []
    for d in range(depth):
        new = []
        for lo in range(0, len(frontier), CH):
            par = frontier[lo:lo + CH]
            m = len(par)
            s2, ts2 = step_all(make_states(pad_rows(par, CH)), actions)
            s2n, ts2n = _np_tree(s2, m), _np_tree(ts2, m)
            child, legal = chk.check(par, s2n, ts2n, f"{n}x{n} depth {d}")
            # opposite moves cancel: a second real step from the child board (step counter re-injected)
            flat = child.reshape(-1, n, n)
            B = CH * 4
            back_s, _ = step_each(make_states(pad_rows(flat, B)), jnp.asarray(np.tile(OPPOSITE, CH).astype(np.int32)))
            back = np.asarray(back_s.puzzle)[: m * 4].reshape(m, 4, n, n)
            acc.transitions += m * 4
            bad = legal & (back != par[:, None]).reshape(m, 4, -1).any(axis=2)
            for i, a in first_rows(bad):
                acc.violation(f"{FAM}:env.step:opposite-moves-do-not-cancel",
                              f"{n}x{n}: {ACTION_NAMES[a]} then {ACTION_NAMES[OPPOSITE[a]]} from {par[i].tolist()} gives "
                              f"{back[i, a].tolist()}", dict(kind="slide_cancel", n=n, reward=reward,
                                                            board=par[i].tolist(), action=int(a)))
            acc.count("opposite_pairs_checked", int(legal.sum()))
            if len(eager_pool) < 128:
                eager_pool += [(par[i], a, child[i, a], float(np.asarray(ts2n.reward)[i, a]),
                                int(np.asarray(ts2n.step_type)[i, a])) for i in range(0, m, max(1, m // 3)) for a in range(4)]
            for row in flat:
                k = row.tobytes()
                if k not in seen:
                    seen.add(k)
                    new.append(row)
        if not new:
            break
        frontier = np.stack(new)
        layer_sizes.append(len(frontier))
    acc.states += len(seen)
    eager_validate(acc, env, chk, pick(eager_pool, 4 if tier == "quick" else 12, seed))
    acc.sample(dict(case="slide-bounded-bfs", n=n, reward=reward, roots=n_roots_distinct, layer_sizes=layer_sizes))
    return acc.result(closed=False, exhaustive=True, grid_size=n, reward_fn=reward, bfs_depth=depth,
                      roots=n_roots_distinct, layer_sizes=layer_sizes, cap="depth",
                      wall_s=round(time.time() - t0, 2))


# ---------------------------------------------------------------------------------------------
# (e3) reset states
# ---------------------------------------------------------------------------------------------
def resets(n: int, ks: Sequence[int], n_keys: int, tier: str, seed: int) -> Dict[str, Any]:
    import jax
    import jax.numpy as jnp

    t0 = time.time()
    acc = Acc(f"slide-reset-{n}x{n}")
    keys = jnp.stack([jax.random.PRNGKey(i) for i in range(n_keys)])
    full: set = set()
    if n <= 3:
        fb, _ = ref_reachable(n)
        full = {b.tobytes() for b in fb}
        acc.facts["reference_reachable_boards"] = len(full)
    small_k = max([k for k in ks if k <= 8], default=0)
    bb, bd = ref_reachable(n, max_depth=small_k)
    ball = {b.tobytes(): int(d) for b, d in zip(bb, bd)}
    # the criterion must reject unsolvable boards (non-vacuity of the oracle): two tiles exchanged
    for b in near_goal_boards(n):
        if b[n - 1, n - 1] == 0:
            assert not solvable(b), b
            acc.count("unsolvable_crafted_rejected")
    assert solvable(goal_board(n))
    distinct = set()
    for k in ks:
        env = make_env(n, "dense", k)
        st, ts = jax.jit(jax.vmap(env.reset))(keys)
        boards, empty = np.asarray(st.puzzle), np.asarray(st.empty_tile_position)
        acc.transitions += n_keys * k
        if boards.shape != (n_keys, n, n) or not ((np.asarray(st.step_count) == 0).all()
                                                   and (np.asarray(ts.step_type) == 0).all()):
            acc.violation(f"{FAM}:reset:not-a-fresh-episode", f"shape {boards.shape}",
                          dict(kind="slide_reset", n=n, k=int(k), key=0))
        for i in range(n_keys):
            rp = dict(kind="slide_reset", n=n, k=int(k), key=i)
            for sig, msg in reset_faults(boards[i], empty[i], k, full, ball, small_k):
                acc.violation(sig, f"{n}x{n} num_random_moves={k} PRNGKey({i}): {msg}", rp)
            distinct.add(boards[i].tobytes())
            acc.count("slide_reset_states_checked")
            if full:
                acc.count("slide_reset_states_in_enumerated_space")
            if k <= small_k:
                acc.count("slide_reset_states_in_bfs_ball")
        for i in pick(range(n_keys), 2 if tier == "quick" else 4, seed):
            s, _ = env.reset(jax.random.PRNGKey(i))
            if not (np.array_equal(np.asarray(s.puzzle), boards[i])
                    and np.array_equal(np.asarray(s.empty_tile_position), empty[i])):
                acc.violation(f"{FAM}:reset:eager-differs-from-jit-vmap", f"n={n} k={k} key {i}",
                              dict(kind="slide_reset", n=n, k=int(k), key=i))
            acc.validated += 1
        if k == max(ks):
            acc.sample(dict(case="slide-reset", n=n, num_random_moves=int(k), key=0, board=boards[0].tolist(),
                            empty_tile_position=empty[0].tolist()))
    acc.states += len(distinct)
    acc.count("slide_distinct_reset_states", len(distinct))
    return acc.result(exhaustive=True, grid_size=n, num_random_moves=list(map(int, ks)), keys=n_keys,
                      wall_s=round(time.time() - t0, 2))


def reset_faults(board: np.ndarray, empty: np.ndarray, k: int, full: set, ball: Dict[bytes, int],
                 ball_radius: int) -> List[Tuple[str, str]]:
    """Faults of one reset state: (signature, message).  `full` = the whole reachable space (n ≤ 3),
    `ball` = reference BFS distances from the goal up to `ball_radius`."""
    n = board.shape[-1]
    out: List[Tuple[str, str]] = []
    if sorted(board.reshape(-1).tolist()) != list(range(n * n)):
        out.append((f"{FAM}:reset:board-is-not-a-permutation-of-the-tiles", f"board {board.tolist()}"))
        return out
    if not (0 <= empty[0] < n and 0 <= empty[1] < n) or board[empty[0], empty[1]] != 0:
        out.append((f"{FAM}:reset:empty_tile_position-disagrees-with-board",
                    f"empty_tile_position {empty.tolist()} but board {board.tolist()}"))
    if not solvable(board):
        out.append((f"{FAM}:reset:board-not-solvable", f"board {board.tolist()} fails the parity criterion"))
    if full and board.astype(np.int32).tobytes() not in full:
        out.append((f"{FAM}:reset:board-not-solvable", f"board {board.tolist()} is not in the enumerated reachable space"))
    if k <= ball_radius:
        d = ball.get(board.astype(np.int32).tobytes())
        if d is None or d > k or (k - d) % 2:
            out.append((f"{FAM}:reset:board-not-num_random_moves-valid-moves-from-goal",
                        f"board {board.tolist()} is at distance {d} from the goal"))
    return list(dict.fromkeys(out))


# ---------------------------------------------------------------------------------------------
# replay of single cases with the plain, un-jitted API
# ---------------------------------------------------------------------------------------------
def replay_case(rp: Dict[str, Any], env: Any = None) -> List[str]:
    import jax
    import jax.numpy as jnp

    kind, n = rp["kind"], int(rp["n"])
    fails: List[str] = []
    if kind == "slide_edge":
        reward = rp["reward"]
        env = env or make_env(n, reward)
        par = np.asarray(rp["board"], np.int32)
        a = int(rp["action"])
        s, ts = env.step(one_state(par), jnp.asarray(a, jnp.int32))
        want, legal = ref_children(par[None])
        child = np.asarray(s.puzzle)
        empty = np.asarray(s.empty_tile_position)
        if not np.array_equal(child, want[0, a]):
            fails.append(f"{FAM}:env.step:legal-move-is-not-the-swap-with-the-neighbour" if legal[0, a]
                         else f"{FAM}:env.step:out-of-bounds-move-changes-the-board")
        if sorted(child.reshape(-1).tolist()) != list(range(n * n)):
            fails.append(f"{FAM}:env.step:tile-multiset-not-conserved")
        if not ((empty >= 0) & (empty < n)).all() or child[tuple(empty.clip(0, n - 1))] != 0:
            fails.append(f"{FAM}:env.step:empty_tile_position-disagrees-with-board")
        solved = bool(np.array_equal(want[0, a], goal_board(n)))
        if (int(ts.step_type) == 2) != solved or not np.isclose(float(ts.discount), 0.0 if solved else 1.0):
            fails.append(f"{FAM}:done:not-iff-goal-board")
        if reward == "sparse":
            if not np.isclose(float(ts.reward), float(solved)):
                fails.append(f"{FAM}:SparseRewardFn:not-1-iff-goal-board")
        elif not np.isclose(float(ts.reward), float(n_correct(want[0, a]) - n_correct(par))):
            fails.append(f"{FAM}:DenseRewardFn:not-change-in-correct-cells")
        if not (np.array_equal(np.asarray(ts.observation.puzzle), child)
                and np.array_equal(np.asarray(ts.observation.empty_tile_position), empty)):
            fails.append(f"{FAM}:observation:differs-from-state")
        if int(s.step_count) != 1:
            fails.append(f"{FAM}:env.step:step-count-not-incremented")
    elif kind == "slide_cancel":
        env = env or make_env(n, rp.get("reward", "dense"))
        par = np.asarray(rp["board"], np.int32)
        a = int(rp["action"])
        s, _ = env.step(one_state(par), jnp.asarray(a, jnp.int32))
        s = s.replace(step_count=jnp.zeros((), jnp.int32))
        moved = not np.array_equal(np.asarray(s.puzzle), par)
        s, _ = env.step(s, jnp.asarray(int(OPPOSITE[a]), jnp.int32))
        if moved and not np.array_equal(np.asarray(s.puzzle), par):
            fails.append(f"{FAM}:env.step:opposite-moves-do-not-cancel")
    elif kind == "slide_reset":
        k, i = int(rp["k"]), int(rp["key"])
        s, ts = make_env(n, "dense", k).reset(jax.random.PRNGKey(i))
        full = {b.tobytes() for b in ref_reachable(n)[0]} if n <= 3 else set()
        bb, bd = ref_reachable(n, max_depth=k if k <= 8 else 0)
        ball = {b.tobytes(): int(d) for b, d in zip(bb, bd)}
        fails += [sig for sig, _ in reset_faults(np.asarray(s.puzzle), np.asarray(s.empty_tile_position), k, full, ball,
                                                 k if k <= 8 else -1)]
        if int(s.step_count) != 0 or int(ts.step_type) != 0:
            fails.append(f"{FAM}:reset:not-a-fresh-episode")
    elif kind == "slide_goal":
        if not np.array_equal(np.asarray(make_env(n).solved_puzzle), goal_board(n)):
            fails.append(f"{FAM}:make_solved_puzzle:not-the-documented-goal")
    elif kind == "slide_space":
        # plain-Python closure of the space with the jitted single step (no vmap, no pool)
        env = make_env(n, rp.get("reward", "dense"))
        step = jax.jit(env.step)
        start = goal_board(n)
        seen = {start.tobytes()}
        todo = [start]
        while todo and len(seen) <= math.factorial(n * n):
            b = todo.pop()
            for a in range(4):
                s, _ = step(one_state(b), jnp.asarray(a, jnp.int32))
                c = np.asarray(s.puzzle)
                if c.tobytes() not in seen:
                    seen.add(c.tobytes())
                    todo.append(c)
        ref = {b.tobytes() for b in ref_reachable(n)[0]}
        if len(seen) != math.factorial(n * n) // 2:
            fails.append(f"{FAM}:env.step:reachable-space-is-not-half-of-all-boards")
        if seen != ref:
            fails.append(f"{FAM}:env.step:reachable-space-differs-from-reference")
    else:
        raise ValueError(f"unknown replay kind {kind}")
    return fails
