"""C17 — RubiksCube worker tasks (moves, BFS of the move graph, action codec, scrambles).

Every task drives the *real* library (`generate_all_moves`, `env.step`, `env.reset`,
`flatten_action`/`unflatten_action`, `is_solved`, `scramble_solved_cube`) in `jit(vmap(...))`
batches and compares with the geometric reference of `mc.c17_cuberef`.  A few cases per task are
re-executed un-jitted through the plain per-call API (`validated`).
"""
from __future__ import annotations

import itertools
import time
from typing import Any, Dict, List, Sequence, Tuple

from mc import boot  # noqa: F401

import numpy as np

from mc import c17_cuberef as R
from mc.c17_common import Acc, first_rows, pad_rows, pick

FAM = "rubiks_cube"


# ---------------------------------------------------------------------------------------------
# plumbing
# ---------------------------------------------------------------------------------------------
def make_env(n: int, k: int = 0, time_limit: int = 200) -> Any:
    from jumanji.environments.logic.rubiks_cube.env import RubiksCube
    from jumanji.environments.logic.rubiks_cube.generator import ScramblingGenerator

    return RubiksCube(generator=ScramblingGenerator(cube_size=n, num_scrambles_on_reset=k), time_limit=time_limit)


def make_states(cubes: np.ndarray) -> Any:
    """Batch of injected states: the given cubes, step_count 0, a constant key."""
    import jax.numpy as jnp
    from jumanji.environments.logic.rubiks_cube.types import State

    m = cubes.shape[0]
    return State(cube=jnp.asarray(cubes), step_count=jnp.zeros((m,), jnp.int32), key=jnp.zeros((m, 2), jnp.uint32))


def one_state(cube: np.ndarray) -> Any:
    import jax.numpy as jnp
    from jumanji.environments.logic.rubiks_cube.types import State

    return State(cube=jnp.asarray(cube), step_count=jnp.zeros((), jnp.int32), key=jnp.zeros((2,), jnp.uint32))


def all_triples(n: int) -> np.ndarray:
    return np.array([R.triple_of(n, k) for k in range(R.n_moves(n))], np.int32)


def describe(n: int, flat: int) -> str:
    f, d, a = R.triple_of(n, flat)
    return f"{R.FACE_NAMES[f]} depth {d} {R.AMOUNT_NAMES[a]}"


def _ts_fields(ts: Any) -> Tuple[np.ndarray, np.ndarray, np.ndarray]:
    return np.asarray(ts.step_type), np.asarray(ts.reward), np.asarray(ts.discount)


def check_solved_flags(acc: Acc, child_cubes: np.ndarray, ts: Any, replay_of, where: str) -> np.ndarray:
    """reward / step_type / discount must say 'solved' exactly on uniformly coloured faces
    (the step counter is injected as 0, so the time limit cannot be the cause of LAST)."""
    solved = R.is_solved(child_cubes)
    st, rw, dc = _ts_fields(ts)
    bad_r = ~np.isclose(rw, solved.astype(np.float64), rtol=1e-5, atol=1e-6)
    for ix in first_rows(bad_r):
        acc.violation(f"{FAM}:reward:not-1-iff-solved",
                      f"{where}: reward {rw[ix]} but faces uniformly coloured = {bool(solved[ix])}", replay_of(ix))
    bad_d = (st != np.where(solved, 2, 1)) | ~np.isclose(dc, np.where(solved, 0.0, 1.0))
    for ix in first_rows(bad_d):
        acc.violation(f"{FAM}:done:not-iff-solved",
                      f"{where}: step_type {st[ix]} discount {dc[ix]} but faces uniformly coloured = "
                      f"{bool(solved[ix])} (step counter 1 of 200)", replay_of(ix))
    acc.count("cube_solved_states_seen", int(solved.sum()))
    acc.count("cube_unsolved_states_seen", int((~solved).sum()))
    return solved


# ---------------------------------------------------------------------------------------------
# (a) + (c): every move of every size, group laws, pairs, action codec
# ---------------------------------------------------------------------------------------------
def moves(n: int, tier: str, seed: int, pairs: bool = True) -> Dict[str, Any]:
    import jax
    import jax.numpy as jnp
    from jumanji.environments.logic.rubiks_cube import utils as U

    t0 = time.time()
    acc = Acc(f"cube-moves-n{n}")
    env = make_env(n)
    A = R.n_moves(n)
    N = 6 * n * n
    triples = all_triples(n)
    refP = R.all_move_perms(n)  # [A, N]
    labs = np.stack(R.labelings(n)).reshape(3, 6, n, n)  # int32, all stickers distinct
    ident = np.arange(N)

    # the action spec declares exactly the documented (face, depth, amount) ranges
    from mc.engine import all_actions

    spec_actions = all_actions(env.action_spec)
    if spec_actions.shape != triples.shape or not np.array_equal(spec_actions, triples):
        acc.violation(f"{FAM}:action_spec:not-6-faces-x-half-depths-x-3-amounts",
                      f"action_spec enumerates {spec_actions.shape[0]} actions, expected {A} = 6*{n // 2}*3",
                      dict(kind="cube_action_spec", n=n))

    # -- generate_all_moves ---------------------------------------------------------------------
    mv = U.generate_all_moves(n)
    if len(mv) != A:
        acc.violation(f"{FAM}:generate_all_moves:wrong-number-of-moves",
                      f"generate_all_moves({n}) has {len(mv)} moves, expected 18*floor(n/2) = {A}",
                      dict(kind="cube_move_count", n=n))
    direct = jax.jit(jax.vmap(lambda c: jnp.stack([m(c) for m in mv])))
    out_direct = np.asarray(direct(jnp.asarray(labs)))  # [3, len(mv), 6, n, n]
    acc.transitions += out_direct.shape[0] * out_direct.shape[1]

    # -- env.step on every in-spec action ---------------------------------------------------------
    step_actions = jax.jit(jax.vmap(jax.vmap(env.step, in_axes=(None, 0)), in_axes=(0, None)))
    s2, ts2 = step_actions(make_states(labs), jnp.asarray(triples))
    out_step = np.asarray(s2.cube)  # [3, A, 6, n, n]
    acc.transitions += 3 * A
    acc.states += 3 + A  # labelled cubes + moves

    def analyse(out: np.ndarray, via: str) -> np.ndarray:
        """-> impl permutations [A', N] derived from labelling 0 (identity labels)."""
        nA = out.shape[1]
        flat = out.reshape(3, nA, N)
        perms = flat[0].astype(np.int64)
        if out.dtype != labs.dtype or out.shape[2:] != (6, n, n):
            acc.violation(f"{FAM}:{via}:changes-shape-or-dtype", f"output {out.dtype}{out.shape[2:]}",
                          dict(kind="cube_move", n=n, via=via, flat=0))
        for k in range(min(nA, A)):
            rp = dict(kind="cube_move", n=n, via=via, flat=int(k), action=list(map(int, R.triple_of(n, k))))
            if not np.array_equal(np.sort(flat[0, k]), ident):
                acc.violation(f"{FAM}:{via}:not-a-permutation-of-the-stickers",
                              f"n={n} {describe(n, k)}: the multiset of {N} distinct stickers is not conserved", rp)
                continue
            acc.count("moves_conserving_sticker_multiset")
            for j in (1, 2):
                if not np.array_equal(flat[j, k], labs[j].reshape(-1)[perms[k]]):
                    acc.violation(f"{FAM}:{via}:permutation-depends-on-sticker-values",
                                  f"n={n} {describe(n, k)}: relabelling #{j} is moved by a different permutation", rp)
            if k < A and not np.array_equal(perms[k], refP[k]):
                nbad = int((perms[k] != refP[k]).sum())
                acc.violation(f"{FAM}:{via}:differs-from-physical-move",
                              f"n={n} {describe(n, k)}: {nbad} of {N} stickers land elsewhere than under the "
                              f"geometric layer rotation", rp)
            acc.count("moves_checked")
        return perms

    perms_direct = analyse(out_direct, "generate_all_moves")
    perms_step = analyse(out_step, "env.step")
    check_solved_flags(acc, out_step, ts2, lambda ix: dict(kind="cube_move", n=n, via="env.step", flat=int(ix[1]),
                                                           labelling=int(ix[0])), "all-distinct stickers")
    sc = np.asarray(s2.step_count)
    if not (sc == 1).all():
        acc.violation(f"{FAM}:env.step:step-count-not-incremented", f"step_count {np.unique(sc)} after one step",
                      dict(kind="cube_move", n=n, via="env.step", flat=0))

    # -- env.step on cubes of the environment's NATIVE dtype -------------------------------------------
    # The all-distinct labellings above are int32; a real state holds colours 0..5 in the dtype `reset`
    # produces (int8).  D = ceil(log6 N) native cubes whose colours are the base-6 digits of the sticker's
    # position jointly identify every position, so the permutation applied to native states is recovered
    # from D real steps per action and compared with the physical move.
    native_dt = np.asarray(jax.jit(env.reset)(jax.random.PRNGKey(0))[0].cube).dtype
    D = 1
    while 6 ** D < N:
        D += 1
    digits = np.stack([(ident // 6 ** j) % 6 for j in range(D)]).reshape(D, 6, n, n).astype(native_dt)
    s2n, _ = step_actions(make_states(digits), jnp.asarray(triples))
    out_nat = np.asarray(s2n.cube)  # [D, A, 6, n, n]
    acc.transitions += D * A
    if out_nat.dtype != native_dt:
        acc.violation(f"{FAM}:env.step:changes-shape-or-dtype", f"native {native_dt} cube comes back as {out_nat.dtype}",
                      dict(kind="cube_move_native", n=n, flat=0))
    src = sum(out_nat[j].reshape(A, N).astype(np.int64) * 6 ** j for j in range(D))  # [A, N]
    for k in range(A):
        if not np.array_equal(src[k], refP[k]):
            nbad = int((src[k] != refP[k]).sum())
            acc.violation(f"{FAM}:env.step:native-dtype-state-differs-from-physical-move",
                          f"n={n} {describe(n, k)} on {native_dt} states (colours = base-6 digits of the position, {D} "
                          f"cubes): {nbad} of {N} stickers land elsewhere than under the geometric layer rotation "
                          f"although the int32 all-distinct labelling may agree",
                          dict(kind="cube_move_native", n=n, flat=int(k), action=list(map(int, R.triple_of(n, k)))))
        acc.count("native_dtype_moves_checked")
    acc.facts["native_dtype"] = str(native_dt)
    acc.facts["native_digit_cubes"] = D

    # -- group laws on the implementation's own permutations (no reference involved) -------------
    def laws(perms: np.ndarray, via: str) -> None:
        if perms.shape[0] != A:
            return
        for f in range(6):
            for d in range(n // 2):
                cw, ccw, half = (perms[R.flat_of(n, f, d, a)] for a in range(3))
                ok = all(np.array_equal(np.sort(p), ident) for p in (cw, ccw, half))
                rp = dict(kind="cube_law", n=n, via=via, face=f, depth=d)
                if not ok:
                    continue  # reported above
                # "p then q" as a gather permutation is p[q]
                if not (np.array_equal(cw[ccw], ident) and np.array_equal(ccw[cw], ident)):
                    acc.violation(f"{FAM}:{via}:clockwise-not-undone-by-anticlockwise",
                                  f"n={n} {R.FACE_NAMES[f]} depth {d}", rp)
                if not np.array_equal(cw[cw], half):
                    acc.violation(f"{FAM}:{via}:half-turn-differs-from-two-quarter-turns",
                                  f"n={n} {R.FACE_NAMES[f]} depth {d}", rp)
                if not (np.array_equal(cw[cw][cw][cw], ident) and np.array_equal(ccw[ccw][ccw][ccw], ident)):
                    acc.violation(f"{FAM}:{via}:four-quarter-turns-not-identity",
                                  f"n={n} {R.FACE_NAMES[f]} depth {d}", rp)
                if not np.array_equal(half[half], ident):
                    acc.violation(f"{FAM}:{via}:two-half-turns-not-identity", f"n={n} {R.FACE_NAMES[f]} depth {d}", rp)
                acc.count("group_law_layers_checked")

    laws(perms_direct, "generate_all_moves")
    laws(perms_step, "env.step")

    # -- sequences through the real env.step: all ordered pairs, four quarter turns ------------------
    def run_sequences(seqs: np.ndarray, start: np.ndarray) -> np.ndarray:
        """seqs [B, L, 3] applied with L real steps to the cube `start` -> cubes [B, 6, n, n]."""
        def go(actions):
            s = one_state(start)

            def body(s, a):
                s, _ = env.step(s, a)
                return s, None

            s, _ = jax.lax.scan(body, s, actions)
            return s.cube

        return np.asarray(jax.jit(jax.vmap(go))(jnp.asarray(seqs)))

    if pairs:
        pr = np.array(list(itertools.product(range(A), range(A))), np.int64)  # ordered pairs
        got = run_sequences(triples[pr], labs[0]).reshape(len(pr), N)
        want = refP[pr[:, 0]][np.arange(len(pr))[:, None], refP[pr[:, 1]]]  # m1 then m2 = p1[p2]
        bad = (got != want).any(axis=1)
        for (i,) in first_rows(bad):
            m1, m2 = int(pr[i, 0]), int(pr[i, 1])
            acc.violation(f"{FAM}:env.step:two-move-sequence-differs-from-reference",
                          f"n={n} '{describe(n, m1)}' then '{describe(n, m2)}': composition is not the composition "
                          f"of the physical moves (the second move depends on the state it is applied to?)",
                          dict(kind="cube_seq", n=n, seq=[m1, m2]))
        # laws observed on real two-step runs
        gi = {(int(a), int(b)): i for i, (a, b) in enumerate(pr)}
        for f in range(6):
            for d in range(n // 2):
                cw, ccw, half = (R.flat_of(n, f, d, a) for a in range(3))
                if not (np.array_equal(got[gi[(cw, ccw)]], ident) and np.array_equal(got[gi[(ccw, cw)]], ident)):
                    acc.violation(f"{FAM}:env.step:clockwise-not-undone-by-anticlockwise",
                                  f"n={n} {R.FACE_NAMES[f]} depth {d} (two real steps)",
                                  dict(kind="cube_seq", n=n, seq=[cw, ccw], expect="identity"))
                if not np.array_equal(got[gi[(cw, cw)]], out_step[0, half].reshape(-1)):
                    acc.violation(f"{FAM}:env.step:half-turn-differs-from-two-quarter-turns",
                                  f"n={n} {R.FACE_NAMES[f]} depth {d} (two real steps)",
                                  dict(kind="cube_seq", n=n, seq=[cw, cw], expect_same_as=[half]))
        acc.count("pairs_checked", len(pr))
        acc.transitions += 2 * len(pr)
        acc.facts["ordered_pairs"] = len(pr)
    quarter = np.array([k for k in range(A) if R.triple_of(n, k)[2] in (0, 1)], np.int64)
    got4 = run_sequences(np.repeat(triples[quarter][:, None, :], 4, axis=1), labs[0]).reshape(len(quarter), N)
    for (i,) in first_rows((got4 != ident[None, :]).any(axis=1)):
        acc.violation(f"{FAM}:env.step:four-quarter-turns-not-identity", f"n={n} {describe(n, int(quarter[i]))} x4",
                      dict(kind="cube_seq", n=n, seq=[int(quarter[i])] * 4, expect="identity"))
    acc.count("four_turn_cycles_checked", len(quarter))
    acc.transitions += 4 * len(quarter)

    # -- (c) flat <-> (face, depth, amount) -----------------------------------------------------------
    flats = np.arange(A, dtype=np.int32)
    unf = np.asarray(jax.jit(jax.vmap(lambda a: U.unflatten_action(a, n)))(jnp.asarray(flats)))  # [A, 3]
    fl = np.asarray(jax.jit(jax.vmap(lambda t: U.flatten_action(t, n)))(jnp.asarray(triples)))  # [A]
    refl = np.asarray(jax.jit(jax.vmap(lambda a: U.flatten_action(U.unflatten_action(a, n), n)))(jnp.asarray(flats)))
    refu = np.asarray(jax.jit(jax.vmap(lambda t: U.unflatten_action(U.flatten_action(t, n), n)))(jnp.asarray(triples)))
    for k in range(A):
        rp = dict(kind="cube_codec", n=n, flat=int(k))
        if tuple(int(v) for v in unf[k]) != R.triple_of(n, k):
            acc.violation(f"{FAM}:unflatten_action:differs-from-documented-order",
                          f"n={n} unflatten_action({k}) = {unf[k].tolist()}, documented {R.triple_of(n, k)}", rp)
        if int(fl[k]) != k:
            acc.violation(f"{FAM}:flatten_action:differs-from-documented-order",
                          f"n={n} flatten_action({triples[k].tolist()}) = {int(fl[k])}, documented {k}", rp)
        if int(refl[k]) != k:
            acc.violation(f"{FAM}:flatten_action:not-inverse-of-unflatten_action",
                          f"n={n} flatten(unflatten({k})) = {int(refl[k])}", rp)
        if not np.array_equal(refu[k], triples[k]):
            acc.violation(f"{FAM}:unflatten_action:not-inverse-of-flatten_action",
                          f"n={n} unflatten(flatten({triples[k].tolist()})) = {refu[k].tolist()}", rp)
        acc.count("codec_round_trips_checked", 2)
    for k in pick(range(A), 6, seed):  # the same through the plain eager functions
        a = U.unflatten_action(jnp.asarray(k, jnp.int32), n)
        b = U.flatten_action(a, n)
        if tuple(int(v) for v in np.asarray(a)) != R.triple_of(n, k) or int(b) != k:
            acc.violation(f"{FAM}:flatten_action:not-inverse-of-unflatten_action", f"n={n} eager flat {k}",
                          dict(kind="cube_codec", n=n, flat=int(k)))
    acc.transitions += 4 * A
    acc.states += A

    # -- eager validation of some steps -----------------------------------------------------------
    n_eager = 3 if tier == "quick" else 6
    for k in pick(range(A), n_eager, seed):
        s, ts = env.step(one_state(labs[0]), jnp.asarray(triples[k]))
        if not np.array_equal(np.asarray(s.cube), out_step[0, k]) or int(ts.step_type) != int(np.asarray(ts2.step_type)[0, k]):
            acc.violation(f"{FAM}:env.step:eager-differs-from-jit-vmap", f"n={n} {describe(n, k)}",
                          dict(kind="cube_move", n=n, via="env.step", flat=int(k)))
        acc.validated += 1
    acc.sample(dict(case="move", n=n, action=triples[A // 2].tolist(), what=describe(n, A // 2),
                    permutation_head=perms_step[A // 2][:12].tolist(), reference_head=refP[A // 2][:12].tolist()))
    return acc.result(exhaustive=True, cube_size=n, n_moves=A, wall_s=round(time.time() - t0, 2))


# ---------------------------------------------------------------------------------------------
# (b) BFS of the move graph from the solved cube + crafted near-solved states
# ---------------------------------------------------------------------------------------------
def whole_cube_rotations(n: int) -> np.ndarray:
    """The 24 colourings of the solved cube turned as a whole (all faces uniform)."""
    def whole(face: int) -> np.ndarray:
        p = np.arange(6 * n * n)
        for d in range(n):
            p = p[R.move_perm(n, face, d, 0)]
        return p

    gens = [whole(R.UP), whole(R.RIGHT)]
    start = R.solved_cube(n).reshape(-1)
    seen = {start.tobytes(): start}
    todo = [start]
    while todo:
        c = todo.pop()
        for g in gens:
            x = c[g]
            if x.tobytes() not in seen:
                seen[x.tobytes()] = x
                todo.append(x)
    return np.stack(list(seen.values()))


def crafted_targets(n: int) -> List[Tuple[str, np.ndarray]]:
    """Near-solved colourings (flattened) with the expected verdict decided by the oracle."""
    base = R.solved_cube(n).reshape(-1)
    N = base.size
    out: List[Tuple[str, np.ndarray]] = []
    for i in range(N):
        for c in range(6):
            if c != base[i]:
                t = base.copy()
                t[i] = c
                out.append(("one-sticker-recoloured", t))
    for i in range(N):
        for j in range(i + 1, N):
            if base[i] != base[j]:
                t = base.copy()
                t[[i, j]] = base[[j, i]]
                out.append(("two-stickers-swapped", t))
    for t in whole_cube_rotations(n):
        out.append(("whole-cube-rotation", t))
    # one face uniform, the others not: solved cube after a single turn of each kind
    for k in range(R.n_moves(n)):
        out.append(("one-turn-from-solved", base[R.move_perm(n, *R.triple_of(n, k))]))
    return out


def bfs(n: int, depth: int, tier: str, seed: int) -> Dict[str, Any]:
    import jax
    import jax.numpy as jnp
    from jumanji.environments.logic.rubiks_cube import utils as U

    t0 = time.time()
    acc = Acc(f"cube-bfs-n{n}-depth{depth}")
    env = make_env(n)
    A = R.n_moves(n)
    N = 6 * n * n
    triples = all_triples(n)
    refP = R.all_move_perms(n)
    step_actions = jax.jit(jax.vmap(jax.vmap(env.step, in_axes=(None, 0)), in_axes=(0, None)))
    CH = 512

    solved_impl = np.asarray(U.make_solved_cube(n))
    if solved_impl.dtype != np.int8 or not np.array_equal(solved_impl, R.solved_cube(n)):
        acc.violation(f"{FAM}:make_solved_cube:not-the-documented-goal", f"n={n}: {solved_impl.reshape(6, -1)[:, 0]}",
                      dict(kind="cube_solved", n=n))
    start = R.solved_cube(n).reshape(-1)
    seen = {start.tobytes(): 0}
    frontier = start[None, :]
    layer_sizes = [1]
    partially_uniform = 0
    edges_for_eager: List[Any] = []
    for d in range(depth):
        new_rows: List[np.ndarray] = []
        for lo in range(0, len(frontier), CH):
            par = frontier[lo:lo + CH]
            m = len(par)
            s2, ts2 = step_actions(make_states(pad_rows(par, CH).reshape(CH, 6, n, n)), jnp.asarray(triples))
            child = np.asarray(s2.cube)[:m].reshape(m, A, N)
            ts2 = jax.tree_util.tree_map(lambda x: np.asarray(x)[:m], ts2)
            want = par[:, refP]  # [m, A, N]
            acc.transitions += m * A
            if child.dtype != np.int8:
                acc.violation(f"{FAM}:env.step:changes-shape-or-dtype", f"cube dtype {child.dtype}",
                              dict(kind="cube_edge", n=n, cube=par[0].tolist(), flat=0))
            bad = (child != want).any(axis=2)
            for i, k in first_rows(bad):
                acc.violation(f"{FAM}:env.step:differs-from-physical-move",
                              f"n={n} BFS depth {d}: {describe(n, k)} applied to a reachable colouring gives a "
                              f"different cube than the geometric reference",
                              dict(kind="cube_edge", n=n, cube=par[i].tolist(), flat=int(k)))
            check_solved_flags(acc, child.reshape(m, A, 6, n, n), ts2,
                               lambda ix: dict(kind="cube_edge", n=n, cube=par[ix[0]].tolist(), flat=int(ix[1])),
                               f"n={n} BFS depth {d}")
            c6 = child.reshape(m, A, 6, n * n)
            uni = (c6 == c6[..., :1]).all(axis=3).sum(axis=2)
            partially_uniform += int(((uni > 0) & (uni < 6)).sum())
            if len(edges_for_eager) < 64:
                edges_for_eager += [(par[i], int(k), child[i, k], int(np.asarray(ts2.step_type)[i, k]),
                                     float(np.asarray(ts2.reward)[i, k]))
                                    for i in range(min(m, 4)) for k in (0, A // 2, A - 1)]
            for row in child.reshape(-1, N):
                key = row.tobytes()
                if key not in seen:
                    seen[key] = d + 1
                    new_rows.append(row)
        if not new_rows:
            break
        frontier = np.stack(new_rows)
        layer_sizes.append(len(frontier))
    acc.states += len(seen)
    acc.count("partially_uniform_unsolved_seen", partially_uniform)

    # the explored set must be exactly the reference ball
    ref_states, _ = R.bfs_ball(n, depth)
    ref_set = {r.tobytes() for r in ref_states}
    if ref_set != set(seen):
        acc.violation(f"{FAM}:env.step:reachable-set-differs-from-reference",
                      f"n={n} depth {depth}: impl ball {len(seen)} states, reference ball {len(ref_set)} states",
                      dict(kind="cube_ball", n=n, depth=depth))

    # crafted near-solved colourings, produced as the *child* of a real step
    targets = crafted_targets(n)
    T = np.stack([t for _, t in targets]).astype(np.int8)
    inv = np.argsort(refP, axis=1)  # inverse permutations
    n_unsolved = 0
    is_solved_fn = jax.jit(jax.vmap(U.is_solved))
    direct = np.asarray(is_solved_fn(jnp.asarray(T.reshape(-1, 6, n, n))))
    want_direct = R.is_solved(T.reshape(-1, 6, n, n))
    for (i,) in first_rows(direct != want_direct):
        acc.violation(f"{FAM}:is_solved:not-iff-uniform-faces",
                      f"n={n} {targets[i][0]}: is_solved = {bool(direct[i])}, faces uniform = {bool(want_direct[i])}",
                      dict(kind="cube_is_solved", n=n, cube=T[i].tolist()))
    acc.count("crafted_near_solved_checked", len(T))
    step_each = jax.jit(jax.vmap(env.step))
    move_ids = list(range(A)) if len(T) * A <= 60000 else pick(range(A), 6, 0)
    for k in move_ids:
        par = T[:, inv[k]]  # applying move k to `par` must give T
        B = ((len(par) + CH - 1) // CH) * CH
        s2, ts2 = step_each(make_states(pad_rows(par, B).reshape(B, 6, n, n)),
                            jnp.asarray(np.broadcast_to(triples[k], (B, 3))))
        child = np.asarray(s2.cube)[:len(par)].reshape(len(par), N)
        ts2 = jax.tree_util.tree_map(lambda x: np.asarray(x)[:len(par)], ts2)
        acc.transitions += len(par)
        for (i,) in first_rows((child != T).any(axis=1)):
            acc.violation(f"{FAM}:env.step:differs-from-physical-move",
                          f"n={n} {describe(n, k)} on the pre-image of a crafted colouring ({targets[i][0]})",
                          dict(kind="cube_edge", n=n, cube=par[i].tolist(), flat=int(k)))
        sv = check_solved_flags(acc, child.reshape(-1, 6, n, n), ts2,
                                lambda ix: dict(kind="cube_edge", n=n, cube=par[ix[0]].tolist(), flat=int(k)),
                                f"n={n} crafted near-solved colouring")
        n_unsolved += int((~sv).sum())
    acc.states += len(T)
    acc.count("crafted_unsolved_through_step", n_unsolved)

    # eager validation
    n_eager = 4 if tier == "quick" else 10
    for cube, k, b_child, b_type, b_reward in pick(edges_for_eager, n_eager, seed):
        s, ts = env.step(one_state(cube.reshape(6, n, n)), jnp.asarray(triples[k]))
        if not np.array_equal(np.asarray(s.cube).reshape(-1), b_child) or int(ts.step_type) != b_type \
                or not np.isclose(float(ts.reward), b_reward):
            acc.violation(f"{FAM}:env.step:eager-differs-from-jit-vmap", f"n={n} {describe(n, k)}",
                          dict(kind="cube_edge", n=n, cube=cube.tolist(), flat=int(k)))
        acc.validated += 1
    acc.sample(dict(case="bfs", n=n, depth=depth, layer_sizes=layer_sizes,
                    example_child=dict(parent="solved", action=triples[0].tolist(),
                                       cube=start[refP[0]].reshape(6, -1).tolist())))
    return acc.result(exhaustive=True, cube_size=n, bfs_depth=depth, layer_sizes=layer_sizes,
                      crafted_targets=len(T), wall_s=round(time.time() - t0, 2))


# ---------------------------------------------------------------------------------------------
# (d) scrambles
# ---------------------------------------------------------------------------------------------
def make_spy(n: int, k: int) -> Any:
    """A ScramblingGenerator whose `generate_cube` returns the drawn flat actions instead of the
    cube: run through the generator's own `__call__`, it exposes the draw of every key without
    re-implementing the key plumbing."""
    from jumanji.environments.logic.rubiks_cube.generator import ScramblingGenerator

    class Spy(ScramblingGenerator):
        def generate_cube(self, key):  # type: ignore[override]
            return self.generate_actions_for_scramble(key=key)

    return Spy(cube_size=n, num_scrambles_on_reset=k)


def scramble(n: int, ks: Sequence[int], n_keys: int, ball_depth: int, tier: str, seed: int,
             sequences: bool = True) -> Dict[str, Any]:
    import jax
    import jax.numpy as jnp
    from jumanji.environments.logic.rubiks_cube import utils as U

    t0 = time.time()
    acc = Acc(f"cube-scramble-n{n}-k{max(ks)}")
    A = R.n_moves(n)
    N = 6 * n * n
    keys = jnp.stack([jax.random.PRNGKey(i) for i in range(n_keys)])
    ball: Dict[bytes, int] = {}
    if n <= 3:
        bs, bd = R.bfs_ball(n, ball_depth)
        ball = {s.tobytes(): int(d) for s, d in zip(bs, bd)}
    # the invariant test must reject unreachable colourings (non-vacuity of the oracle)
    for name, c in R.crafted_unreachable(n):
        if R.unreachable_reasons(c):
            acc.count("unreachable_crafted_rejected")
        else:
            raise AssertionError(f"reachability oracle accepts the unreachable colouring '{name}'")

    # scramble_solved_cube on every action sequence of length <= 2
    seqs2 = np.array(list(itertools.product(range(A), range(A))), np.int32)
    for L, seqs in ((0, np.zeros((1, 0), np.int32)), (1, np.arange(A, dtype=np.int32)[:, None]), (2, seqs2)):
        if not sequences:
            break
        got = np.asarray(jax.jit(jax.vmap(lambda s: U.scramble_solved_cube(s, n)))(jnp.asarray(seqs)))
        for i in range(len(seqs)):
            want = R.apply_moves(R.solved_cube(n).reshape(-1), n, seqs[i])
            if got[i].dtype != np.int8 or not np.array_equal(got[i].reshape(-1), want):
                acc.violation(f"{FAM}:scramble_solved_cube:differs-from-reference",
                              f"n={n} actions {seqs[i].tolist()}", dict(kind="cube_scramble_seq", n=n, seq=seqs[i].tolist()))
                break
        acc.count("scramble_sequences_checked", len(seqs))
        acc.transitions += len(seqs) * L
    seen_draws = np.zeros(A, bool)
    distinct = set()
    for k in ks:
        env = make_env(n, k)
        st, ts = jax.jit(jax.vmap(env.reset))(keys)
        cubes = np.asarray(st.cube)
        draws = np.asarray(jax.jit(jax.vmap(make_spy(n, k)))(keys).cube).reshape(n_keys, k)
        acc.transitions += n_keys * k
        if cubes.dtype != np.int8 or cubes.shape != (n_keys, 6, n, n):
            acc.violation(f"{FAM}:reset:cube-shape-or-dtype", f"{cubes.dtype}{cubes.shape}",
                          dict(kind="cube_reset", n=n, k=k, key=0))
        if not ((np.asarray(st.step_count) == 0).all() and (np.asarray(ts.step_type) == 0).all()):
            acc.violation(f"{FAM}:reset:not-a-fresh-episode", "step_count or step_type not 0 after reset",
                          dict(kind="cube_reset", n=n, k=k, key=0))
        for i in range(n_keys):
            rp = dict(kind="cube_reset", n=n, k=int(k), key=i)
            c = cubes[i].reshape(-1)
            distinct.add(c.tobytes())
            dr = draws[i]
            if ((dr < 0) | (dr >= A)).any():
                acc.violation(f"{FAM}:reset:scramble-action-out-of-range", f"n={n} k={k} key {i}: draws {dr.tolist()}", rp)
            else:
                seen_draws[dr] = True
                if not np.array_equal(R.apply_moves(R.solved_cube(n).reshape(-1), n, dr), c):
                    acc.violation(f"{FAM}:reset:cube-differs-from-drawn-scramble",
                                  f"n={n} k={k} PRNGKey({i}): reset cube is not the solved cube turned by the drawn "
                                  f"moves {dr.tolist()[:8]}...", rp)
                acc.count("reset_states_matching_drawn_scramble")
            if ball and k <= ball_depth:
                if ball.get(c.tobytes(), 10 ** 9) > k:
                    acc.violation(f"{FAM}:reset:cube-not-within-num_scrambles-moves-of-solved",
                                  f"n={n} k={k} PRNGKey({i}): not in the BFS ball of radius {k}", rp)
                acc.count("cube_reset_states_in_bfs_ball")
            why = R.unreachable_reasons(cubes[i])
            if why:
                acc.violation(f"{FAM}:reset:cube-not-reachable-from-solved",
                              f"n={n} k={k} PRNGKey({i}): broken invariants {why}", rp)
            acc.count("cube_reset_states_checked")
        for i in pick(range(n_keys), 1 if tier == "quick" else 2, seed):
            s, _ = env.reset(jax.random.PRNGKey(i))
            if not np.array_equal(np.asarray(s.cube), cubes[i]):
                acc.violation(f"{FAM}:reset:eager-differs-from-jit-vmap", f"n={n} k={k} key {i}",
                              dict(kind="cube_reset", n=n, k=int(k), key=i))
            acc.validated += 1
        if k == max(ks):
            acc.sample(dict(case="scramble", n=n, num_scrambles=int(k), key=0, drawn=draws[0].tolist()[:10],
                            cube=cubes[0].reshape(6, -1).tolist()))
    acc.states += len(distinct)
    acc.count("distinct_scramble_moves_drawn", int(seen_draws.sum()))
    acc.count("cube_distinct_reset_states", len(distinct))
    return acc.result(exhaustive=True, cube_size=n, num_scrambles=list(map(int, ks)), keys=n_keys,
                      moves_never_drawn=int((~seen_draws).sum()), wall_s=round(time.time() - t0, 2))


# ---------------------------------------------------------------------------------------------
# replay of single cases with the plain, un-jitted API
# ---------------------------------------------------------------------------------------------
def replay_case(rp: Dict[str, Any]) -> List[str]:
    """Re-run one recorded case eagerly; returns the signatures that fail on it."""
    import jax
    import jax.numpy as jnp
    from jumanji.environments.logic.rubiks_cube import utils as U

    kind, n = rp["kind"], int(rp["n"])
    fails: List[str] = []
    N = 6 * n * n
    ident = np.arange(N)
    labs = np.stack(R.labelings(n)).reshape(3, 6, n, n)

    def impl_move(via: str, flat: int, cube: np.ndarray) -> np.ndarray:
        if via == "generate_all_moves":
            return np.asarray(U.generate_all_moves(n)[flat](jnp.asarray(cube)))
        s, _ = make_env(n).step(one_state(cube), jnp.asarray(R.triple_of(n, flat), jnp.int32))
        return np.asarray(s.cube)

    def flags(cube: np.ndarray, ts: Any) -> None:
        sv = bool(R.is_solved(cube))
        if not np.isclose(float(ts.reward), float(sv)):
            fails.append(f"{FAM}:reward:not-1-iff-solved")
        if (int(ts.step_type) == 2) != sv or not np.isclose(float(ts.discount), 0.0 if sv else 1.0):
            fails.append(f"{FAM}:done:not-iff-solved")

    if kind == "cube_move":
        via, flat = rp["via"], int(rp["flat"])
        outs = [impl_move(via, flat, labs[j]).reshape(-1) for j in range(3)]
        if not np.array_equal(np.sort(outs[0]), ident):
            fails.append(f"{FAM}:{via}:not-a-permutation-of-the-stickers")
        else:
            p = outs[0].astype(np.int64)
            if any(not np.array_equal(outs[j], labs[j].reshape(-1)[p]) for j in (1, 2)):
                fails.append(f"{FAM}:{via}:permutation-depends-on-sticker-values")
            if flat < R.n_moves(n) and not np.array_equal(p, R.move_perm(n, *R.triple_of(n, flat))):
                fails.append(f"{FAM}:{via}:differs-from-physical-move")
        if via == "env.step":
            s, ts = make_env(n).step(one_state(labs[0]), jnp.asarray(R.triple_of(n, flat), jnp.int32))
            flags(np.asarray(s.cube), ts)
            if int(s.step_count) != 1:
                fails.append(f"{FAM}:env.step:step-count-not-incremented")
    elif kind == "cube_move_native":
        flat = int(rp["flat"])
        env = make_env(n)
        dt = np.asarray(env.reset(jax.random.PRNGKey(0))[0].cube).dtype
        D = 1
        while 6 ** D < N:
            D += 1
        src = np.zeros(N, np.int64)
        for j in range(D):
            cube = ((ident // 6 ** j) % 6).reshape(6, n, n).astype(dt)
            s, _ = env.step(one_state(cube), jnp.asarray(R.triple_of(n, flat), jnp.int32))
            if np.asarray(s.cube).dtype != dt:
                fails.append(f"{FAM}:env.step:changes-shape-or-dtype")
            src += np.asarray(s.cube).reshape(-1).astype(np.int64) * 6 ** j
        if not np.array_equal(src, R.move_perm(n, *R.triple_of(n, flat))):
            fails.append(f"{FAM}:env.step:native-dtype-state-differs-from-physical-move")
    elif kind == "cube_law":
        via, f, d = rp["via"], int(rp["face"]), int(rp["depth"])
        cw, ccw, half = (impl_move(via, R.flat_of(n, f, d, a), labs[0]).reshape(-1).astype(np.int64) for a in range(3))
        if not (np.array_equal(cw[ccw], ident) and np.array_equal(ccw[cw], ident)):
            fails.append(f"{FAM}:{via}:clockwise-not-undone-by-anticlockwise")
        if not np.array_equal(cw[cw], half):
            fails.append(f"{FAM}:{via}:half-turn-differs-from-two-quarter-turns")
        if not (np.array_equal(cw[cw][cw][cw], ident) and np.array_equal(ccw[ccw][ccw][ccw], ident)):
            fails.append(f"{FAM}:{via}:four-quarter-turns-not-identity")
        if not np.array_equal(half[half], ident):
            fails.append(f"{FAM}:{via}:two-half-turns-not-identity")
    elif kind == "cube_seq":
        env = make_env(n)
        s = one_state(labs[0])
        for k in rp["seq"]:
            s, _ = env.step(s, jnp.asarray(R.triple_of(n, int(k)), jnp.int32))
        got = np.asarray(s.cube).reshape(-1)
        want = R.apply_moves(ident, n, rp["seq"])
        if not np.array_equal(got, want):
            fails.append(f"{FAM}:env.step:two-move-sequence-differs-from-reference")
        if rp.get("expect") == "identity" and not np.array_equal(got, ident):
            fails += [f"{FAM}:env.step:clockwise-not-undone-by-anticlockwise",
                      f"{FAM}:env.step:four-quarter-turns-not-identity"]
        if rp.get("expect_same_as") is not None:
            s2 = one_state(labs[0])
            for k in rp["expect_same_as"]:
                s2, _ = env.step(s2, jnp.asarray(R.triple_of(n, int(k)), jnp.int32))
            if not np.array_equal(got, np.asarray(s2.cube).reshape(-1)):
                fails.append(f"{FAM}:env.step:half-turn-differs-from-two-quarter-turns")
    elif kind == "cube_edge":
        cube, flat = np.asarray(rp["cube"], np.int8), int(rp["flat"])
        s, ts = make_env(n).step(one_state(cube.reshape(6, n, n)), jnp.asarray(R.triple_of(n, flat), jnp.int32))
        if not np.array_equal(np.asarray(s.cube).reshape(-1), cube[R.move_perm(n, *R.triple_of(n, flat))]):
            fails.append(f"{FAM}:env.step:differs-from-physical-move")
        if np.asarray(s.cube).dtype != np.int8:
            fails.append(f"{FAM}:env.step:changes-shape-or-dtype")
        flags(np.asarray(s.cube), ts)
    elif kind == "cube_is_solved":
        cube = np.asarray(rp["cube"], np.int8).reshape(6, n, n)
        if bool(U.is_solved(jnp.asarray(cube))) != bool(R.is_solved(cube)):
            fails.append(f"{FAM}:is_solved:not-iff-uniform-faces")
    elif kind == "cube_codec":
        k = int(rp["flat"])
        t = R.triple_of(n, k)
        a = tuple(int(v) for v in np.asarray(U.unflatten_action(jnp.asarray(k, jnp.int32), n)))
        b = int(U.flatten_action(jnp.asarray(t, jnp.int32), n))
        if a != t:
            fails.append(f"{FAM}:unflatten_action:differs-from-documented-order")
        if b != k:
            fails.append(f"{FAM}:flatten_action:differs-from-documented-order")
        if int(U.flatten_action(U.unflatten_action(jnp.asarray(k, jnp.int32), n), n)) != k:
            fails.append(f"{FAM}:flatten_action:not-inverse-of-unflatten_action")
        if tuple(int(v) for v in np.asarray(U.unflatten_action(U.flatten_action(jnp.asarray(t, jnp.int32), n), n))) != t:
            fails.append(f"{FAM}:unflatten_action:not-inverse-of-flatten_action")
    elif kind == "cube_reset":
        k, i = int(rp["k"]), int(rp["key"])
        key = jax.random.PRNGKey(i)
        s, ts = make_env(n, k).reset(key)
        cube = np.asarray(s.cube)
        dr = np.asarray(make_spy(n, k)(key).cube).reshape(-1)
        A = R.n_moves(n)
        if cube.dtype != np.int8 or cube.shape != (6, n, n):
            fails.append(f"{FAM}:reset:cube-shape-or-dtype")
        if int(s.step_count) != 0 or int(ts.step_type) != 0:
            fails.append(f"{FAM}:reset:not-a-fresh-episode")
        if ((dr < 0) | (dr >= A)).any():
            fails.append(f"{FAM}:reset:scramble-action-out-of-range")
        elif not np.array_equal(R.apply_moves(R.solved_cube(n).reshape(-1), n, dr), cube.reshape(-1)):
            fails.append(f"{FAM}:reset:cube-differs-from-drawn-scramble")
        if n <= 3 and k <= 4:
            bs, bd = R.bfs_ball(n, k)
            if cube.reshape(-1).tobytes() not in {x.tobytes() for x in bs}:
                fails.append(f"{FAM}:reset:cube-not-within-num_scrambles-moves-of-solved")
        if R.unreachable_reasons(cube):
            fails.append(f"{FAM}:reset:cube-not-reachable-from-solved")
    elif kind == "cube_scramble_seq":
        got = np.asarray(U.scramble_solved_cube(jnp.asarray(rp["seq"], jnp.int32), n))
        if got.dtype != np.int8 or not np.array_equal(got.reshape(-1), R.apply_moves(R.solved_cube(n).reshape(-1), n, rp["seq"])):
            fails.append(f"{FAM}:scramble_solved_cube:differs-from-reference")
    elif kind == "cube_solved":
        c = np.asarray(U.make_solved_cube(n))
        if c.dtype != np.int8 or not np.array_equal(c, R.solved_cube(n)):
            fails.append(f"{FAM}:make_solved_cube:not-the-documented-goal")
    elif kind == "cube_ball":
        depth = int(rp["depth"])
        env = make_env(n)
        seen = {R.solved_cube(n).reshape(-1).tobytes()}
        frontier = [R.solved_cube(n).reshape(-1)]
        step = jax.jit(env.step)
        for _ in range(depth):
            nxt = []
            for c in frontier:
                for k in range(R.n_moves(n)):
                    s, _ = step(one_state(c.reshape(6, n, n)), jnp.asarray(R.triple_of(n, k), jnp.int32))
                    x = np.asarray(s.cube).reshape(-1)
                    if x.tobytes() not in seen:
                        seen.add(x.tobytes())
                        nxt.append(x)
            frontier = nxt
        if seen != {x.tobytes() for x in R.bfs_ball(n, depth)[0]}:
            fails.append(f"{FAM}:env.step:reachable-set-differs-from-reference")
    elif kind in ("cube_action_spec", "cube_move_count"):
        from mc.engine import all_actions

        env = make_env(n)
        if not np.array_equal(all_actions(env.action_spec), all_triples(n)):
            fails.append(f"{FAM}:action_spec:not-6-faces-x-half-depths-x-3-amounts")
        if len(U.generate_all_moves(n)) != R.n_moves(n):
            fails.append(f"{FAM}:generate_all_moves:wrong-number-of-moves")
    else:
        raise ValueError(f"unknown replay kind {kind}")
    return fails
