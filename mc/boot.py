"""Process bootstrap: must be imported before jax / jumanji anywhere in /verif.

* pins the CPU backend and caps XLA's intra-op threads (parallelism comes from worker processes),
* makes /repo's *working tree* the jumanji that gets imported and asserts it,
* turns the (empty) hook guard on for symmetry with MANIFEST.hooks.
"""
import os
import sys
import warnings

REPO = os.environ.get("VERIF_REPO", "/repo")
VERIF = os.path.dirname(os.path.dirname(os.path.abspath(__file__)))

os.environ.setdefault("JAX_PLATFORMS", "cpu")
os.environ.setdefault("PYTHONHASHSEED", "0")
os.environ.setdefault("JUMANJI_VERIF", "1")
os.environ.setdefault("TF_CPP_MIN_LOG_LEVEL", "3")
_threads = os.environ.get("VERIF_XLA_THREADS", "2")
os.environ.setdefault(
    "XLA_FLAGS",
    f"--xla_cpu_multi_thread_eigen=false intra_op_parallelism_threads={_threads}",
)
os.environ.setdefault("OMP_NUM_THREADS", _threads)
os.environ.setdefault("OPENBLAS_NUM_THREADS", _threads)
os.environ.setdefault("MKL_NUM_THREADS", _threads)
os.environ.setdefault("MPLBACKEND", "Agg")
os.environ.setdefault("SDL_VIDEODRIVER", "dummy")

if sys.path[0] != REPO:
    sys.path.insert(0, REPO)
if VERIF not in sys.path:
    sys.path.insert(1, VERIF)

warnings.filterwarnings("ignore")


def assert_repo() -> None:
    import jumanji

    f = os.path.realpath(jumanji.__file__)
    if not f.startswith(os.path.realpath(REPO) + os.sep):
        raise SystemExit(f"jumanji imported from {f}, expected under {REPO}")


def tier() -> str:
    t = os.environ.get("VERIF_TIER", "quick")
    return t if t in ("quick", "thorough") else "quick"


def seed() -> int:
    try:
        return int(os.environ.get("VERIF_SEED", "0"))
    except ValueError:
        return 0
