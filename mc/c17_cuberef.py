"""C17 — geometric reference model of the n×n×n Rubik's cube (plain NumPy, no jumanji import).

Everything here is derived from the *documentation* (docs/environments/rubiks_cube.md and the
docstring of `unflatten_action`: the "look directly at the face with ... on the left and ...
pointing up" convention, turning amounts 0 = clockwise, 1 = anticlockwise, 2 = half turn when
looking directly at the face) and elementary geometry; no index table of the implementation is
copied (DESIGN.md Appendix A).

Model
-----
Cubie coordinates x: left→right, y: front→back, z: bottom→top, each in 0..n−1.  A sticker is the
pair (cubie position, outward normal).  Facelet (face, row r, col c) — reading order when looking
directly at the face — sits at

    UP    (c,     n−1−r, n−1  ) normal +z      BACK  (n−1−c, n−1,   n−1−r) normal +y
    FRONT (c,     0,     n−1−r) normal −y      LEFT  (0,     n−1−c, n−1−r) normal −x
    RIGHT (n−1,   c,     n−1−r) normal +x      DOWN  (c,     r,     0    ) normal −z

A clockwise quarter turn of face F at depth d (seen from outside, looking at F) rotates every
sticker of the layer at distance d from F by −90° about F's outward normal (right-hand rule);
anticlockwise is +90°, a half turn 180°.  Rotations are done with Rodrigues' formula in integer
arithmetic on centred, doubled coordinates P = 2p − (n−1).

A move is returned as a *gather permutation* `perm` over the 6n² flattened facelets:
`new.flat[i] == old.flat[perm[i]]`.
"""
from __future__ import annotations

import functools
import itertools
from typing import Dict, List, Sequence, Tuple

import numpy as np

UP, FRONT, RIGHT, BACK, LEFT, DOWN = range(6)
FACE_NAMES = ("UP", "FRONT", "RIGHT", "BACK", "LEFT", "DOWN")
AMOUNT_NAMES = ("clockwise", "anticlockwise", "half-turn")  # action index 0, 1, 2 (docs)
NORMALS: Dict[int, Tuple[int, int, int]] = {
    UP: (0, 0, 1), FRONT: (0, -1, 0), RIGHT: (1, 0, 0), BACK: (0, 1, 0), LEFT: (-1, 0, 0), DOWN: (0, 0, -1),
}
#: rotation angle in quarter turns about the *outward normal* (right-hand rule) per amount index
QUARTERS = (-1, +1, 2)


def facelet_position(n: int, face: int, r: int, c: int) -> Tuple[int, int, int]:
    """Cubie coordinates of the cubie carrying facelet (face, r, c)."""
    if face == UP:
        return (c, n - 1 - r, n - 1)
    if face == FRONT:
        return (c, 0, n - 1 - r)
    if face == RIGHT:
        return (n - 1, c, n - 1 - r)
    if face == BACK:
        return (n - 1 - c, n - 1, n - 1 - r)
    if face == LEFT:
        return (0, n - 1 - c, n - 1 - r)
    if face == DOWN:
        return (c, r, 0)
    raise ValueError(face)


def _cross(u: Sequence[int], v: Sequence[int]) -> Tuple[int, int, int]:
    return (u[1] * v[2] - u[2] * v[1], u[2] * v[0] - u[0] * v[2], u[0] * v[1] - u[1] * v[0])


def _dot(u: Sequence[int], v: Sequence[int]) -> int:
    return u[0] * v[0] + u[1] * v[1] + u[2] * v[2]


def rotate(v: Sequence[int], axis: Sequence[int], quarters: int) -> Tuple[int, int, int]:
    """Rotate integer vector v by quarters·90° about the unit axis (right-hand rule); Rodrigues:
    v' = v cosθ + (u×v) sinθ + u (u·v)(1 − cosθ)."""
    q = quarters % 4
    cos, sin = ((1, 0), (0, 1), (-1, 0), (0, -1))[q]
    uxv, udv = _cross(axis, v), _dot(axis, v)
    return tuple(v[i] * cos + uxv[i] * sin + axis[i] * udv * (1 - cos) for i in range(3))  # type: ignore


@functools.lru_cache(maxsize=None)
def sticker_table(n: int) -> Tuple[Tuple[Tuple[int, int, int], Tuple[int, int, int]], ...]:
    """For each flattened facelet index: (centred doubled cubie position, normal)."""
    out = []
    for f in range(6):
        for r in range(n):
            for c in range(n):
                p = facelet_position(n, f, r, c)
                out.append((tuple(2 * x - (n - 1) for x in p), NORMALS[f]))
    assert len(set(out)) == 6 * n * n, "facelet table is not injective"
    return tuple(out)


@functools.lru_cache(maxsize=None)
def _sticker_index(n: int) -> Dict[Tuple[Tuple[int, int, int], Tuple[int, int, int]], int]:
    return {s: i for i, s in enumerate(sticker_table(n))}


@functools.lru_cache(maxsize=None)
def _move_perm_cached(n: int, face: int, depth: int, amount: int) -> bytes:
    if not (0 <= face < 6 and 0 <= depth < n and 0 <= amount < 3):
        raise ValueError((n, face, depth, amount))
    axis = NORMALS[face]
    q = QUARTERS[amount]
    layer = (n - 1) - 2 * depth  # P·axis of the layer at distance `depth` from the face
    table, index = sticker_table(n), _sticker_index(n)
    perm = np.arange(6 * n * n, dtype=np.int64)
    for i, (P, N) in enumerate(table):
        if _dot(P, axis) != layer:
            continue
        j = index[(rotate(P, axis, q), rotate(N, axis, q))]
        perm[j] = i  # the sticker that was at i is now at j
    return perm.tobytes()


def move_perm(n: int, face: int, depth: int, amount: int) -> np.ndarray:
    """Gather permutation of the physical move (face 0..5, depth 0..n-1, amount 0 cw / 1 ccw / 2 half)."""
    return np.frombuffer(_move_perm_cached(n, face, depth, amount), dtype=np.int64).copy()


def n_moves(n: int) -> int:
    return 6 * (n // 2) * 3


def flat_of(n: int, face: int, depth: int, amount: int) -> int:
    """Documented flat index: position in the sequence face-major, then depth, then amount."""
    return (face * (n // 2) + depth) * 3 + amount


def triple_of(n: int, flat: int) -> Tuple[int, int, int]:
    fd, amount = divmod(flat, 3)
    face, depth = divmod(fd, n // 2)
    return face, depth, amount


def all_move_perms(n: int) -> np.ndarray:
    """[18·⌊n/2⌋, 6n²] gather permutations in flat-action order."""
    return np.stack([move_perm(n, *triple_of(n, k)) for k in range(n_moves(n))])


def solved_cube(n: int) -> np.ndarray:
    """Documented goal: every sticker of face f has colour f."""
    return np.repeat(np.arange(6, dtype=np.int8), n * n).reshape(6, n, n)


def is_solved(cube: np.ndarray) -> np.ndarray:
    """Goal test from the docs: every face uniformly coloured.  cube[..., 6, n, n] -> bool[...]."""
    c = np.asarray(cube)
    flat = c.reshape(c.shape[:-2] + (-1,))
    return np.all(flat == flat[..., :1], axis=(-1, -2))


def apply_perm(cube_flat: np.ndarray, perm: np.ndarray) -> np.ndarray:
    return np.asarray(cube_flat)[..., perm]


def apply_moves(cube_flat: np.ndarray, n: int, flats: Sequence[int]) -> np.ndarray:
    P = all_move_perms(n)
    out = np.asarray(cube_flat)
    for k in flats:
        out = out[..., P[int(k)]]
    return out


def bfs_ball(n: int, depth: int) -> Tuple[np.ndarray, np.ndarray]:
    """All colourings reachable from the solved cube in ≤ depth reference moves.
    Returns (states[m, 6n²] int8 in discovery order, dist[m])."""
    P = all_move_perms(n)
    start = solved_cube(n).reshape(-1)
    seen = {start.tobytes(): 0}
    states, dist = [start], [0]
    frontier = start[None, :]
    for d in range(1, depth + 1):
        succ = frontier[:, P].reshape(-1, start.size)
        new = []
        for row in succ:
            k = row.tobytes()
            if k not in seen:
                seen[k] = d
                new.append(row)
        if not new:
            break
        frontier = np.stack(new)
        states += new
        dist += [d] * len(new)
    return np.stack(states), np.asarray(dist)


# ---------------------------------------------------------------------------------------------
# Reachability invariants (used for scrambles too long for the BFS ball)
# ---------------------------------------------------------------------------------------------

@functools.lru_cache(maxsize=None)
def cubies(n: int) -> Dict[Tuple[int, int, int], List[Tuple[Tuple[int, int, int], int]]]:
    """cubie position (centred doubled) -> [(normal, flat facelet index), ...]"""
    out: Dict[Tuple[int, int, int], List[Tuple[Tuple[int, int, int], int]]] = {}
    for i, (P, N) in enumerate(sticker_table(n)):
        out.setdefault(P, []).append((N, i))
    return out


def _det(a: Sequence[int], b: Sequence[int], c: Sequence[int]) -> int:
    return _dot(a, _cross(b, c))


def _perm_sign(p: Sequence[int]) -> int:
    p = list(p)
    sign, seen = 1, [False] * len(p)
    for i in range(len(p)):
        if seen[i]:
            continue
        j, ln = i, 0
        while not seen[j]:
            seen[j] = True
            j = p[j]
            ln += 1
        if ln % 2 == 0:
            sign = -sign
    return sign


def unreachable_reasons(cube: np.ndarray) -> List[str]:
    """Necessary conditions for a colouring to be reachable from the solved cube by layer turns;
    necessary *and sufficient* for n = 2 and n = 3 (the classical solvability theorem: valid cubies,
    corner twist ≡ 0 mod 3, edge flip ≡ 0 mod 2, corner and edge permutation parities equal, centres in
    place).  For n ≥ 4 only the colour counts, fixed centre (odd n) and the corner conditions are tested.
    Returns the list of broken conditions (empty = passes)."""
    cube = np.asarray(cube)
    n = cube.shape[-1]
    flat = cube.reshape(-1).astype(int)
    bad: List[str] = []
    if sorted(flat.tolist()) != sorted(np.repeat(np.arange(6), n * n).tolist()):
        return ["colour-counts"]
    ext = n - 1  # |coordinate| of an outer layer in centred doubled coordinates
    corner_pos, corner_home, twist = [], [], 0
    edge_pos, edge_home, flip = [], [], 0
    for P, st in cubies(n).items():
        if len(st) == 3:  # corner
            normals = [N for N, _ in st]
            cols = [NORMALS[int(flat[i])] for _, i in st]
            # the colours' home normals must be the image of the sticker normals under a rotation
            if any(_dot(cols[i], cols[j]) != 0 for i, j in ((0, 1), (0, 2), (1, 2))) or \
                    _det(*cols) != _det(*normals):
                bad.append("invalid-corner-cubie")
                continue
            home = tuple(ext * sum(c[k] for c in cols) for k in range(3))
            corner_pos.append(P)
            corner_home.append(home)
            # twist: position (in clockwise order seen from outside the corner, starting at the
            # sticker facing up/down) of the sticker that carries the up/down colour
            order = sorted(range(3), key=lambda k: 0 if normals[k][2] != 0 else 1)
            a, b, c = order[0], order[1], order[2]
            if _det(normals[a], normals[b], normals[c]) > 0:  # make (a, b, c) clockwise = left-handed
                b, c = c, b
            seq = [a, b, c]
            twist += next(k for k, s in enumerate(seq) if cols[s][2] != 0)
        elif n == 3 and len(st) == 2:  # edge of the 3×3×3
            normals = [N for N, _ in st]
            cols = [NORMALS[int(flat[i])] for _, i in st]
            if _dot(cols[0], cols[1]) != 0:
                bad.append("invalid-edge-cubie")
                continue
            home = tuple(ext * (cols[0][k] + cols[1][k]) for k in range(3))
            edge_pos.append(P)
            edge_home.append(home)

            def primary(vs: List[Tuple[int, int, int]]) -> int:
                for k, v in enumerate(vs):
                    if v[2] != 0:
                        return k
                for k, v in enumerate(vs):
                    if v[1] != 0:
                        return k
                raise AssertionError

            flip += 0 if primary(normals) == primary(cols) else 1
        elif len(st) == 1 and n % 2 == 1 and P.count(0) == 2:  # the fixed face centre of odd cubes
            N, i = st[0]
            if NORMALS[int(flat[i])] != N:
                bad.append("centre-moved")
    if "invalid-corner-cubie" in bad or "invalid-edge-cubie" in bad:
        return sorted(set(bad))
    if sorted(corner_home) != sorted(corner_pos):
        bad.append("corner-cubies-not-a-permutation")
        return sorted(set(bad))
    if twist % 3 != 0:
        bad.append("corner-twist")
    if n == 3:
        if sorted(edge_home) != sorted(edge_pos):
            bad.append("edge-cubies-not-a-permutation")
            return sorted(set(bad))
        if flip % 2 != 0:
            bad.append("edge-flip")
        cidx = {p: k for k, p in enumerate(sorted(corner_pos))}
        eidx = {p: k for k, p in enumerate(sorted(edge_pos))}
        cperm = [0] * 8
        for p, h in zip(corner_pos, corner_home):
            cperm[cidx[p]] = cidx[h]
        eperm = [0] * 12
        for p, h in zip(edge_pos, edge_home):
            eperm[eidx[p]] = eidx[h]
        if _perm_sign(cperm) != _perm_sign(eperm):
            bad.append("permutation-parity")
    return sorted(set(bad))


def crafted_unreachable(n: int) -> List[Tuple[str, np.ndarray]]:
    """Colourings that are NOT reachable (used to show that `unreachable_reasons` is not vacuous)."""
    out: List[Tuple[str, np.ndarray]] = []
    base = solved_cube(n).reshape(-1)
    cb = cubies(n)
    corner = next(st for P, st in cb.items() if len(st) == 3)
    idx = [i for _, i in corner]
    t = base.copy()
    t[idx] = base[[idx[1], idx[2], idx[0]]]
    out.append(("single-corner-twist", t.reshape(6, n, n)))
    t = base.copy()
    t[[idx[0], idx[1]]] = base[[idx[1], idx[0]]]
    out.append(("mirrored-corner", t.reshape(6, n, n)))
    t = base.copy()
    t[0] = base[-1]
    out.append(("colour-count", t.reshape(6, n, n)))
    if n == 3:
        edges = [st for P, st in cb.items() if len(st) == 2]
        e0 = [i for _, i in edges[0]]
        t = base.copy()
        t[e0] = base[e0[::-1]]
        out.append(("single-edge-flip", t.reshape(6, n, n)))
        # swap two edge cubies that share a face (keeps orientation conventions simple)
        for e1 in edges[1:]:
            shared = [(a, b) for a in edges[0] for b in e1 if a[0] == b[0]]
            if shared:
                (na, ia), (nb, ib) = shared[0]
                oa = next(i for N, i in edges[0] if i != ia)
                ob = next(i for N, i in e1 if i != ib)
                t = base.copy()
                t[[ia, ib]] = base[[ib, ia]]
                t[[oa, ob]] = base[[ob, oa]]
                out.append(("two-edge-swap", t.reshape(6, n, n)))
                break
    return out


def labelings(n: int) -> List[np.ndarray]:
    """Three injective sticker labelings (int32, [6n²]) used to show value-independence."""
    N = 6 * n * n
    i = np.arange(N, dtype=np.int64)
    k = next(k for k in itertools.count(N // 2 + 1) if np.gcd(k, N) == 1)
    return [i.astype(np.int32), ((N - 1 - i) * 3 + 7).astype(np.int32), ((i * k + 5) % N + 1000).astype(np.int32)]
