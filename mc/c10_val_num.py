"""C10 validators for graph / numeric instance generators: MMST, GraphColoring, JobShop, Knapsack, TSP,
CVRP, MultiCVRP.  From the docs and generator docstrings; one instance in, (what-fails, message) list out.
"""
from __future__ import annotations

from typing import Any, Dict, List, Tuple

from mc import boot  # noqa: F401

import numpy as np

Problem = Tuple[str, str]


def _scalar(x: Any) -> int:
    return int(np.asarray(x).reshape(-1)[0])


def components(adj: np.ndarray) -> np.ndarray:
    """Component label per node of an undirected graph given as a boolean adjacency matrix."""
    n = len(adj)
    lab = -np.ones(n, np.int64)
    c = 0
    for s in range(n):
        if lab[s] >= 0:
            continue
        lab[s] = c
        stack = [s]
        while stack:
            u = stack.pop()
            for v in np.nonzero(adj[u])[0]:
                if lab[v] < 0:
                    lab[v] = c
                    stack.append(int(v))
        c += 1
    return lab


def _unit_box(x: np.ndarray, lo: float, hi: float) -> bool:
    return bool(np.isfinite(x).all() and (x >= lo).all() and (x <= hi).all())


# ------------------------------------------------------------------------------------------------- mmst
def v_mmst(inst: Any, p: Dict[str, Any], ctx: Dict[str, Any]) -> List[Problem]:
    """SplitRandomGenerator: 'a random environments that is solvable by spliting the graph into sub graphs.
    Returns a graph and with a desired number of edges and nodes to connect per agent'; docs: 'a random
    connected graph'; `max_degree`: 'maximum degree a node can have'.
    Solvability witness: agent k's nodes all lie in the k-th block of np.array_split(nodes, num_agents) and
    are connected inside the subgraph induced by that block, so the agents can use disjoint node sets."""
    out: List[Problem] = []
    N, E, D, A, M = p["nodes"], p["edges"], p["max_degree"], p["agents"], p["per_agent"]
    adj = np.asarray(inst.adj_matrix)
    if adj.shape != (N, N):
        return [("adjacency-shape", f"adj_matrix has shape {adj.shape}")]
    if not np.isin(adj, (0, 1)).all():
        out.append(("adjacency-not-binary", f"values {np.unique(adj).tolist()}"))
    a = adj != 0
    if not np.array_equal(a, a.T):
        out.append(("adjacency-not-symmetric", f"{int((a != a.T).sum())} asymmetric entries"))
    if a.diagonal().any():
        out.append(("self-loop", f"self loops at nodes {np.nonzero(a.diagonal())[0].tolist()}"))
    if out:
        return out
    ne = int(a.sum()) // 2
    if ne != E:
        out.append(("edge-count-differs-from-num-edges", f"{ne} edges, num_edges={E}"))
    deg = a.sum(axis=1)
    ctx["facts"]["max_degree_seen"] = max(int(deg.max()), ctx["facts"].get("max_degree_seen", 0))
    if (deg > D).any():
        ctx["count"]["mmst_instances_with_degree_above_max_degree"] += 1
        out.append(("node-degree-exceeds-max-degree",
                    f"node {int(deg.argmax())} has degree {int(deg.max())}, max_degree={D} "
                    f"(degrees {deg.tolist()})"))
    lab = components(a)
    iso = np.nonzero(deg == 0)[0]
    if len(iso) and N > 1:  # stronger than 'several components': a node no agent can ever reach or leave
        out.append(("isolated-node", f"nodes {iso.tolist()} have no edge at all (degrees {deg.tolist()})"))
    if lab.max() != 0:
        out.append(("graph-not-connected", f"{int(lab.max()) + 1} connected components"))
    ntc = np.asarray(inst.nodes_to_connect)
    if ntc.shape != (A, M):
        out.append(("nodes-to-connect-shape", f"{ntc.shape}, expected ({A},{M})"))
        return out
    if ((ntc < 0) | (ntc >= N)).any():
        out.append(("node-to-connect-outside-graph", f"nodes_to_connect={ntc.tolist()}"))
        return out
    flat = ntc.ravel().tolist()
    if len(set(flat)) != A * M:
        out.append(("agents-node-sets-overlap", f"nodes_to_connect={ntc.tolist()}"))
    blocks = np.array_split(np.arange(N), A)
    for k in range(A):
        blk = blocks[k]
        mine = ntc[k]
        if not np.isin(mine, blk).all():
            out.append(("agent-node-outside-own-subgraph", f"agent {k}: nodes {mine.tolist()} not inside its block {blk[0]}..{blk[-1]}"))
            continue
        sub = a[np.ix_(blk, blk)]
        sl = components(sub)
        if len(set(sl[mine - blk[0]].tolist())) != 1:
            out.append(("agent-nodes-not-connected-within-own-subgraph",
                        f"agent {k}: nodes {mine.tolist()} are in different components of the subgraph on {blk[0]}..{blk[-1]}"))
    nt = np.asarray(inst.node_types)
    want = -np.ones(N, np.int64)
    for k in range(A):
        want[ntc[k]] = k
    if len(set(flat)) == A * M and not np.array_equal(nt, want):
        out.append(("node-types-inconsistent", f"node_types={nt.tolist()} expected {want.tolist()}"))
    pos = np.asarray(inst.positions)
    if not np.array_equal(pos, ntc[:, 0]):
        out.append(("agent-does-not-start-on-own-node", f"positions={pos.tolist()}, first nodes to connect {ntc[:, 0].tolist()}"))
    cn = np.asarray(inst.connected_nodes)
    if not (np.array_equal(cn[:, 0], pos) and (cn[:, 1:] == -1).all()):
        out.append(("connected-nodes-initial", f"connected_nodes[:, :3]={cn[:, :3].tolist()} positions={pos.tolist()}"))
    am = np.asarray(inst.action_mask)
    if am.shape != (A, N) or not np.array_equal(am.astype(bool), a[pos]):
        out.append(("action-mask-differs-from-edges", "action_mask[k] is not the adjacency row of agent k's node"))
    if np.asarray(inst.finished_agents).any() or _scalar(inst.step_count) != 0:
        out.append(("initial-flags", "finished_agents / step_count not initial"))
    return out


# --------------------------------------------------------------------------------------- graph coloring
def v_graph_coloring(inst: Any, p: Dict[str, Any], ctx: Dict[str, Any]) -> List[Problem]:
    """RandomGenerator.__call__: 'a boolean array of shape (num_nodes, num_nodes) ... undirected (symmetric)
    and without self-loops'."""
    out: List[Problem] = []
    n = p["nodes"]
    adj = np.asarray(inst)
    if adj.shape != (n, n) or adj.dtype != np.bool_:
        return [("adjacency-shape-or-dtype", f"shape {adj.shape} dtype {adj.dtype}")]
    if not np.array_equal(adj, adj.T):
        out.append(("adjacency-not-symmetric", f"{int((adj != adj.T).sum())} asymmetric entries"))
    if adj.diagonal().any():
        out.append(("self-loop", f"self loops at {np.nonzero(adj.diagonal())[0].tolist()}"))
    ctx["count"]["graph_edges"] += int(adj.sum()) // 2
    ctx["count"]["graph_non_edges"] += (n * (n - 1)) // 2 - int(adj.sum()) // 2
    return out


def v_graph_coloring_reset(inst: Any, p: Dict[str, Any], ctx: Dict[str, Any]) -> List[Problem]:
    st = inst["state"]
    out = v_graph_coloring(st.adj_matrix, p, ctx)
    n = p["nodes"]
    if (np.asarray(st.colors) != -1).any():
        out.append(("colors-not-empty", f"colors={np.asarray(st.colors).tolist()}"))
    if _scalar(st.current_node_index) != 0:
        out.append(("current-node-not-zero", f"current_node_index={_scalar(st.current_node_index)}"))
    am = np.asarray(st.action_mask)
    if am.shape != (n,) or not am.all():
        out.append(("initial-action-mask", f"action_mask={am.tolist()} on an uncoloured graph"))
    if not np.array_equal(np.asarray(inst["observation"].adj_matrix), np.asarray(st.adj_matrix)):
        out.append(("observation-differs-from-state", "observed adjacency differs from the state"))
    return out


# ---------------------------------------------------------------------------------------------- job shop
def v_job_shop(inst: Any, p: Dict[str, Any], ctx: Dict[str, Any]) -> List[Problem]:
    """docs/job_shop.md + RandomGenerator docstring: per job a number of ops, each with a machine id in
    [0, num_machines) and a duration in [1, max_op_duration]; -1 pads jobs with fewer ops (padding at the
    end); ops_mask marks the real ops; all machines idle (job id = num_jobs), nothing scheduled."""
    out: List[Problem] = []
    J, M, O, D = p["jobs"], p["machines"], p["max_ops"], p["max_duration"]
    mid, dur, mask = np.asarray(inst.ops_machine_ids), np.asarray(inst.ops_durations), np.asarray(inst.ops_mask)
    if mid.shape != (J, O) or dur.shape != (J, O) or mask.shape != (J, O):
        return [("shape", f"ops arrays {mid.shape} {dur.shape} {mask.shape}, expected ({J},{O})")]
    mask = mask.astype(bool)
    if not np.array_equal(mask, mid != -1) or not np.array_equal(mask, dur != -1):
        out.append(("ops-mask-inconsistent-with-padding", f"ops_mask={mask.tolist()} machine_ids={mid.tolist()} durations={dur.tolist()}"))
    if ((mid[mask] < 0) | (mid[mask] >= M)).any():
        out.append(("machine-id-out-of-range", f"machine ids {mid.tolist()} with {M} machines"))
    if ((dur[mask] < 1) | (dur[mask] > D)).any():
        out.append(("duration-out-of-range", f"durations {dur.tolist()}, max_op_duration={D}"))
    nops = mask.sum(axis=1)
    prefix = np.arange(O)[None, :] < nops[:, None]
    if not np.array_equal(mask, prefix):
        out.append(("padding-not-at-the-end", f"ops_mask={mask.tolist()}"))
    ctx["count"]["jobshop_jobs_without_operations"] += int((nops == 0).sum())  # not excluded by the docs
    if not (np.asarray(inst.machines_job_ids) == J).all() or np.asarray(inst.machines_remaining_times).any():
        out.append(("machines-not-idle", f"machines_job_ids={np.asarray(inst.machines_job_ids).tolist()}"))
    if (np.asarray(inst.scheduled_times) != -1).any() or _scalar(inst.step_count) != 0:
        out.append(("schedule-not-empty", "scheduled_times / step_count not initial"))
    if p.get("optimal_makespan") is not None and not out:
        load = max(int(dur[mask & (mid == m)].sum()) for m in range(M))
        length = int(np.where(mask, dur, 0).sum(axis=1).max())
        if max(load, length) > p["optimal_makespan"]:
            out.append(("advertised-makespan-below-lower-bound",
                        f"advertised optimal makespan {p['optimal_makespan']} but machine load {load} / job length {length}"))
    ctx["count"]["jobshop_ops"] += int(mask.sum())
    ctx["count"]["jobshop_padded_ops"] += int((~mask).sum())
    return out


# ------------------------------------------------------------------------------- knapsack / tsp / cvrp
def v_knapsack(inst: Any, p: Dict[str, Any], ctx: Dict[str, Any]) -> List[Problem]:
    """RandomGenerator: weights and values 'randomly sampled from a uniform distribution on the unit
    square'; nothing packed; remaining budget = total budget."""
    out: List[Problem] = []
    n = p["items"]
    w, v = np.asarray(inst.weights), np.asarray(inst.values)
    if w.shape != (n,) or v.shape != (n,):
        return [("shape", f"weights {w.shape} values {v.shape}")]
    if not _unit_box(w, 0.0, 1.0) or not _unit_box(v, 0.0, 1.0):
        out.append(("weight-or-value-outside-unit-interval", f"weights [{w.min()},{w.max()}] values [{v.min()},{v.max()}]"))
    if np.asarray(inst.packed_items).any():
        out.append(("items-packed-at-reset", "packed_items not all False"))
    if not np.isclose(float(np.asarray(inst.remaining_budget)), p["budget"], rtol=1e-5, atol=1e-6):
        out.append(("remaining-budget-differs-from-total", f"remaining_budget={float(np.asarray(inst.remaining_budget))} total_budget={p['budget']}"))
    return out


def v_tsp(inst: Any, p: Dict[str, Any], ctx: Dict[str, Any]) -> List[Problem]:
    """UniformGenerator: city coordinates uniform on the unit square; nothing visited."""
    out: List[Problem] = []
    n = p["cities"]
    c = np.asarray(inst.coordinates)
    if c.shape != (n, 2):
        return [("shape", f"coordinates {c.shape}")]
    if not _unit_box(c, 0.0, 1.0):
        out.append(("coordinate-outside-unit-square", f"range [{c.min()},{c.max()}]"))
    if np.asarray(inst.visited_mask).any() or _scalar(inst.num_visited) != 0 or (np.asarray(inst.trajectory) != -1).any():
        out.append(("tour-not-empty", "visited_mask / num_visited / trajectory not initial"))
    return out


def v_cvrp(inst: Any, p: Dict[str, Any], ctx: Dict[str, Any]) -> List[Problem]:
    """UniformGenerator: coordinates uniform on the unit square; demands integers from [1, max_demand],
    depot demand 0; statement: demands never exceed capacity; capacity starts at max_capacity, vehicle at
    the depot."""
    out: List[Problem] = []
    n, cap, dmax = p["nodes"], p["max_capacity"], p["max_demand"]
    c, d = np.asarray(inst.coordinates), np.asarray(inst.demands)
    if c.shape != (n + 1, 2) or d.shape != (n + 1,):
        return [("shape", f"coordinates {c.shape} demands {d.shape}")]
    if not _unit_box(c, 0.0, 1.0):
        out.append(("coordinate-outside-unit-square", f"range [{c.min()},{c.max()}]"))
    if d[0] != 0:
        out.append(("depot-demand-not-zero", f"demands[0]={int(d[0])}"))
    if (d[1:] < 1).any() or (d[1:] > dmax).any():
        out.append(("demand-outside-advertised-interval", f"demands {d[1:].tolist()}, interval [1,{dmax}]"))
    if (d > cap).any():
        out.append(("demand-exceeds-capacity", f"demands {d.tolist()}, capacity {cap}"))
    if _scalar(inst.capacity) != cap or _scalar(inst.position) != 0:
        out.append(("vehicle-not-initial", f"capacity={_scalar(inst.capacity)} position={_scalar(inst.position)}"))
    vm = np.asarray(inst.visited_mask)
    if not vm[0] or vm[1:].any():
        out.append(("visited-mask-not-initial", f"visited_mask={vm.tolist()}"))
    ctx["facts"]["max_demand_seen"] = max(ctx["facts"].get("max_demand_seen", 0), int(d.max()))
    return out


def v_multi_cvrp(inst: Any, p: Dict[str, Any], ctx: Dict[str, Any]) -> List[Problem]:
    """docs/multi_cvrp.md: coordinates 'sampled from a uniform distribution inside the map boundries';
    depot demand 0; statement: demands never exceed (vehicle) capacity; soft time windows start <= end;
    all vehicles start at the depot with full capacity."""
    out: List[Problem] = []
    n, V = p["customers"], p["vehicles"]
    g = ctx["obj"]
    map_max, cap, dmax = float(g._map_max), int(g._max_capacity), int(g._customer_demand_max)
    c, d = np.asarray(inst.nodes.coordinates), np.asarray(inst.nodes.demands)
    if c.shape != (n + 1, 2) or d.shape != (n + 1,):
        return [("shape", f"coordinates {c.shape} demands {d.shape}")]
    if not _unit_box(c, 0.0, map_max):
        out.append(("coordinate-outside-map", f"range [{c.min()},{c.max()}], map [0,{map_max}]"))
    if d[0] != 0:
        out.append(("depot-demand-not-zero", f"demands[0]={int(d[0])}"))
    if (d < 0).any():
        out.append(("negative-demand", f"demands {d.tolist()}"))
    if (d > cap).any():
        out.append(("demand-exceeds-capacity", f"demands {d.tolist()}, vehicle capacity {cap}"))
    if (d > dmax).any():
        out.append(("demand-exceeds-customer-demand-max", f"demands {d.tolist()}, customer_demand_max {dmax}"))
    ws, we = np.asarray(inst.windows.start), np.asarray(inst.windows.end)
    if not (np.isfinite(ws).all() and np.isfinite(we).all() and (ws <= we).all()):
        out.append(("time-window-start-after-end", f"start {ws.tolist()} end {we.tolist()}"))
    if (ws < 0).any():
        out.append(("time-window-negative", f"start {ws.tolist()}"))
    ce, cl = np.asarray(inst.coeffs.early), np.asarray(inst.coeffs.late)
    if (ce < 0).any() or (cl < 0).any():
        out.append(("negative-penalty-coefficient", f"early {ce.tolist()} late {cl.tolist()}"))
    veh = inst.vehicles
    if np.asarray(veh.positions).any() or (np.asarray(veh.capacities) != cap).any() or np.asarray(veh.capacities).shape != (V,):
        out.append(("vehicles-not-initial", f"positions {np.asarray(veh.positions).tolist()} capacities {np.asarray(veh.capacities).tolist()}"))
    am = np.asarray(inst.action_mask)
    want = (d[None, :] > 0) & (d[None, :] <= cap)
    want = np.repeat(want, V, axis=0)
    want[:, 0] = True
    if am.shape != (V, n + 1) or not np.array_equal(am.astype(bool), want):
        out.append(("action-mask-inconsistent-with-demands", f"action_mask={am.astype(int).tolist()} demands={d.tolist()}"))
    ctx["count"]["multicvrp_zero_demand_customers"] += int((d[1:] == 0).sum())
    ctx["count"]["multicvrp_customers"] += n
    return out


VALIDATORS = {"mmst": v_mmst, "graph_coloring": v_graph_coloring, "graph_coloring_reset": v_graph_coloring_reset,
              "job_shop": v_job_shop, "knapsack": v_knapsack, "tsp": v_tsp, "cvrp": v_cvrp,
              "multi_cvrp": v_multi_cvrp}
