"""C15 helpers — stateful model checking of the gym / dm_env adapters.

The adapters (`JumanjiToGymWrapper`, `JumanjiToDMEnvWrapper`) are the only objects of the library
that carry mutable state (`_key`, `_state`).  They are checked like any stateful API: **all**
operation histories up to a length bound are executed and every output is compared with a *pure
reference model* that drives the native `env.reset` / `env.step` with the documented key schedule

    key := PRNGKey(seed given to the constructor, to seed() or to reset(seed=))   (dm_env: the key
           given to the constructor, PRNGKey(0) when None)
    reset:  k, key = split(key);  state, ts = env.reset(k)
    step:   state, ts = env.step(state, a)

Histories.  gym alphabet {reset(), reset(seed=1), reset(seed=2), seed(1), step(a0), step(a1)} to the
full length bound and the same alphabet + reset(seed=0) to the bound minus one,
dm_env alphabet {reset(), step(a0), step(a1)}.  Histories in which a `step` precedes the first
`reset` are *skipped* (outside the documented API; `seed(1)` may come first).  Every maximal
history is run from the constructor state and checked after every operation, so every shorter
history is checked as a prefix; `states` counts the distinct valid prefixes.

Freshness.  An adapter cannot be copied and jit-compiles its own closures, so one adapter object is
built per (configuration, constructor seed/key); between histories its two documented private
fields are put back to the values *captured right after construction* (so the constructor's own
seed handling is under test) and it is asserted that no other instance attribute changed (otherwise
the restoration would not simulate a new object and the run fails with an error).  A seed-rotated
subset of the maximal histories is additionally run on genuinely new adapter objects (`validated`).

Decisions about the oracle (what the C15 statement does and does not say):
* steps issued after a LAST step are still compared with the native API stepping the terminal
  state (that is what "the same ... as driving the native API" means), but their observations are
  not required to lie in the converted space (C01 does not cover post-terminal observations).
* dm_env: the wrapper's `step` docstring promises that a step after LAST, or before the first
  reset, starts a new sequence.  The code does not do that (after LAST it steps the terminal
  state natively; before reset it raises AttributeError on `_state`).  The C15 statement does not
  mention either case, so neither is a violation; both outcomes are recorded in the evidence
  (`dm_post_last_relayed/restarted`, `dm_step_before_reset_*`).  A post-LAST dm_env step is
  accepted if it is either the native relay or a proper restart under the next key of the schedule.
* dm_env observations keep the native container type (NamedTuple / dataclass) while the converted
  spec is a dict keyed by field name: fields are matched by name, the container type is not compared.
* observation ∈ converted space: the deciding test is the library-independent membership test
  written here (exact dtype and shape, inclusive bounds) *and* `space.contains` / `spec.validate`;
  a leaf that also violates the native spec (defects #4–#6 of DESIGN §5 seen through the adapter)
  is tagged `native-spec-also-violated` so it can be told apart from a conversion fault.
"""
from __future__ import annotations

import hashlib
import itertools
import time
from typing import Any, Dict, List, Optional, Sequence, Tuple

from mc import boot  # noqa: F401

import jax
import jax.numpy as jnp
import numpy as np

from mc import catalog, speccheck
from mc.engine import leaf_diff, to_np
from mc.report import Violation

PID = "C15"

RW_TINY = catalog.RW_TINY

# family -> [(model name, constructor expression)]; quick tier uses the first, thorough all.
# Multi-agent environments with per-agent reward/discount sit behind MultiToSingleWrapper (MTS).
CONFIGS: Dict[str, List[Tuple[str, str]]] = {
    "game_2048": [("game2048-2x2", "Game2048(2)")],
    "graph_coloring": [("graphcol-4", "GraphColoring(G.graph_coloring.RandomGenerator(4, 0.5))")],
    "minesweeper": [("mines-4x3-11", "Minesweeper(G.minesweeper.UniformSamplingGenerator(4, 3, 11))"),
                    ("mines-3x3-2", "Minesweeper(G.minesweeper.UniformSamplingGenerator(3, 3, 2))")],
    "rubiks_cube": [("rubik-2-T2", "RubiksCube(G.rubiks_cube.ScramblingGenerator(2, 3), time_limit=2)"),
                    ("rubik-2-T1", "RubiksCube(G.rubiks_cube.ScramblingGenerator(2, 0), time_limit=1)")],
    "sliding_tile_puzzle": [
        ("slide-2-T2", "SlidingTilePuzzle(G.sliding_tile_puzzle.RandomWalkGenerator(2, 10), time_limit=2)"),
        ("slide-3-sparse-T1", "SlidingTilePuzzle(G.sliding_tile_puzzle.RandomWalkGenerator(3, 2), "
                              "reward_fn=R.sliding_tile_puzzle.SparseRewardFn(), time_limit=1)")],
    "sudoku": [("sudoku-near", "Sudoku(INJ.sudoku_near_complete(4))")],
    "bin_pack": [("binpack-5", "BinPack(G.bin_pack.RandomGenerator(5, 10, split_num_same_items=2), obs_num_ems=6)")],
    "flat_pack": [("flatpack-2x2", "FlatPack(G.flat_pack.RandomFlatPackGenerator(2, 2))")],
    "job_shop": [("jobshop-2311", "JobShop(G.job_shop.RandomGenerator(2, 3, 1, 1))"),
                 ("jobshop-2222", "JobShop(G.job_shop.RandomGenerator(2, 2, 2, 2))")],
    "knapsack": [("knapsack-4-tight", "Knapsack(G.knapsack.RandomGenerator(4, 0.1))"),
                 ("knapsack-5-sparse", "Knapsack(G.knapsack.RandomGenerator(5, 1.0), reward_fn=R.knapsack.SparseReward())")],
    "tetris": [("tetris-4x7-T2", "Tetris(4, 7, 2)"), ("tetris-6x5-T1", "Tetris(6, 5, 1)")],
    "cleaner": [("cleaner-3x4x2-T2", "Cleaner(G.cleaner.RandomGenerator(3, 4, 2), time_limit=2)"),
                ("cleaner-5x3x2-T1", "Cleaner(G.cleaner.RandomGenerator(5, 3, 2), time_limit=1)")],
    "connector": [("mts-connector-3x2-T2", "MTS(Connector(G.connector.UniformRandomGenerator(3, 2), time_limit=2))"),
                  ("mts-connector-4x2-T1", "MTS(Connector(G.connector.UniformRandomGenerator(4, 2), time_limit=1))")],
    "cvrp": [("cvrp-3-sparse-tight", "CVRP(G.cvrp.UniformGenerator(3, 5, 5), reward_fn=R.cvrp.SparseReward())"),
             ("cvrp-4", "CVRP(G.cvrp.UniformGenerator(4, 10, 5))")],
    "lbf": [("mts-lbf-5-fov1-T2", "MTS(LevelBasedForaging(G.lbf.RandomGenerator(5, 2, 1, fov=1), time_limit=2))"),
            ("mts-lbf-6x3x2-grid-T1", "MTS(LevelBasedForaging(G.lbf.RandomGenerator(6, 3, 2, fov=2, "
                                       "force_coop=True), grid_observation=True, time_limit=1))")],
    "maze": [("maze-5x5-T2", "Maze(G.maze.RandomGenerator(5, 5), time_limit=2)"),
             ("maze-toy-T1", "Maze(G.maze.ToyGenerator(), time_limit=1)")],
    "mmst": [("mmst-12-T2", "MMST(G.mmst.SplitRandomGenerator(12, 18, 4, 2, 3, 2), time_limit=2)"),
             ("mmst-12-T1", "MMST(G.mmst.SplitRandomGenerator(12, 18, 4, 2, 3, 1), time_limit=1)")],
    "multi_cvrp": [("mcvrp-6x2", "MultiCVRP(G.multi_cvrp.UniformRandomGenerator(6, 2))")],
    "pac_man": [("pacman-T2", "PacMan(time_limit=2)")],
    "robot_warehouse": [("rware-tiny-T2", f"RobotWarehouse(G.robot_warehouse.RandomGenerator({RW_TINY}), time_limit=2)")],
    "snake": [("snake-3x3-T2", "Snake(3, 3, 2)"), ("snake-2x5-T1", "Snake(2, 5, 1)")],
    "sokoban": [("sokoban-toy-sparse-T2", "Sokoban(G.sokoban.ToyGenerator(), reward_fn=R.sokoban.SparseReward(), time_limit=2)"),
                ("sokoban-toy-T1", "Sokoban(G.sokoban.ToyGenerator(), time_limit=1)")],
    "tsp": [("tsp-2", "TSP(G.tsp.UniformGenerator(2))"), ("tsp-4-sparse", "TSP(G.tsp.UniformGenerator(4), reward_fn=R.tsp.SparseReward())")],
}
assert sorted(CONFIGS) == catalog.FAMILIES

GYM_OPS: List[Tuple[str, Optional[int]]] = [
    ("reset", None), ("reset", 1), ("reset", 2), ("seed", 1), ("step", 0), ("step", 1)]
# reset(seed=0) is added on purpose (0 is the one seed a careless `if seed:` would drop); the
# 7-operation alphabet is explored one operation shallower than the 6-operation one.
GYM_OPS_EXT: List[Tuple[str, Optional[int]]] = GYM_OPS[:1] + [("reset", 0)] + GYM_OPS[1:]
DM_OPS: List[Tuple[str, Optional[int]]] = [("reset", None), ("step", 0), ("step", 1)]
GYM_CTOR_SEEDS = (0, 1)
DM_CTOR_KEYS: Tuple[Optional[int], ...] = (None, 1)  # None: documented default PRNGKey(0); 1: PRNGKey(1)

BOUNDS = {  # history length bound per tier
    "quick": dict(gym=4, dm=5, fresh=2),
    "thorough": dict(gym=5, dm=7, fresh=8),
}


# A scripted environment: with the two alphabet actions and the parity of the step number it emits ALL four
# combinations of (step type, discount) - (MID, 1), (MID, 0), (LAST, 0), (LAST, 1) - which no shipped single-agent
# environment does ((MID, 0) needs per-agent discounts behind a min-aggregating MultiToSingleWrapper, (LAST, 1) is
# LevelBasedForaging's truncation).  "terminated iff discount == 0" and "truncated iff LAST" are decided on it.
STUBS: List[Tuple[str, str]] = [("scripted-steptype-x-discount", "SCRIPTED()")]
_SCRIPTED = None


def scripted_env_class() -> Any:
    global _SCRIPTED
    if _SCRIPTED is not None:
        return _SCRIPTED
    import chex
    import jax.numpy as jnp
    from jumanji import specs
    from jumanji.env import Environment
    from jumanji.types import StepType, TimeStep, restart

    @chex.dataclass
    class _S:
        key: Any
        step_count: Any

    class Scripted(Environment):
        def reset(self, key: Any) -> Any:
            st = _S(key=key, step_count=jnp.zeros((), jnp.int32))
            return st, restart(observation=st.step_count)

        def step(self, state: Any, action: Any) -> Any:
            n = state.step_count + 1
            idx = jnp.asarray(action, jnp.int32) + 2 * ((n - 1) % 2)
            step_type = jnp.where(idx < 2, StepType.MID, StepType.LAST).astype(jnp.int8)
            discount = jnp.asarray([1.0, 0.0, 0.0, 1.0], jnp.float32)[idx]
            st = _S(key=state.key, step_count=n)
            ts = TimeStep(step_type=step_type, reward=n.astype(jnp.float32), discount=discount, observation=n, extras={})
            return st, ts

        @property
        def observation_spec(self) -> Any:
            return specs.BoundedArray((), jnp.int32, 0, 1000, "step_count")

        @property
        def action_spec(self) -> Any:
            return specs.DiscreteArray(2, name="action")

    _SCRIPTED = Scripted
    return Scripted


def namespace() -> Dict[str, Any]:
    ns = dict(catalog.namespace())
    from jumanji.wrappers import MultiToSingleWrapper

    ns["MTS"] = MultiToSingleWrapper
    ns["SCRIPTED"] = scripted_env_class()
    return ns


def make_env(ctor: str) -> Any:
    return eval(ctor, namespace())  # noqa: S307 - our own constructor strings


def op_str(op: Sequence[Any]) -> str:
    k, v = op
    if k == "reset":
        return "reset()" if v is None else f"reset(seed={v})"
    if k == "seed":
        return f"seed({v})"
    return f"step(a{v})"


def histories(ops: Sequence[Tuple[str, Optional[int]]], length: int) -> List[Tuple[Tuple[str, Optional[int]], ...]]:
    """All operation sequences of exactly `length` in which no step precedes the first reset."""
    out = []
    for h in itertools.product(ops, repeat=length):
        started = False
        ok = True
        for k, _ in h:
            if k == "reset":
                started = True
            elif k == "step" and not started:
                ok = False
                break
        if ok:
            out.append(h)
    return out


def gym_histories(length: int) -> List[Tuple[Tuple[str, Optional[int]], ...]]:
    """Maximal gym histories: all of length `length` over GYM_OPS, plus all of length `length-1`
    over GYM_OPS_EXT that use reset(seed=0) (the others are prefixes of the former)."""
    ext = [h for h in histories(GYM_OPS_EXT, length - 1) if ("reset", 0) in h]
    return histories(GYM_OPS, length) + ext


def n_prefixes(hs: Sequence[Tuple[Any, ...]]) -> int:
    return len({h[:i] for h in hs for i in range(1, len(h) + 1)})


# ---------------------------------------------------------------------------------------------
# actions of the alphabet
# ---------------------------------------------------------------------------------------------
def pick_actions(spec: Any) -> List[np.ndarray]:
    """a0 = generate_value(); a1 = another in-spec action (Discrete: 1 if it exists; product specs:
    one in every coordinate that admits it)."""
    from jumanji import specs

    a0 = np.asarray(spec.generate_value())
    dt = a0.dtype
    if isinstance(spec, specs.DiscreteArray):
        a1 = np.asarray(1 if int(spec.num_values) > 1 else 0, dtype=dt)
    elif isinstance(spec, specs.MultiDiscreteArray):
        nv = np.asarray(spec.num_values)
        a1 = np.minimum(1, nv - 1).astype(dt)
    else:
        lo = np.broadcast_to(np.asarray(spec.minimum), spec.shape)
        hi = np.broadcast_to(np.asarray(spec.maximum), spec.shape)
        a1 = np.clip(np.ones(spec.shape, np.int64), lo, hi).astype(dt)
    problems = speccheck.check(spec, a0, 0, "action") + speccheck.check(spec, a1, 0, "action")
    if problems:
        raise AssertionError(f"alphabet action outside the action spec: {problems}")
    return [a0, a1]


def gym_member(space: Any, a: np.ndarray) -> Any:
    """The same action expressed as a member of the converted gym action space."""
    import gymnasium as gym

    if isinstance(space, gym.spaces.Discrete):
        return np.int64(int(a))
    return np.asarray(a).astype(space.dtype)


# ---------------------------------------------------------------------------------------------
# independent conversions / membership tests
# ---------------------------------------------------------------------------------------------
def gym_tree(value: Any) -> Any:
    """Documented result of jumanji_to_gym_obs: 'Numpy array or nested dictionary of numpy arrays'
    (written independently: fields come from speccheck.fields)."""
    f = None if isinstance(value, (np.ndarray, jnp.ndarray)) else speccheck.fields(value)
    if f is None:
        return np.asarray(value)
    return {k: gym_tree(v) for k, v in f.items()}


def fast_equal(a: Any, b: Any) -> bool:
    """Cheap exact pre-test (structure, dtype, shape, bit-equal values); False only means 'look closer'."""
    la, ta = jax.tree_util.tree_flatten(a)
    lb, tb = jax.tree_util.tree_flatten(b)
    if ta != tb:
        return False
    for x, y in zip(la, lb):
        if type(x) is not np.ndarray or type(y) is not np.ndarray:
            return False
        if x.dtype != y.dtype or x.shape != y.shape or not np.array_equal(x, y):
            return False
    return True


def dict_tree_diff(got: Any, exp: Any, path: str = "obs") -> List[str]:
    """got must be a nested dict of numpy arrays equal to exp (dtype, shape, values)."""
    if isinstance(exp, dict):
        if not isinstance(got, dict):
            return [f"{path}: expected dict, got {type(got).__name__}"]
        out = []
        if set(got) != set(exp):
            out.append(f"{path}: keys {sorted(got)} != {sorted(exp)}")
        for k in exp:
            if k in got:
                out += dict_tree_diff(got[k], exp[k], f"{path}.{k}")
        return out
    if not isinstance(got, np.ndarray):
        return [f"{path}: leaf is {type(got).__name__}, not numpy.ndarray"]
    return [f"{path}{d}" for d in leaf_diff(got, exp)]


def _bounds_kind(x: np.ndarray, lo: np.ndarray, hi: np.ndarray) -> Optional[Tuple[str, str]]:
    xv = x.astype(np.float64)
    if x.dtype.kind == "f" and np.isnan(xv).any():
        return "nan", "NaN element"
    if (xv < np.asarray(lo, np.float64)).any():
        return "below-minimum", f"min element {xv.min()} < low {np.asarray(lo, np.float64).min()}"
    if (xv > np.asarray(hi, np.float64)).any():
        return "above-maximum", f"max element {xv.max()} > high {np.asarray(hi, np.float64).max()}"
    return None


def gym_space_problems(space: Any, obs: Any, path: str = "") -> List[Tuple[str, str, str, bool]]:
    """Independent membership test. Returns [(leaf path, kind, detail, library_contains)]."""
    import gymnasium as gym

    if isinstance(space, gym.spaces.Dict):
        if not isinstance(obs, dict):
            return [(path or "<root>", "structure", f"expected dict, got {type(obs).__name__}", bool(space.contains(obs)))]
        out: List[Tuple[str, str, str, bool]] = []
        if set(obs) != set(space.spaces):
            out.append((path or "<root>", "structure", f"keys {sorted(obs)} != space keys {sorted(space.spaces)}",
                        bool(space.contains(obs))))
        for k, sub in space.spaces.items():
            if k in obs:
                out += gym_space_problems(sub, obs[k], f"{path}.{k}" if path else k)
        return out
    lib = bool(space.contains(obs))
    if not isinstance(obs, np.ndarray):
        return [(path, "structure", f"leaf is {type(obs).__name__}, not numpy.ndarray", lib)]
    prob: Optional[Tuple[str, str]] = None
    if isinstance(space, gym.spaces.Box):
        if obs.dtype != space.dtype:
            prob = ("dtype", f"dtype {obs.dtype} != space dtype {space.dtype}")
        elif obs.shape != space.shape:
            prob = ("shape", f"shape {obs.shape} != space shape {space.shape}")
        else:
            prob = _bounds_kind(obs, space.low, space.high)
    elif isinstance(space, gym.spaces.Discrete):
        if obs.dtype.kind not in "iu":
            prob = ("dtype", f"dtype {obs.dtype} is not an integer type")
        elif obs.shape != ():
            prob = ("shape", f"shape {obs.shape} != ()")
        else:
            lo = int(space.start)
            prob = _bounds_kind(obs, np.asarray(lo), np.asarray(lo + int(space.n) - 1))
    elif isinstance(space, gym.spaces.MultiDiscrete):
        if obs.dtype.kind not in "iu":
            prob = ("dtype", f"dtype {obs.dtype} is not an integer type")
        elif obs.shape != space.nvec.shape:
            prob = ("shape", f"shape {obs.shape} != {space.nvec.shape}")
        else:
            prob = _bounds_kind(obs, np.zeros_like(space.nvec), space.nvec - 1)
    else:
        prob = None if lib else ("unknown-space", f"{type(space).__name__}.contains is False")
    if prob is None and not lib:
        prob = ("library-contains-false", f"independent test accepts but {type(space).__name__}.contains rejects")
    if prob is None:
        return []
    return [(path, prob[0], prob[1], lib)]


def dm_spec_problems(spec: Any, obs: Any, path: str = "") -> List[Tuple[str, str, str, bool]]:
    """Independent membership test of a native observation against the converted dm_env spec tree
    (+ the library's own `validate` per leaf). Returns [(leaf, kind, detail, library_validates)]."""
    import dm_env

    if isinstance(spec, dict):
        f = speccheck.fields(obs)
        if f is None:
            return [(path or "<root>", "structure", f"expected a container, got {type(obs).__name__}", False)]
        out: List[Tuple[str, str, str, bool]] = []
        if set(f) != set(spec):
            out.append((path or "<root>", "structure", f"fields {sorted(f)} != spec keys {sorted(spec)}", False))
        for k, sub in spec.items():
            if k in f:
                out += dm_spec_problems(sub, f[k], f"{path}.{k}" if path else k)
        return out
    try:
        spec.validate(obs)
        lib = True
    except Exception:  # noqa: BLE001
        lib = False
    x = np.asarray(obs)
    prob: Optional[Tuple[str, str]] = None
    if x.dtype != spec.dtype:
        prob = ("dtype", f"dtype {x.dtype} != spec dtype {spec.dtype}")
    elif tuple(x.shape) != tuple(spec.shape):
        prob = ("shape", f"shape {x.shape} != spec shape {spec.shape}")
    elif isinstance(spec, dm_env.specs.BoundedArray):
        prob = _bounds_kind(x, np.broadcast_to(spec.minimum, spec.shape), np.broadcast_to(spec.maximum, spec.shape))
    if prob is None and not lib:
        prob = ("library-validate-raises", "independent test accepts but dm_env spec.validate raises")
    if prob is None:
        return []
    return [(path, prob[0], prob[1], lib)]


# ---------------------------------------------------------------------------------------------
# reference model
# ---------------------------------------------------------------------------------------------
class Node:
    __slots__ = ("key", "state", "ts", "ts_np", "started", "ended", "seed_tag", "resets", "acts", "episodes", "epi")

    def __init__(self, key: Any, seed_tag: Any):
        self.key = key
        self.state = None
        self.ts = None
        self.ts_np = None
        self.started = False  # a reset has happened
        self.ended = False  # the last timestep of the current episode was LAST (or later)
        self.seed_tag = seed_tag  # value of the last seeding event
        self.resets = 0  # resets since the last seeding event
        self.acts: Tuple[int, ...] = ()  # action indices since the last reset
        self.episodes = 0  # resets in the whole history
        self.epi: Any = None  # identity of the running episode: (seed in force at its reset, reset # since that seed)

    def copy(self) -> "Node":
        n = Node(self.key, self.seed_tag)
        for a in self.__slots__:
            setattr(n, a, getattr(self, a))
        return n

    @property
    def episode_sig(self) -> Tuple[Any, Tuple[int, ...]]:
        """Under the documented key schedule an output is a function of this and nothing else."""
        return (self.epi, self.acts)


class Reference:
    """Pure model of both adapters on top of the native API; memoised over history prefixes."""

    def __init__(self, env: Any, actions: Sequence[np.ndarray], jit: bool = True):
        self.env = env
        self.actions = [jnp.asarray(a) for a in actions]
        self.reset = jax.jit(env.reset) if jit else env.reset
        self.step = jax.jit(env.step) if jit else env.step
        self.memo: Dict[Any, Node] = {}
        self.native_calls = 0

    def root(self, tag: Any, seed: int) -> Node:
        k = ("root", tag)
        if k not in self.memo:
            self.memo[k] = Node(jax.random.PRNGKey(seed), seed)
        return self.memo[k]

    def _do_reset(self, n: Node) -> None:
        k, n.key = jax.random.split(n.key)
        n.state, n.ts = self.reset(k)
        n.ts_np = to_np(n.ts)
        n.started, n.ended = True, False
        n.resets += 1
        n.episodes += 1
        n.acts = ()
        n.epi = (n.seed_tag, n.resets)
        self.native_calls += 1

    def apply(self, tag: Any, prefix: Tuple[Any, ...], node: Node, op: Tuple[str, Optional[int]],
              variant: str = "") -> Node:
        mk = (tag, prefix, op, variant)
        hit = self.memo.get(mk)
        if hit is not None:
            return hit
        n = node.copy()
        kind, v = op
        if kind == "seed" or (kind == "reset" and v is not None):
            n.key = jax.random.PRNGKey(int(v))
            n.seed_tag, n.resets = int(v), 0
        if kind == "reset" or variant == "restart":
            self._do_reset(n)
        elif kind == "step":
            n.state, n.ts = self.step(node.state, self.actions[int(v)])
            n.ts_np = to_np(n.ts)
            n.ended = node.ended or int(n.ts_np.step_type) == 2
            n.acts = node.acts + (int(v),)
            self.native_calls += 1
        self.memo[mk] = n
        return n


# ---------------------------------------------------------------------------------------------
# the checker
# ---------------------------------------------------------------------------------------------
class Checker:
    def __init__(self, family: str, model: str, ctor: str, env: Any, jit_reference: bool = True):
        from jumanji import specs as jspecs

        self.family, self.model, self.ctor, self.env = family, model, ctor, env
        self.acts = pick_actions(env.action_spec)
        self.ref = Reference(env, self.acts, jit=jit_reference)
        self.obs_spec = env.observation_spec
        self.gym_obs_space = jspecs.jumanji_specs_to_gym_spaces(env.observation_spec)
        self._best: Dict[str, Tuple[Any, Violation]] = {}
        self.n_by_sig: Dict[str, int] = {}
        self.vac: Dict[str, int] = {}
        self.episodes: Dict[Any, Any] = {}  # gym: episode signature -> first adapter output
        self.dm_episodes: Dict[Any, Any] = {}
        self.ops = 0
        self.samples: List[Any] = []

    def count(self, k: str, n: int = 1) -> None:
        self.vac[k] = self.vac.get(k, 0) + int(n)

    def violation(self, sig: str, msg: str, doc: Dict[str, Any]) -> None:
        """Keeps, per signature, the case with the shortest (then lexicographically first) history, so
        the reported counterexample is minimal and does not depend on VERIF_SEED's ordering."""
        self.n_by_sig[sig] = self.n_by_sig.get(sig, 0) + 1
        h = doc.get("history", [])
        rank = (len(h), repr(h), repr(doc.get("ctor_seed", doc.get("ctor_key"))))
        if sig in self._best and self._best[sig][0] <= rank:
            return
        doc = dict(doc)
        doc.update(property=PID, signature=sig, model=self.model, family=self.family, ctor=self.ctor,
                   actions=[np.asarray(a).tolist() for a in self.acts])
        hist = " ; ".join(op_str(o) for o in h)
        self._best[sig] = (rank, Violation(PID, self.model, sig, f"{msg}  [history: {hist}]", doc))

    @property
    def violations(self) -> List[Violation]:
        return [self._best[s][1] for s in sorted(self._best)]

    # -- native-spec cross reference ----------------------------------------------------------
    def _native_bad_leaves(self, native_obs: Any) -> set:
        return {p for p, kind, _, _ in speccheck.check(self.obs_spec, native_obs, 0, "")
                if kind in ("below-minimum", "above-maximum", "nan", "dtype", "shape")}

    # -- gym ----------------------------------------------------------------------------------
    def run_gym(self, adapter: Any, ctor_seed: int, history: Sequence[Tuple[str, Optional[int]]],
                tag: Any = None) -> int:
        """Run one history on `adapter` (which must be in its constructor state). Returns the
        number of problems found."""
        tag = ("gym", ctor_seed) if tag is None else tag
        node = self.ref.root(tag, ctor_seed)
        space = adapter.observation_space
        gacts = [gym_member(adapter.action_space, a) for a in self.acts]
        n_prob = 0
        base = {"kind": "gym", "ctor_seed": ctor_seed}
        for i, op in enumerate(history):
            kind, v = op
            prefix = tuple(history[:i])
            doc = dict(base, history=[list(o) for o in history[: i + 1]])
            was_ended = node.ended
            node = self.ref.apply(tag, prefix, node, op)
            self.ops += 1
            try:
                if kind == "seed":
                    out = adapter.seed(int(v))
                elif kind == "reset":
                    out = adapter.reset() if v is None else adapter.reset(seed=int(v))
                else:
                    out = adapter.step(gacts[int(v)])
            except Exception as e:  # noqa: BLE001
                self.violation(f"JumanjiToGymWrapper.{kind}:raises",
                               f"{op_str(op)} raised {type(e).__name__}: {str(e)[:200]}", doc)
                return n_prob + 1
            if kind == "seed":
                if out is not None:
                    self.violation("JumanjiToGymWrapper.seed:returns-a-value", f"seed() returned {out!r}", doc)
                    n_prob += 1
                continue
            probs: List[Tuple[str, str]] = []
            ts = node.ts_np
            if kind == "reset":
                self.count("gym_resets")
                if v is not None:
                    self.count("resets_with_seed")
                if node.episodes > 1:
                    self.count("gym_resets_after_first_episode")
                if not (isinstance(out, tuple) and len(out) == 2):
                    probs.append(("reset:result-not-(obs,info)", f"reset returned {type(out).__name__}"))
                    obs = info = None
                else:
                    obs, info = out
                digest: Any = (obs, info)
            else:
                self.count("gym_steps")
                if was_ended:
                    self.count("gym_post_last_steps")
                if not (isinstance(out, tuple) and len(out) == 5):
                    probs.append(("step:result-not-5-tuple", f"step returned {type(out).__name__}"))
                    obs = info = None
                    digest = None
                else:
                    obs, rew, term, trunc, info = out
                    digest = (obs, np.float64(rew), bool(term), bool(trunc), info)
                    exp_term = bool(np.all(np.asarray(ts.discount) == 0))
                    exp_trunc = int(ts.step_type) == 2
                    if type(rew) is not float:
                        probs.append(("step:reward-not-a-float", f"reward has type {type(rew).__name__}"))
                    elif not np.isclose(rew, float(np.asarray(ts.reward)), rtol=1e-5, atol=1e-6, equal_nan=True):
                        probs.append(("step:reward-differs-from-native",
                                      f"reward {rew} vs native {float(np.asarray(ts.reward))}"))
                    if type(term) is not bool or type(trunc) is not bool:
                        probs.append(("step:flags-not-bool", f"terminated {type(term).__name__}, truncated {type(trunc).__name__}"))
                    if bool(term) != exp_term:
                        probs.append(("step:terminated-differs-from-(native-discount==0)",
                                      f"terminated={term} but native discount={np.asarray(ts.discount).tolist()}"))
                    if bool(trunc) != exp_trunc:
                        probs.append(("step:truncated-differs-from-(native-step-is-LAST)",
                                      f"truncated={trunc} but native step_type={int(ts.step_type)}"))
                    if not was_ended:
                        self.count("terminated_true", int(exp_term))
                        self.count("truncated_true", int(exp_trunc))
                        self.count("terminated_false_truncated_true", int(exp_trunc and not exp_term))
                        self.count("terminated_false_truncated_false", int(not exp_trunc and not exp_term))
            if obs is not None or info is not None:
                exp_obs = gym_tree(ts.observation)
                d = [] if fast_equal(obs, exp_obs) else dict_tree_diff(obs, exp_obs)
                if d:
                    probs.append((f"{kind}:observation-differs-from-native", "; ".join(d[:3])))
                if not isinstance(info, dict):
                    probs.append((f"{kind}:info-not-a-dict", f"info is {type(info).__name__}"))
                else:
                    d = [] if fast_equal(info, dict(ts.extras)) else leaf_diff(info, dict(ts.extras))
                    if d:
                        probs.append((f"{kind}:info-differs-from-native-extras", "; ".join(d[:3])))
                # (3) membership in the converted observation space (not for post-terminal steps)
                if not (kind == "step" and was_ended):
                    sp = gym_space_problems(space, obs)
                    self.count("gym_obs_space_checked")
                    if sp:
                        nat = self._native_bad_leaves(ts.observation)
                        for leaf, pk, detail, lib in sp[:4]:
                            tagn = ":native-spec-also-violated" if leaf in nat else ""
                            where = "library contains() also rejects" if not lib else "library contains() ACCEPTS"
                            self.violation(f"{self.family}:gym-observation-outside-converted-space:{leaf}:{pk}{tagn}",
                                           f"after {op_str(op)} the gym observation leaf '{leaf}' is not in "
                                           f"{type(space).__name__} observation_space: {detail} ({where})", doc)
                            n_prob += 1
                else:
                    self.count("gym_post_last_obs_not_space_checked")
            # re-seeding reproduces the same episode (adapter vs adapter, no reference involved)
            if digest is not None:
                sig = node.episode_sig
                first = self.episodes.get(sig)
                if first is None:
                    self.episodes[sig] = (digest, doc["history"], ctor_seed)
                else:
                    self.count("reseed_repeats_compared")
                    d = [] if fast_equal(_norm(digest), _norm(first[0])) else leaf_diff(_norm(digest), _norm(first[0]))
                    if d:
                        probs.append(("re-seeding-does-not-reproduce-episode",
                                      f"episode (seed={sig[0][0]}, reset #{sig[0][1]}, actions {list(sig[1])}) gave a different "
                                      f"output than in history {first[1]} (ctor seed {first[2]}): {'; '.join(d[:3])}"))
            for s, m in probs:
                self.violation(f"JumanjiToGymWrapper.{s}", f"{op_str(op)}: {m}", doc)
            n_prob += len(probs)
            if probs:
                return n_prob  # later outputs of a diverged history carry no further information
        return n_prob

    # -- dm_env -------------------------------------------------------------------------------
    def run_dm(self, adapter: Any, ctor_key: Optional[int], history: Sequence[Tuple[str, Optional[int]]],
               dm_spec: Any, tag: Any = None) -> int:
        import dm_env

        tag = ("dm", ctor_key) if tag is None else tag
        node = self.ref.root(tag, 0 if ctor_key is None else int(ctor_key))
        n_prob = 0
        base = {"kind": "dm", "ctor_key": ctor_key}
        for i, op in enumerate(history):
            kind, v = op
            prefix = tuple(history[:i])
            doc = dict(base, history=[list(o) for o in history[: i + 1]])
            was_ended = node.ended
            parent = node
            node = self.ref.apply(tag, prefix, parent, op)
            self.ops += 1
            try:
                out = adapter.reset() if kind == "reset" else adapter.step(self.acts[int(v)])
            except Exception as e:  # noqa: BLE001
                self.violation(f"JumanjiToDMEnvWrapper.{kind}:raises",
                               f"{op_str(op)} raised {type(e).__name__}: {str(e)[:200]}", doc)
                return n_prob + 1
            probs: List[Tuple[str, str]] = []
            if not isinstance(out, dm_env.TimeStep):
                self.violation(f"JumanjiToDMEnvWrapper.{kind}:result-not-a-dm_env.TimeStep",
                               f"{op_str(op)} returned {type(out).__name__}", doc)
                return n_prob + 1

            def first_problems(o: Any, n: Node) -> List[Tuple[str, str]]:
                ps = []
                if not (int(o.step_type) == 0 and o.first()):
                    ps.append(("first-timestep-not-FIRST", f"step_type {o.step_type!r}"))
                if o.reward is not None or o.discount is not None:
                    ps.append(("first-timestep-has-reward-or-discount", f"reward={o.reward!r} discount={o.discount!r}"))
                d = leaf_diff(to_np(o.observation), n.ts_np.observation)
                if d:
                    ps.append(("reset:observation-differs-from-native", "; ".join(d[:3])))
                return ps

            def relay_problems(o: Any, n: Node) -> List[Tuple[str, str]]:
                ps = []
                t = n.ts_np
                if o.step_type is None or int(o.step_type) != int(t.step_type):
                    ps.append(("step:step_type-differs-from-native", f"{o.step_type!r} vs native {int(t.step_type)}"))
                for nm in ("reward", "discount"):
                    g = getattr(o, nm)
                    if g is None:
                        ps.append((f"step:{nm}-is-None", f"{nm} is None on a non-first step"))
                        continue
                    d = leaf_diff(np.asarray(g), np.asarray(getattr(t, nm)))
                    if d:
                        ps.append((f"step:{nm}-differs-from-native", f"{np.asarray(g).tolist()} vs native "
                                   f"{np.asarray(getattr(t, nm)).tolist()} ({d[0]})"))
                d = leaf_diff(to_np(o.observation), t.observation)
                if d:
                    ps.append(("step:observation-differs-from-native", "; ".join(d[:3])))
                return ps

            if kind == "reset":
                probs = first_problems(out, node)
                self.count("dm_first_steps")
                if node.episodes > 1:
                    self.count("dm_resets_after_first_episode")
            else:
                probs = relay_problems(out, node)
                if was_ended:
                    if probs:
                        # docstring behaviour: a step after LAST starts a new sequence
                        alt = self.ref.apply(tag, prefix, parent, op, variant="restart")
                        if not first_problems(out, alt):
                            node, probs = alt, []
                            self.count("dm_post_last_restarted")
                    else:
                        self.count("dm_post_last_relayed")
                st = int(node.ts_np.step_type)
                self.count({0: "dm_first_steps", 1: "dm_mid_steps", 2: "dm_last_steps"}[st])
            # (3) observation satisfies the converted spec (not for post-terminal steps)
            if not (kind == "step" and was_ended):
                sp = dm_spec_problems(dm_spec, out.observation)
                self.count("dm_obs_spec_checked")
                if sp:
                    nat = self._native_bad_leaves(node.ts_np.observation)
                    for leaf, pk, detail, lib in sp[:4]:
                        tagn = ":native-spec-also-violated" if leaf in nat else ""
                        where = "dm_env validate() also raises" if not lib else "dm_env validate() ACCEPTS"
                        self.violation(f"{self.family}:dm_env-observation-violates-converted-spec:{leaf}:{pk}{tagn}",
                                       f"after {op_str(op)} observation leaf '{leaf}' does not satisfy the converted "
                                       f"dm_env spec: {detail} ({where})", doc)
                        n_prob += 1
            # same key schedule => same episode, adapter vs adapter
            digest = (None if out.reward is None else np.asarray(out.reward),
                      None if out.discount is None else np.asarray(out.discount),
                      int(out.step_type), to_np(out.observation))
            sig = node.episode_sig
            first = self.dm_episodes.get(sig)
            if first is None:
                self.dm_episodes[sig] = (digest, doc["history"])
            else:
                self.count("dm_episode_repeats_compared")
                d = [] if fast_equal(_norm(digest), _norm(first[0])) else leaf_diff(_norm(digest), _norm(first[0]))
                if d:
                    probs.append(("same-key-schedule-gives-different-episode",
                                  f"differs from history {first[1]}: {'; '.join(d[:3])}"))
            for s, m in probs:
                self.violation(f"JumanjiToDMEnvWrapper.{s}", f"{op_str(op)}: {m}", doc)
            n_prob += len(probs)
            if probs:
                return n_prob
        return n_prob


def _norm(x: Any) -> Any:
    """None-free pytree for leaf_diff."""
    if isinstance(x, (tuple, list)):
        return tuple(_norm(v) for v in x)
    if x is None:
        return np.asarray(np.nan)
    if isinstance(x, (bool, int, float)):
        return np.asarray(x)
    return x


# ---------------------------------------------------------------------------------------------
# adapter construction / restoration
# ---------------------------------------------------------------------------------------------
class Restorable:
    """One adapter object reused across histories: after each history every instance attribute is put back to what
    the constructor left (the same objects; mutable containers as deep copies taken at construction; attributes
    that did not exist are removed), so the next history starts from a freshly constructed adapter's state even
    if the adapter keeps more state than `_key` / `_state`.  A few histories per configuration are additionally
    run on genuinely new adapter objects (run_config)."""

    def __init__(self, adapter: Any):
        import copy

        self.adapter = adapter
        self.attrs = dict(vars(adapter))
        self.key0 = np.array(adapter._key, copy=True)
        self.copies = {k: copy.deepcopy(v) for k, v in self.attrs.items() if isinstance(v, (list, dict, set, bytearray))}

    def restore(self) -> Optional[str]:
        import copy

        a = self.adapter
        for k in list(vars(a)):
            if k not in self.attrs:
                delattr(a, k)
        for k, v in self.attrs.items():
            if k in self.copies:
                if vars(a).get(k) != self.copies[k]:
                    setattr(a, k, copy.deepcopy(self.copies[k]))
            elif vars(a).get(k, None) is not v:
                setattr(a, k, v)
        a._key = jnp.asarray(self.key0)
        return None


def new_gym(env: Any, ctor_seed: int) -> Any:
    from jumanji.wrappers import JumanjiToGymWrapper

    return JumanjiToGymWrapper(env, seed=ctor_seed)


def new_dm(env: Any, ctor_key: Optional[int]) -> Any:
    from jumanji.wrappers import JumanjiToDMEnvWrapper

    if ctor_key is None:
        return JumanjiToDMEnvWrapper(env)
    return JumanjiToDMEnvWrapper(env, key=jax.random.PRNGKey(int(ctor_key)))


def _rotate(items: List[Any], seed: int, n: int) -> List[Any]:
    """Deterministic seed-rotated choice of n items (which ones get the expensive validation)."""
    keyed = sorted(items, key=lambda h: hashlib.sha1(f"{seed}|{h!r}".encode()).digest())
    return keyed[:n]


# ---------------------------------------------------------------------------------------------
# worker: all histories of one configuration
# ---------------------------------------------------------------------------------------------
def run_config(family: str, index: int, tier: str, seed: int, model: str = "") -> Dict[str, Any]:
    del model  # only there so that a crashed worker is reported under a readable name
    t0 = time.time()
    model, ctor = STUBS[index] if family == "_scripted" else CONFIGS[family][index]
    env = make_env(ctor)
    ck = Checker(family, model, ctor, env)
    b = BOUNDS[tier]
    res: Dict[str, Any] = {"model": model, "family": family, "ctor": ctor, "part": "adapter-histories",
                           "bounds": {"gym_history_length": b["gym"], "dm_history_length": b["dm"]},
                           "alphabet_actions": [np.asarray(a).tolist() for a in ck.acts]}
    errors: List[str] = []
    validated = 0
    states = 0

    # ---- gym
    g_hist = gym_histories(b["gym"])
    g_pref = n_prefixes(g_hist)
    order = _rotate(g_hist, seed, len(g_hist))  # seed only rotates the order
    for s in GYM_CTOR_SEEDS:
        ad = new_gym(env, s)
        if not ad.action_space.contains(gym_member(ad.action_space, ck.acts[0])) or \
                not ad.action_space.contains(gym_member(ad.action_space, ck.acts[1])):
            errors.append("alphabet action is not a member of the converted gym action space")
        r = Restorable(ad)
        for h in order:
            ck.run_gym(ad, s, h)
            err = r.restore()
            if err:
                errors.append(err)
                break
        states += g_pref
        ck.count("histories", g_pref)
    # genuinely new adapter objects (which histories: rotated by VERIF_SEED; their operations are
    # counted apart so that the coverage counters do not depend on the seed)
    ops0, vac0 = ck.ops, dict(ck.vac)
    for j, h in enumerate(_rotate(g_hist, seed + 1, b["fresh"])):
        s = GYM_CTOR_SEEDS[j % len(GYM_CTOR_SEEDS)]
        ck.run_gym(new_gym(env, s), s, h)
        validated += 1
    fresh_ops = ck.ops - ops0
    ck.ops, ck.vac = ops0, vac0
    res["gym_histories_maximal"] = len(g_hist) * len(GYM_CTOR_SEEDS)

    # ---- dm_env
    d_hist = histories(DM_OPS, b["dm"])
    d_pref = n_prefixes(d_hist)
    order = _rotate(d_hist, seed, len(d_hist))
    for k in DM_CTOR_KEYS:
        ad = new_dm(env, k)
        dm_spec = ad.observation_spec()
        # informational: what does a step before the first reset do (docstring: starts a new sequence)
        try:
            o = ad.step(ck.acts[0])
            ck.count("dm_step_before_reset_restarts" if (o.first() and o.reward is None) else
                     "dm_step_before_reset_other")
            ad = new_dm(env, k)
        except Exception as e:  # noqa: BLE001
            ck.count("dm_step_before_reset_raises")
            res["dm_step_before_reset"] = f"raises {type(e).__name__}: {str(e)[:120]}"
        r = Restorable(ad)
        for h in order:
            ck.run_dm(ad, k, h, dm_spec)
            err = r.restore()
            if err:
                errors.append(err)
                break
        states += d_pref
        ck.count("histories", d_pref)
    ops0, vac0 = ck.ops, dict(ck.vac)
    for j, h in enumerate(_rotate(d_hist, seed + 1, b["fresh"])):
        k = DM_CTOR_KEYS[j % len(DM_CTOR_KEYS)]
        ad = new_dm(env, k)
        ck.run_dm(ad, k, h, ad.observation_spec())
        validated += 1
    fresh_ops += ck.ops - ops0
    ck.ops, ck.vac = ops0, vac0
    res["fresh_adapter_operations"] = fresh_ops
    res["dm_histories_maximal"] = len(d_hist) * len(DM_CTOR_KEYS)

    # samples: one concrete gym history with the reference's view of it
    hs = _rotate(g_hist, seed + 2, 1)[0]
    node = ck.ref.root(("gym", 0), 0)
    trace = []
    for i, op in enumerate(hs):
        node = ck.ref.apply(("gym", 0), tuple(hs[:i]), node, op)
        if node.ts_np is not None and op[0] != "seed":
            trace.append({"op": op_str(op), "step_type": int(node.ts_np.step_type),
                          "reward": np.asarray(node.ts_np.reward).tolist(),
                          "discount": np.asarray(node.ts_np.discount).tolist()})
        else:
            trace.append({"op": op_str(op)})
    res["samples"] = [{"model": model, "adapter": "gym", "ctor_seed": 0, "history": trace}]
    res.update(states=states, transitions=ck.ops, validated=validated, violations=ck.violations,
               violation_counts=dict(ck.n_by_sig), vacuity=dict(ck.vac), exhaustive=True,
               reference_native_calls=ck.ref.native_calls, total_s=round(time.time() - t0, 2))
    if errors:
        res["error"] = "; ".join(sorted(set(errors)))
    return res


# ---------------------------------------------------------------------------------------------
# (4) every member of the converted action space is a valid native action
# ---------------------------------------------------------------------------------------------
def _product_members(lo: np.ndarray, hi: np.ndarray, dtype: Any, cap: int) -> Tuple[np.ndarray, bool, int]:
    """Members of the integer box [lo, hi] (inclusive): all of them when <= cap, otherwise every
    per-coordinate extreme (all-low, all-high, and each coordinate at its low/high with the others at
    low and at high)."""
    shape = lo.shape
    lo_f, hi_f = lo.ravel().astype(np.int64), hi.ravel().astype(np.int64)
    total = int(np.prod((hi_f - lo_f + 1).astype(object)))
    if total <= cap:
        rows = np.array(list(itertools.product(*[range(int(l), int(h) + 1) for l, h in zip(lo_f, hi_f)])),
                        dtype=np.int64).reshape((-1,) + shape)
        return rows.astype(dtype), True, total
    rows_l = [lo_f.copy(), hi_f.copy()]
    for j in range(lo_f.size):
        for base, other in ((lo_f, hi_f), (hi_f, lo_f)):
            r = base.copy()
            r[j] = other[j]
            rows_l.append(r)
    rows = np.unique(np.stack(rows_l), axis=0).reshape((-1,) + shape)
    return rows.astype(dtype), False, total


def action_space_members(space: Any, cap: int) -> Tuple[List[Any], bool, int]:
    import gymnasium as gym

    if isinstance(space, gym.spaces.Discrete):
        vals = [np.int64(v) for v in range(int(space.start), int(space.start) + int(space.n))]
        if len(vals) > cap:
            return [vals[0], vals[-1]], False, len(vals)
        return vals, True, len(vals)
    if isinstance(space, gym.spaces.MultiDiscrete):
        nv = np.asarray(space.nvec)
        rows, ex, total = _product_members(np.zeros_like(nv), nv - 1, space.dtype, cap)
        return list(rows), ex, total
    if isinstance(space, gym.spaces.Box) and np.dtype(space.dtype).kind in "iu":
        rows, ex, total = _product_members(np.asarray(space.low), np.asarray(space.high), space.dtype, cap)
        return list(rows), ex, total
    raise TypeError(f"action space {space!r} is not a finite integer space")


def check_action_space(family: str, model: str, ctor: str, env: Any, cap: int, validate_cap: int) -> Dict[str, Any]:
    """All members of jumanji_specs_to_gym_spaces(action_spec) -> jnp.asarray (as the adapter does)
    -> member of the original spec (independent test on all; spec.validate on up to validate_cap)."""
    from jumanji import specs as jspecs

    spec = env.action_spec
    space = jspecs.jumanji_specs_to_gym_spaces(spec)
    members, exhaustive, total = action_space_members(space, cap)
    viol: List[Violation] = []
    seen_sig: Dict[str, int] = {}

    def report(sig: str, msg: str, member: Any) -> None:
        seen_sig[sig] = seen_sig.get(sig, 0) + 1
        if seen_sig[sig] > 2:
            return
        viol.append(Violation(PID, model, sig, msg, {
            "kind": "action-space", "property": PID, "signature": sig, "model": model, "family": family,
            "ctor": ctor, "member": np.asarray(member).tolist(), "member_dtype": str(np.asarray(member).dtype)}))

    n_lib = 0
    stride = max(1, -(-len(members) // max(1, validate_cap)))
    for idx, m in enumerate(members):
        if not space.contains(m):
            raise AssertionError(f"enumerated value {m!r} is not a member of {space!r}")
        native = jnp.asarray(m)  # what JumanjiToGymWrapper.step hands to env.step
        probs = speccheck.check(spec, np.asarray(native), 0, "action")
        for path, kind, _, detail in probs:
            report(f"{family}:gym-action-space-member-invalid-for-native-spec:{kind}",
                   f"{type(space).__name__} member {np.asarray(m).tolist()} of the converted action space is not a "
                   f"valid native action: {detail}", m)
        if idx % stride == 0 or idx == len(members) - 1:
            n_lib += 1
            try:
                spec.validate(native)
                ok = True
            except Exception as e:  # noqa: BLE001
                ok = False
                if not probs:
                    report(f"{family}:gym-action-space-member-rejected-by-spec.validate",
                           f"member {np.asarray(m).tolist()}: action_spec.validate raised {type(e).__name__}: "
                           f"{str(e)[:160]} (independent membership test accepts)", m)
            if ok and probs:
                report(f"{family}:action_spec.validate-accepts-out-of-spec-member",
                       f"member {np.asarray(m).tolist()}: validate accepts but the independent test says {probs[0][3]}", m)
    # informational: is the converted space exactly the spec's alphabet?
    try:
        from mc.engine import all_actions

        same_size = total == len(all_actions(spec, cap=10 ** 9)) if total <= 200000 else None
    except Exception:  # noqa: BLE001
        same_size = None
    return {"model": model, "space": repr(space), "spec": type(spec).__name__, "members_total": total,
            "members_checked": len(members), "exhaustive": exhaustive, "validate_calls": n_lib,
            "same_cardinality_as_spec": same_size, "violations": viol}


def run_action_spaces(family: str, tier: str, seed: int, model: str = "") -> Dict[str, Any]:
    del model
    t0 = time.time()
    cap = 20000
    validate_cap = 1500 if tier == "quick" else 20000
    todo: List[Tuple[str, str]] = [(c.name, c.ctor) for c in catalog.select(tier, families=[family])]
    todo += CONFIGS[family][: (1 if tier == "quick" else None)]
    seen = set()
    per: List[Dict[str, Any]] = []
    viol: List[Violation] = []
    vac = {"action_members_checked": 0, "action_spaces_checked": 0, "action_spaces_fully_enumerated": 0,
           "action_spaces_extremes_only": 0, "action_validate_calls": 0}
    for name, ctor in todo:
        if ctor in seen:
            continue
        seen.add(ctor)
        env = make_env(ctor)
        r = check_action_space(family, name, ctor, env, cap, validate_cap)
        viol += r.pop("violations")
        per.append(r)
        vac["action_members_checked"] += r["members_checked"]
        vac["action_spaces_checked"] += 1
        vac["action_spaces_fully_enumerated" if r["exhaustive"] else "action_spaces_extremes_only"] += 1
        vac["action_validate_calls"] += r["validate_calls"]
    return {"model": f"action-space:{family}", "family": family, "part": "action-space-members",
            "states": vac["action_members_checked"], "transitions": vac["action_members_checked"],
            "validated": vac["action_validate_calls"], "spaces": per, "violations": viol, "vacuity": vac,
            "exhaustive": all(p["exhaustive"] for p in per),
            "samples": [{"model": p["model"], "space": p["space"], "members_checked": p["members_checked"],
                         "of": p["members_total"]} for p in per[:2]],
            "total_s": round(time.time() - t0, 2)}


# ---------------------------------------------------------------------------------------------
# replay of one recorded case (plain Python, new adapter object, un-pooled)
# ---------------------------------------------------------------------------------------------
def replay(rdoc: Dict[str, Any]) -> int:
    kind = rdoc["kind"]
    env = make_env(rdoc["ctor"])
    want = rdoc.get("signature")
    if kind == "action-space":
        r = check_action_space(rdoc["family"], rdoc["model"], rdoc["ctor"], env, 20000, 20000)
        sigs = sorted({v.signature for v in r["violations"]})
        print(f"replay(action-space): space={r['space']} members={r['members_checked']} signatures={sigs}")
        return 1 if (want in sigs or (want is None and sigs)) else 0
    ck = Checker(rdoc["family"], rdoc["model"], rdoc["ctor"], env, jit_reference=False)  # eager native reference
    hist = [(o[0], o[1]) for o in rdoc["history"]]
    print(f"replay({kind}) {rdoc['model']}: " + " ; ".join(op_str(o) for o in hist))
    if kind == "gym":
        ck.run_gym(new_gym(env, int(rdoc["ctor_seed"])), int(rdoc["ctor_seed"]), hist)
    else:
        ad = new_dm(env, rdoc["ctor_key"])
        ck.run_dm(ad, rdoc["ctor_key"], hist, ad.observation_spec())
    for v in ck.violations:
        print(f"  {v.signature}: {v.message}")
    sigs = {v.signature for v in ck.violations}
    return 1 if (want in sigs or (want is None and sigs)) else 0
